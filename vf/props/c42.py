"""C42 Schema generators faithfully translate any valid schema.

For a valid schema S (the real src/xml/mjcf.schema, validity-preserving perturbations of it, and fully synthetic
grammar-derived schemas for the anchor-light generators) every generator is run on S through its module-level
SCHEMA_PATH (pointed at a temporary file under out/tmp-c42-<pid>/; /repo is never written), its output is read back
by an independent back-parser for that output format and compared with S after S's documented projections, and the
same generation is repeated in separate processes under different PYTHONHASHSEED values and compared byte for byte.
"""
import hashlib
import importlib
import importlib.util
import json
import os
import re
import shutil
import subprocess
import sys
import unittest
import xml.etree.ElementTree as ET

import numpy as np

from .. import build, core, par
from ..ref import mjcfschema as R

LEVEL = "exploration"
RULE = ("schemas = the real mjcf.schema, 1-4 random validity-preserving perturbations of it (remove / rename+field= / "
        "add attributes, change defaults, arity, required, enum keywords and constants, add enums, groups and elements, "
        "reorder attributes) for all 7 generators, and synthetic grammar-derived schemas (tree-shaped children, a "
        "'default' subtree, alias elements, all attribute types) for generate_xsd / generate_mjcf_table / "
        "generate_mjcf_map. distinct = (generator, schema family, perturbation kinds); non-trivial = schema accepted by "
        "the parser and generator output non-empty")
ASSUMPTIONS = [
    "S is the schema as returned by mjcf_schema.parse_string (its soundness is C41's subject); group expansion is "
    "recomputed independently",
    "documented intentional omissions are part of the expected model: NOT_TABLE_DRIVEN / HAND_GROUPS / 'reading' facet / "
    "file and ref<default> attributes (read table), pointer-typed and unbound fields and the first-declared-row rule "
    "(default table), EXCLUDED_ELEMENTS / overlay tables (dm_control), alias elements and the default-context "
    "projection (grammar table, XSD), ELEMENT_ORDER (XMLschema.rst)",
    "a generator refusing a schema with its own documented ValueError (numeric facets on a vector attribute, "
    "unreachable elements, conflicting defaults for one struct field, struct/arity mismatch, dangling dm_control "
    "namespace) is counted as skipped, not as a violation",
    "formatting (whitespace, wrapping, comments, annotation text) is not compared",
    "XMLschema.rst (generate_schema.py) is not among the outputs the statement names (XSD, C++ attribute/read/default "
    "tables, element map, dm_control schema): it is still generated and compared, but every failure or mismatch of it "
    "is only COUNTED as out_of_scope:schema_rst:<what> and never produces a violation",
]

GENERATORS = ("xsd", "mjcf_table", "mjcf_map", "read_table", "default_table", "dmcontrol", "schema_rst")
LIGHT = ("xsd", "mjcf_table", "mjcf_map")
OUT_OF_SCOPE = ("schema_rst",)          # generators whose output the C42 statement does not name: counters only
OUT_OF_SCOPE_DOC_TESTS = ("test_schema",)   # the repo's freshness test of doc/XMLschema.rst
MODNAME = {"xsd": "generate_xsd", "mjcf_table": "generate_mjcf_table", "mjcf_map": "generate_mjcf_map",
           "read_table": "generate_read_table", "default_table": "generate_default_table",
           "dmcontrol": "generate_dmcontrol", "schema_rst": "generate_schema"}
DOCUMENTED_REFUSALS = ("numeric facets on a vector", "elements unreachable from mujoco", "conflicting defaults",
                       "vs field dim", "vs field", "no field", "bound to field", "bound to non-string",
                       "references into namespaces no emitted element", "exceed the row capacity",
                       "unset-sentinel", "not found in headers", "not in mjspec.h", "is not table-drivable")

_MODS = {}


def _gen_dir():
    return str(build.REPO / "doc" / "generate")


def mods():
    if _MODS:
        return _MODS
    g = _gen_dir()
    if g not in sys.path:
        sys.path.insert(0, g)
    import mjcf_schema
    assert os.path.realpath(mjcf_schema.__file__).startswith(str(build.REPO))
    _MODS["mjcf_schema"] = mjcf_schema
    for k, name in MODNAME.items():
        _MODS[k] = importlib.import_module(name)
        assert os.path.realpath(_MODS[k].__file__).startswith(str(build.REPO))
    _MODS["schema_rst_file"] = _MODS["schema_rst"].__file__
    return _MODS


def tmp_root():
    p = core.OUT / ("tmp-c42-%d" % os.getpid())
    p.mkdir(parents=True, exist_ok=True)
    return p


def run_generators(schema_text, which, workdir, rst_links=()):
    """-> {generator: text | {"error": type, "message": str}} ; every path the generators read is redirected."""
    M = mods()
    workdir = str(workdir)
    sp = os.path.join(workdir, "mjcf.schema")
    with open(sp, "w", encoding="utf-8") as f:
        f.write(schema_text)
    out = {}
    for g in which:
        mod = M[g]
        try:
            if g == "schema_rst":
                fake = os.path.join(workdir, "fakerepo")
                os.makedirs(os.path.join(fake, "src", "xml", "generated"), exist_ok=True)
                os.makedirs(os.path.join(fake, "doc", "generate"), exist_ok=True)
                table = out.get("mjcf_table")
                if not isinstance(table, str):
                    out[g] = {"error": "Skipped", "message": "no grammar table"}
                    continue
                with open(os.path.join(fake, "src", "xml", "generated", "mjcf_table.inc"), "w", encoding="utf-8") as f:
                    f.write(table)
                real = (build.REPO / "doc" / "XMLreference.rst").read_text(encoding="utf-8")
                with open(os.path.join(fake, "doc", "XMLreference.rst"), "w", encoding="utf-8") as f:
                    f.write(real + "\n" + "".join(".. _%s:\n" % l for l in rst_links))
                mod.__file__ = os.path.join(fake, "doc", "generate", "generate_schema.py")
                try:
                    out[g] = mod.generate()
                finally:
                    mod.__file__ = M["schema_rst_file"]
                continue
            for m2 in {mod, M["read_table"]} if g == "default_table" else {mod}:
                m2.SCHEMA_PATH = sp
            out[g] = mod.generate()
        except RecursionError as e:
            out[g] = {"error": "RecursionError", "message": str(e)[:200]}
        except Exception as e:  # noqa: BLE001
            out[g] = {"error": type(e).__name__, "message": str(e)[:300]}
    return out


def _hash_main(argv):
    """Subprocess entry: python -m vf.props.c42 --hash job.json  (PYTHONHASHSEED set by the parent)."""
    job = json.load(open(argv[0]))
    res = []
    for i, item in enumerate(job["items"]):
        wd = os.path.join(job["dir"], "h%s-%d" % (os.environ.get("PYTHONHASHSEED", "x"), i))
        os.makedirs(wd, exist_ok=True)
        outs = run_generators(item["text"], item["which"], wd, item.get("links", ()))
        res.append({g: (hashlib.sha256(v.encode()).hexdigest() if isinstance(v, str) else "ERR:" + v["error"])
                    for g, v in outs.items()})
    print("@@HASHES " + json.dumps(res))


# ------------------------------------------------------------------------------------------------- S helpers

def cls(x):
    return type(x).__name__


def expanded(S, el):
    return R.expand_attrs(S, el.members)


def project(attrs):
    return [a for a in attrs if a.name not in ("name", "class") and not a.facets.get("nodefault")]


def children_of(el):
    return [m for m in el.members if cls(m) == "Child"]


def xml_name(el):
    return str(el.facets.get("xml", el.name))


def dims():
    text = (build.REPO / "include" / "mujoco" / "mjmodel.h").read_text(encoding="utf-8")
    return {m.group(1): int(m.group(2)) for m in re.finditer(r"^#define[ \t]+(mjN\w+)[ \t]+(\d+)", text, re.M)}


def resolve(hi, D):
    return D[hi] if isinstance(hi, str) else hi


def all_constraints(S, el):
    """element's own constraints plus those of transitively used groups (each group once)."""
    cons = [m for m in el.members if cls(m) == "Constraint"]
    seen, todo = set(), [m.group for m in el.members if cls(m) == "Use"]
    while todo:
        g = todo.pop()
        if g in seen:
            continue
        seen.add(g)
        for m in S.groups[g].members:
            if cls(m) == "Constraint":
                cons.append(m)
            elif cls(m) == "Use":
                todo.append(m.group)
    return cons


def num_list(s):
    return [float(x) for x in s.split()]


def default_matches(attr, text):
    d = attr.default
    if d is None:
        return text is None
    if text is None:
        return False
    if isinstance(d, tuple):
        try:
            return num_list(text) == [float(v) for v in d]
        except ValueError:
            return False
    if isinstance(d, (int, float)):
        try:
            return num_list(text) == [float(d)]
        except ValueError:
            return False
    return text == d


# ------------------------------------------------------------------------------------------------- XSD

XS = "{http://www.w3.org/2001/XMLSchema}"


def _simple_model(st):
    lst = st.find(XS + "list")
    if lst is not None:
        return ("list", lst.get("itemType"), 0, None)
    r = st.find(XS + "restriction")
    if r is None:
        return ("unknown",)
    inner = r.find(XS + "simpleType")
    if inner is not None and inner.find(XS + "list") is not None:
        lo, hi = 0, None
        ln = r.find(XS + "length")
        if ln is not None:
            lo = hi = int(ln.get("value"))
        if r.find(XS + "minLength") is not None:
            lo = int(r.find(XS + "minLength").get("value"))
        if r.find(XS + "maxLength") is not None:
            hi = int(r.find(XS + "maxLength").get("value"))
        return ("list", inner.find(XS + "list").get("itemType"), lo, hi)
    enums = [e.get("value") for e in r.findall(XS + "enumeration")]
    facets = {c.tag[len(XS):]: c.get("value") for c in r if c.tag != XS + "enumeration"}
    return ("restr", r.get("base"), enums, facets)


def check_xsd(S, text, V):
    D = dims()
    try:
        root = ET.fromstring(text.encode("utf-8"))
    except ET.ParseError as e:
        return V("xsd:not-well-formed-xml", str(e))
    simple = {s.get("name"): _simple_model(s) for s in root.findall(XS + "simpleType")}
    cplx = {c.get("name"): c for c in root.findall(XS + "complexType")}
    if len(cplx) != len(root.findall(XS + "complexType")):
        V("xsd:duplicate-complexType", "")
    # enums
    for e in S.enums.values():
        got = simple.get("kw_" + e.name)
        if got is None or got[0] != "restr" or got[2] != [k for k, _ in e.items]:
            V("xsd:enum-keywords-differ", "%s: %r" % (e.name, got))
    flags = {a.target for el in S.elements.values() for a in expanded(S, el) if a.type == "flags"}
    for name, mdl in simple.items():
        if name.startswith("kwlist_"):
            if name[7:] not in flags or mdl[:2] != ("list", "kw_" + name[7:]):
                V("xsd:flags-list-type-wrong-or-extra", name)
        elif name.startswith("kw_") and name != "kw_bool" and name[3:] not in S.enums:
            V("xsd:extra-enum-type", name)
    for f in flags:
        if "kwlist_" + f not in simple:
            V("xsd:flags-list-type-missing", f)
    if simple.get("kw_bool", (None,))[0] != "restr" or simple["kw_bool"][2] != ["false", "true"]:
        V("xsd:kw_bool-wrong", repr(simple.get("kw_bool")))
    # expected complex types by walking from the root
    expected, todo = {}, [("mujoco", False)]
    while todo:
        name, proj = todo.pop(0)
        if (name, proj) in expected:
            continue
        el = S.elements[name]
        kids = []
        for c in children_of(el):
            if proj and c.name == "plugin":
                continue
            target = S.elements[c.name]
            tag = xml_name(target)
            if name == "mujoco" and c.name == "body":
                target, tag = S.elements["worldbody"], "worldbody"
            cproj = proj or (name == "default" and not c.name.startswith("default_") and c.name != "default")
            kids.append((tag, ("default_" if cproj else "") + target.name))
            todo.append((target.name, cproj))
        attrs = expanded(S, el)
        expected[(name, proj)] = (project(attrs) if proj else attrs, kids)
    want_names = {("default_" if p else "") + n for n, p in expected} | {"include"}
    if set(cplx) != want_names:
        V("xsd:complexType-set-differs", "missing=%s extra=%s" % (sorted(want_names - set(cplx))[:5],
                                                                 sorted(set(cplx) - want_names)[:5]))
    for (name, proj), (attrs, kids) in expected.items():
        ct = cplx.get(("default_" if proj else "") + name)
        if ct is None:
            continue
        choice = ct.find(XS + "choice")
        got_kids = [(e.get("name"), e.get("type")) for e in choice.findall(XS + "element")] if choice is not None else []
        want_kids = kids + [("include", "include")] if kids else []
        if got_kids != want_kids:
            V("xsd:children-differ", "%s: got %r want %r" % (name, got_kids[:6], want_kids[:6]))
        if choice is not None and (choice.get("minOccurs"), choice.get("maxOccurs")) != ("0", "unbounded"):
            V("xsd:choice-not-permissive", name)
        xattrs = ct.findall(XS + "attribute")
        if [x.get("name") for x in xattrs] != [a.name for a in attrs]:
            V("xsd:attribute-list-differs", "%s%s: got %r want %r" % ("default_" if proj else "", name,
                                                                      [x.get("name") for x in xattrs][:40],
                                                                      [a.name for a in attrs][:40]))
            continue
        for a, x in zip(attrs, xattrs):
            where = "%s.%s" % (name, a.name)
            if (x.get("use") == "required") != bool(a.facets.get("required")):
                V("xsd:required-flag-differs", where)
            if x.get("use") not in (None, "required"):
                V("xsd:required-flag-differs", where)
            if not default_matches(a, x.get("default")):
                V("xsd:default-differs", "%s: %r vs %r" % (where, x.get("default"), a.default))
            bad = _xsd_type_bad(a, x, simple, D)
            if bad:
                V("xsd:type-differs:" + bad, "%s: type=%r" % (where, x.get("type")))


def _xsd_type_bad(a, x, simple, D):
    t = x.get("type")
    inline = x.find(XS + "simpleType")
    im = _simple_model(inline) if inline is not None else None
    base = {"int": "xs:int", "double": "xs:double", "float": "xs:float"}
    lo, hi = a.arity.lo, resolve(a.arity.hi, D)
    if a.type == "bool":
        return None if t == "kw_bool" else "bool"
    if a.type == "enum":
        return None if t == "kw_" + a.target else "enum"
    if a.type == "flags":
        return None if t == "kwlist_" + a.target else "flags"
    if a.type in ("string", "file", "ref", "id"):
        return None if t == "xs:string" and im is None else "text"
    if a.type == "chars":
        if t is not None or im is None or im[0] != "restr" or im[1] != "xs:string":
            return "chars"
        f = im[3]
        if "pattern" in a.facets:
            return None if f.get("pattern") == a.facets["pattern"] else "chars-pattern"
        glo = int(f.get("length", f.get("minLength", 0)))
        ghi = int(f.get("length", f.get("maxLength", -1)))
        return None if (glo, ghi) == (lo, hi) else "chars-length"
    if a.type in base:
        if (lo, hi) == (1, 1):
            want = {}
            if "min" in a.facets:
                want["minInclusive"] = float(a.facets["min"])
            if "max" in a.facets:
                want["maxInclusive"] = float(a.facets["max"])
            if a.facets.get("positive"):
                want["minExclusive"] = 0.0
            if not want:
                return None if t == base[a.type] and im is None else "scalar-base"
            if t is not None or im is None or im[0] != "restr" or im[1] != base[a.type]:
                return "scalar-restriction"
            try:
                got = {k: float(v) for k, v in im[3].items()}
            except ValueError:
                return "scalar-range-not-numeric"
            return None if got == want else "scalar-range"
        mdl = simple.get(t)
        if mdl is None or mdl[0] != "list":
            return "vector-type-missing"
        if mdl[1] != base[a.type]:
            return "vector-item-type"
        return None if (mdl[2], mdl[3]) == (lo, hi) else "vector-length"
    return "unknown-schema-type"


# ------------------------------------------------------------------------------------------------- grammar table

def _c_strip(text):
    return re.sub(r"//[^\n]*", "", text)


def parse_table(text):
    text = _c_strip(text)
    m = re.search(r"MJCF\[\]\s*=\s*\{(.*?)\n\};", text, re.S)
    c = re.search(r"MJCF_constraints\[\]\s*=\s*\{(.*?)\n\};", text, re.S)
    if not m or not c:
        return None, None
    rows = [re.findall(r'"((?:[^"\\]|\\.)*)"', r) for r in re.findall(r"\{([^{}]*)\}", m.group(1))]
    cons = [(int(i), k, s) for i, k, s in re.findall(r"\{\s*(\d+)\s*,\s*'(.)'\s*,\s*\"([^\"]*)\"\s*\}", c.group(1))]
    return rows, cons


def table_tree(S, el, card, proj, depth=0):
    if depth > 64:
        raise RecursionError("non-self child cycle")
    attrs = expanded(S, el)
    if proj:
        attrs = project(attrs)
    kids = [c for c in children_of(el) if c.name != el.name and "alias" not in S.elements[c.name].facets]
    if proj:
        kids = [c for c in kids if c.name != "plugin"]
    return {"el": el, "tag": xml_name(el), "card": card, "attrs": [a.name for a in attrs],
            "kids": [table_tree(S, S.elements[c.name], c.card,
                                proj or (el.name == "default" and not c.name.startswith("default_")), depth + 1)
                     for c in kids]}


def flatten(node, out):
    out.append(("row", node))
    if node["kids"]:
        out.append(("<", None))
        for k in node["kids"]:
            flatten(k, out)
        out.append((">", None))
    return out


def check_table(S, text, V):
    rows, cons = parse_table(text)
    if rows is None:
        return V("table:unparseable", text[:200])
    want = flatten(table_tree(S, S.elements["mujoco"], "!", False), [])
    if len(rows) != len(want):
        V("table:row-count-differs", "got %d want %d" % (len(rows), len(want)))
    by_index = {}
    for i, (r, (kind, node)) in enumerate(zip(rows, want)):
        if kind != "row":
            if r != [kind]:
                V("table:nesting-marker-differs", "row %d: %r want %r" % (i, r, kind))
                return
            continue
        exp = [node["tag"], node["card"]] + node["attrs"]
        if r[:2] != exp[:2]:
            V("table:element-or-cardinality-differs", "row %d: %r want %r" % (i, r[:2], exp[:2]))
            return
        if r != exp:
            miss = [a for a in exp[2:] if a not in r[2:]]
            extra = [a for a in r[2:] if a not in exp[2:]]
            V("table:attributes-differ:" + ("missing" if miss else "extra" if extra else "order"),
              "row %d %s: missing=%r extra=%r" % (i, node["tag"], miss[:5], extra[:5]))
        by_index[i] = node
    kinds = {"e": "exclusive", "t": "together", "r": "requires", "o": "oneof"}
    got = {}
    for i, k, spec in cons:
        if i not in by_index:
            V("table:constraint-index-not-an-element-row", "%d" % i)
            continue
        got.setdefault(i, []).append((kinds.get(k, k), tuple(tuple(b.split()) for b in spec.split("|"))))
    for i, node in by_index.items():
        exp = [(c.kind, tuple(tuple(b) for b in c.bundles)) for c in all_constraints(S, node["el"])
               if all(n in node["attrs"] for b in c.bundles for n in b)]
        if sorted(got.get(i, [])) != sorted(exp):
            V("table:constraints-differ", "row %d %s: got %r want %r" % (i, node["tag"], got.get(i), exp))


# ------------------------------------------------------------------------------------------------- keyword maps

def check_map(S, text, V):
    text = _c_strip(text)
    maps = {m.group(1): re.findall(r'\{\s*"([^"]*)"\s*,\s*([^{}]+?)\s*\}', m.group(2))
            for m in re.finditer(r"inline constexpr mjMap (\w+)_map\[\]\s*=\s*\{(.*?)\n\};", text, re.S)}
    sizes = {m.group(1): int(m.group(2)) for m in re.finditer(r"inline constexpr int (\w+)_sz\s*=\s*(\d+);", text)}
    if maps.pop("bool", None) != [("false", "0"), ("true", "1")]:
        V("map:bool_map-wrong", "")
    if list(maps) != list(S.enums):
        V("map:enum-set-or-order-differs", "got %r want %r" % (list(maps)[:8], list(S.enums)[:8]))
    for e in S.enums.values():
        got = maps.get(e.name)
        if got is None:
            continue
        if [tuple(x) for x in got] != [(k, v) for k, v in e.items]:
            V("map:keyword-constant-pairs-differ", "%s: %r vs %r" % (e.name, got[:6], e.items[:6]))
        if sizes.get(e.name) != len(e.items):
            V("map:size-differs", "%s: %r vs %d" % (e.name, sizes.get(e.name), len(e.items)))
    if set(sizes) != set(S.enums):
        V("map:size-constant-set-differs", "")


# ------------------------------------------------------------------------------------------------- read table

def header_fields():
    """Independent light scan of mjspec.h / mjmodel.h: struct -> {field: (is_pointer, dim)} incl. 'Outer.sub'."""
    out = {}
    for h in ("mjspec.h", "mjmodel.h"):
        text = (build.REPO / "include" / "mujoco" / h).read_text(encoding="utf-8")
        text = re.sub(r"//[^\n]*", "", text)
        for m in re.finditer(r"typedef struct (mj\w+)_ \{(.*?)\n\} \1;", text, re.S):
            name, body = m.group(1), m.group(2)

            def fields(b):
                d = {}
                for stmt in b.split(";"):
                    fm = re.match(r"\s*([\w<>]+)\s*(\*?)\s*(\w+)\s*(?:\[([^\]]+)\])?\s*$", stmt, re.S)
                    if fm:
                        d[fm.group(3)] = (fm.group(1), bool(fm.group(2)), fm.group(4))
                return d
            for sm in re.finditer(r"struct \{(.*?)\} (\w+);", body, re.S):
                out["%s.%s" % (name, sm.group(2))] = fields(sm.group(1))
            out[name] = fields(re.sub(r"struct \{.*?\} \w+;", "", body, flags=re.S))
    return out


KIND_FAMILY = {"enum": ("kEnum", "kEnumByte"), "flags": ("kFlags",), "bool": ("kBool", "kEnum"),
               "string": ("kString", "kStringVec"), "ref": ("kString", "kStringVec"), "id": ("kString", "kStringVec", "kName"),
               "chars": ("kChars",), "int": ("kInt", "kIntVec"), "double": ("kDouble", "kNum", "kDoubleVec"),
               "float": ("kFloat", "kDouble", "kNum", "kFloatVec", "kDoubleVec")}


def parse_read_table(text):
    text = _c_strip(text)
    arrays = {}
    for m in re.finditer(r"inline constexpr mjXAttr (\w+)\[\]\s*=\s*\{(.*?)\n\};", text, re.S):
        rows = []
        for r in re.findall(r"\{((?:[^{}]|\([^()]*\))*)\}", m.group(2)):
            parts, depth, cur = [], 0, ""
            for ch in r:
                if ch == "(":
                    depth += 1
                elif ch == ")":
                    depth -= 1
                if ch == "," and depth == 0:
                    parts.append(cur.strip())
                    cur = ""
                else:
                    cur += ch
            parts.append(cur.strip())
            rows.append(parts)
        arrays[m.group(1)] = rows
    dm = re.search(r"kSensorDispatch\[\]\s*=\s*\{(.*?)\n\};", text, re.S)
    dispatch = re.findall(r'\{\s*"([^"]*)"\s*,\s*(\w+)\s*,\s*(\w+)\s*\}', dm.group(1)) if dm else None
    return arrays, dispatch


def _expected_read_rows(S, attrs, consts, sub):
    rows = [("const", c) for c in consts]
    for a in attrs:
        if "reading" in a.facets:
            continue
        if a.type == "id" and a.name == "name":
            rows.append(("name", a))
        elif (a.type == "ref" and a.target == "default") or a.type == "file":
            continue
        else:
            rows.append(("attr", a))
    return rows


def check_read_table(S, text, V):
    G = mods()["read_table"]
    arrays, dispatch = parse_read_table(text)
    if dispatch is None:
        return V("read:unparseable", text[:200])
    want_arrays = {}
    for name, el in S.elements.items():
        if not el.spec or name in G.NOT_TABLE_DRIVEN:
            continue
        attrs = expanded(S, el)
        if not any("reading" not in a.facets for a in attrs):
            continue
        hand = set()
        for g in G.HAND_GROUPS:
            if any(cls(m) == "Use" and m.group == g for m in el.members):
                hand |= {m.name for m in S.groups[g].members if hasattr(m, "name")}
        attrs = [a for a in attrs if a.name not in hand]
        want_arrays["k%sAttrs" % name.capitalize()] = (el, el.spec, _expected_read_rows(
            S, attrs, [m for m in el.members if cls(m) == "Const"], el.facets.get("field")))
    for g, (struct, arr) in G.EMIT_GROUPS.items():
        if g in S.groups:
            want_arrays[arr] = (None, struct, _expected_read_rows(S, [m for m in S.groups[g].members if cls(m) == "Attr"], [], None))
    if list(arrays) != list(want_arrays):
        V("read:array-set-differs", "missing=%r extra=%r" % (sorted(set(want_arrays) - set(arrays))[:5],
                                                             sorted(set(arrays) - set(want_arrays))[:5]))
    for arr, (el, spec, want) in want_arrays.items():
        got = arrays.get(arr)
        if got is None:
            continue
        gnames = [r[0] for r in got]
        wnames = ["nullptr" if k == "const" else '"%s"' % x.name for k, x in want]
        if gnames != wnames:
            V("read:row-list-differs", "%s: got %r want %r" % (arr, gnames[:30], wnames[:30]))
            continue
        prefix = (el.facets.get("field") + ".") if el is not None and el.facets.get("field") else ""
        for r, (k, x) in zip(got, want):
            where = "%s.%s" % (arr, r[0])
            if k == "const":
                if r[1] != "mjXAttr::kConst" or r[-1] != x.value or not r[7].endswith(", %s%s)" % (prefix, x.field)):
                    V("read:const-row-differs", "%s: %r" % (where, r))
                continue
            a = x
            flags = ("true" if a.facets.get("required") else "false", "true" if a.facets.get("nodefault") else "false",
                     "true" if a.facets.get("writing") else "false")
            if k == "name":
                if r[1] != "mjXAttr::kName" or r[4] != flags[0] or r[5] != "true" or r[7] != "-1":
                    V("read:name-row-differs", "%s: %r" % (where, r))
                continue
            if tuple(r[4:7]) != flags:
                V("read:required-nodefault-handwrite-flags-differ", "%s: %r want %r" % (where, r[4:7], flags))
            kind = r[1].replace("mjXAttr::", "")
            if kind not in KIND_FAMILY.get(a.type, ()):
                V("read:row-kind-vs-schema-type", "%s: %s for %s" % (where, kind, a.type))
            field = a.facets.get("field", a.name)
            if r[7] != "(int)offsetof(%s, %s%s)" % (spec, prefix, field):
                V("read:offset-field-differs", "%s: %s want field %s" % (where, r[7], field))
            lo, hi = a.arity.lo, a.arity.hi
            if a.type in ("int", "double", "float", "chars") and hi is not None:
                if r[2] != str(hi) and G.DIM_EQUIV.get(r[2]) != str(hi):
                    V("read:length-differs", "%s: %s want %s" % (where, r[2], hi))
                if r[3] != ("true" if lo == hi else "false"):
                    V("read:exact-flag-differs", "%s: %s (arity %s..%s)" % (where, r[3], lo, hi))
            elif (r[2], r[3]) != ("1", "true"):
                V("read:length-differs", "%s: %s/%s want 1/true" % (where, r[2], r[3]))
            if a.type in ("enum", "flags"):
                if r[8:] != ["%s_map" % a.target, "%s_sz" % a.target]:
                    V("read:keyword-map-differs", "%s: %r want %s_map" % (where, r[8:], a.target))
            elif a.type == "bool" and kind == "kEnum":
                if r[8:] != ["bool_map", "2"]:
                    V("read:keyword-map-differs", "%s: %r" % (where, r[8:]))
            elif len(r) != 8:
                V("read:row-shape-differs", "%s: %r" % (where, r))
    want_disp = [(xml_name(S.elements[n]), "k%sAttrs" % n.capitalize(), "k%sAttrsN" % n.capitalize())
                 for n in G.SENSOR_DISPATCH]
    if [tuple(x) for x in dispatch] != want_disp:
        V("read:sensor-dispatch-differs", "")


# ------------------------------------------------------------------------------------------------- default table

def check_default_table(S, text, V):
    H = header_fields()
    G = mods()["default_table"]
    text = _c_strip(text)
    tables = {}
    for m in re.finditer(r"static const mjXDefaultEntry kDefaults_(\w+)\[\]\s*=\s*\{(.*?)\n\};", text, re.S):
        rows = re.findall(r'\{\s*"([^"]*)",\s*\(int\)offsetof\((\w+),\s*([\w.]+)\),\s*(\d+),\s*([^,]+),\s*(\d+),\s*(\d+),'
                          r'\s*\{([^{}]*)\}\s*\}', m.group(2))
        tables[m.group(1)] = rows
        if len(rows) != m.group(2).count("offsetof"):
            V("default:unparseable-row", m.group(1))
    index = re.findall(r'\{\s*"(\w+)",\s*kDefaults_(\w+),', text)
    want, order = {}, []
    for el in S.elements.values():
        if not el.spec:
            continue
        sub = el.facets.get("field")
        key = "%s.%s" % (el.spec, sub) if sub else el.spec
        fields = H.get(key)
        if fields is None:
            continue
        for a in expanded(S, el):
            if a.type in ("string", "file", "chars", "ref", "id", "flags"):
                continue
            field = a.facets.get("field", a.name)
            fe = fields.get(field)
            if fe is None or fe[1]:
                continue                     # unbound (custom lowering) or vector pointer: no in-place default
            ctype = fe[0]
            if ctype not in G.KIND_BY_CTYPE and not ctype.startswith("mjt"):
                continue
            k = (key, field)
            if k not in want:
                want[k] = a
                order.append(k)
            elif want[k].default is None and a.default is not None:
                want[k] = a
    got = {}
    for tkey, rows in tables.items():
        for r in rows:
            got.setdefault((tkey, r[2].split(".")[-1]), []).append(r)
    for (key, field), a in want.items():
        rs = got.pop((key.replace(".", "_"), field), None)
        where = "%s.%s(%s)" % (key, field, a.name)
        if not rs:
            V("default:row-missing", where)
            continue
        if len(rs) > 1:
            V("default:duplicate-row", where)
        r = rs[0]
        dim = H[key][field][2]
        if r[4].strip() != (dim if dim is not None else "1"):
            V("default:length-differs", "%s: %s vs %s" % (where, r[4], dim))
        vals = [v.strip() for v in r[7].split(",")]
        if a.default is None:
            if int(r[5]) != 0 or vals != ["0"]:
                V("default:undeclared-row-carries-values", "%s: %r" % (where, r))
            continue
        if a.type == "enum":
            const = dict((k, v) for k, v in S.enums[a.target].items)[a.default]
            ok = int(r[5]) == 1 and vals == ["(double)%s" % const]
        elif a.type == "bool":
            ok = int(r[5]) == 1 and vals == ["1" if a.default == "true" else "0"]
        else:
            d = a.default if isinstance(a.default, tuple) else (a.default,)
            try:
                ok = int(r[5]) == len(d) and [float(v) for v in vals] == [float(v) for v in d]
            except ValueError:
                ok = False
        if not ok:
            V("default:declared-values-differ", "%s: ndecl=%s values=%r want %r" % (where, r[5], vals, a.default))
        if r[0] != a.name:
            V("default:attr-name-differs", "%s: %s" % (where, r[0]))
    if got:
        V("default:row-for-nothing-in-schema", repr(sorted(got)[:5]))
    keys = sorted({k.replace(".", "_") for k, _ in want})
    if [t for _, t in index] != keys or sorted(tables) != keys:
        V("default:table-index-differs", "%r vs %r" % ([t for _, t in index][:6], keys[:6]))


# ------------------------------------------------------------------------------------------------- dm_control

def check_dmcontrol(S, text, V):
    G = mods()["dmcontrol"]
    D = dims()
    try:
        root = ET.fromstring(text.encode("utf-8"))
    except ET.ParseError as e:
        return V("dmcontrol:not-well-formed-xml", str(e))
    stats = {"n": 0}

    def walk(node, el, proj, parent, depth):
        if depth > 40:
            return
        stats["n"] += 1
        attrs = expanded(S, el)
        if proj:
            attrs = project(attrs)
        holder = node.find("attributes")
        got = list(holder) if holder is not None else []
        where = "%s/%s" % (parent, node.get("name"))
        if [g.get("name") for g in got] != [a.name for a in attrs]:
            V("dmcontrol:attribute-list-differs", "%s: got %r want %r" % (where, [g.get("name") for g in got][:30],
                                                                          [a.name for a in attrs][:30]))
        else:
            names = {a.name for a in attrs}
            for a, g in zip(attrs, got):
                w = "%s.%s" % (where, a.name)
                if (g.get("required") == "true") != bool(a.facets.get("required")):
                    V("dmcontrol:required-differs", w)
                if not default_matches(a, g.get("default")):
                    V("dmcontrol:default-differs", "%s: %r vs %r" % (w, g.get("default"), a.default))
                t = g.get("type")
                overlay = ((a.name == "objname" and "objtype" in names) or (a.name == "refname" and "reftype" in names)
                           or (el.name, a.name) in G.IDENTIFIER_OVERRIDES or (el.name == "mujoco" and a.name == "model")
                           or (a.name in G.BASEPATHS and el.name == "compiler"))
                if overlay:
                    continue
                lo, hi = a.arity.lo, resolve(a.arity.hi, D)
                if a.type == "enum":
                    ok = t == "keyword" and g.get("valid_values") == " ".join(k for k, _ in S.enums[a.target].items)
                elif a.type == "bool":
                    ok = t == "keyword" and g.get("valid_values") == "false true"
                elif a.type == "file":
                    ok = t == "file"
                elif a.type == "id":
                    ok = t == "identifier"
                elif a.type == "ref":
                    ok = t == "reference" and g.get("reference_namespace") == G.REF_NS_MAP.get(a.target, a.target)
                elif a.type in ("string", "chars", "flags"):
                    ok = t == "string"
                else:
                    base = "int" if a.type == "int" else "float"
                    if (lo, hi) == (1, 1):
                        ok = t == base
                    else:
                        ok = (t == "array" and g.get("array_type") == base and
                              g.get("array_size") == (str(hi) if hi is not None else None))
                if not ok:
                    V("dmcontrol:type-or-arity-differs", "%s: %r for %s[%s..%s]" % (w, dict(g.attrib), a.type, lo, hi))
        # children
        want = []
        top_default = el.name == "default" and parent == "mujoco"
        for c in children_of(el):
            if c.name == el.name:
                if top_default:
                    want.append((el, node.get("name"), proj))
                continue
            target = S.elements[c.name]
            tag = xml_name(target)
            if el.name == "mujoco" and c.name == "body":
                target, tag = S.elements["worldbody"], "worldbody"
            if target.name in G.EXCLUDED_ELEMENTS or (el.name, target.name) in G.EXCLUDED_CHILDREN:
                continue
            if proj and c.name == "plugin":
                continue
            want.append((target, tag, proj or (el.name == "default" and not c.name.startswith("default_")
                                               and c.name != "default")))
        ch = node.find("children")
        gk = list(ch) if ch is not None else []
        if [k.get("name") for k in gk] != [t for _, t, _ in want]:
            V("dmcontrol:children-differ", "%s: got %r want %r" % (where, [k.get("name") for k in gk][:20],
                                                                   [t for _, t, _ in want][:20]))
            return
        self_rec = any(c.name == el.name for c in children_of(el))
        if (node.get("recursive") == "true") != (self_rec and not top_default):
            V("dmcontrol:recursive-flag-differs", where)
        for k, (target, tag, p) in zip(gk, want):
            if target is el and top_default:
                walk(k, target, p, el.name, depth + 1)          # nested recursive copy of the default subtree
            else:
                walk(k, target, p, el.name, depth + 1)

    walk(root, S.elements["mujoco"], False, None, 0)
    return stats["n"]


# ------------------------------------------------------------------------------------------------- XMLschema.rst

def rst_expectation(S, order):
    """[(level, display, link, attrs)] expected from S for the fixed top-level section order, plus link targets."""
    tree = table_tree(S, S.elements["mujoco"], "!", False)
    out = []

    def sub(node, level, parent_tag):
        link = node["tag"] if level <= 1 else "%s-%s" % (parent_tag, node["tag"])
        out.append((level, node["tag"], link, node["card"], list(node["attrs"])))
        if level < 4:
            for k in node["kids"]:
                sub(k, level + 1, node["tag"])
        else:
            for k in node["kids"]:
                sub(k, level + 1, node["tag"])
    for top in order:
        if top == "mujoco":
            out.append((0, "mujoco", "mujoco", "!", list(tree["attrs"])))
            continue
        hits = [k for k in tree["kids"] if k["tag"] == top]
        if hits:
            sub(hits[0], 1, "mujoco")
    links = set()
    for level, tag, link, card, attrs in out:
        links.add(link)
        links.update("%s-%s" % (link, a) for a in attrs)
    return out, sorted(links)


def check_rst(S, text, V):
    G = mods()["schema_rst"]
    want, _ = rst_expectation(S, G.ELEMENT_ORDER)
    got, cur = [], None
    for line in text.split("\n"):
        m = re.match(r"^( *)\.\. dropdown:: :ref:`([^<`]+)<([^>`]+)>`(.*)$", line)
        if m:
            cur = [len(m.group(1)) // 3, m.group(2), m.group(3), m.group(4).strip(), []]
            got.append(cur)
            continue
        m = re.match(r"^ +:ref:`([^<`]+)<([^>`]+)>`\s*$", line)
        if m and cur is not None:
            cur[4].append((m.group(1), m.group(2)))
    icon = {"!": ":octicon:`star`", "?": ":octicon:`dot`", "*": "|*|", "R": ":octicon:`sync`"}
    if len(got) != len(want):
        V("rst:element-count-differs", "got %d want %d" % (len(got), len(want)))
    for g, w in zip(got, want):
        level, tag, link, card, attrs = w
        disp = G.ELEMENT_DISPLAY_NAME.get(tag, tag)
        if (g[0], g[1], g[2]) != (level, disp, link):
            V("rst:element-or-link-differs", "got %r want %r" % (g[:3], (level, disp, link)))
            return
        if g[3] != icon[card]:
            V("rst:cardinality-icon-differs", "%s: %r for %s" % (link, g[3], card))
        if g[4] != [(a, "%s-%s" % (link, a)) for a in attrs]:
            V("rst:attributes-differ", "%s: got %r want %r" % (link, [x[0] for x in g[4]][:30], attrs[:30]))


CHECKERS = {"xsd": check_xsd, "mjcf_table": check_table, "mjcf_map": check_map, "read_table": check_read_table,
            "default_table": check_default_table, "dmcontrol": check_dmcontrol, "schema_rst": check_rst}


# ------------------------------------------------------------------------------------------------- perturbations

_MEMBER_START = re.compile(r"^\s*(\w+\s*:|use\s|child\s|set\s|exclusive\s|together\s|requires\s|oneof\s|\}|#|$)")
SPECIAL_NAMES = {"name", "class", "objname", "objtype", "refname", "reftype", "model", "prefix", "meshdir", "texturedir",
                 "assetdir", "file"}


def _single_line(lines, a):
    i = a.line - 1
    if not re.match(r"^\s*%s\s*:" % re.escape(a.name), lines[i]):
        return False
    return i + 1 < len(lines) and bool(_MEMBER_START.match(lines[i + 1]))


def _split_comment(line):
    """code, comment (a '#' inside a string literal does not start a comment)."""
    inq = False
    for i, ch in enumerate(line):
        if ch == '"':
            inq = not inq
        elif ch == "#" and not inq:
            return line[:i].rstrip(), "   " + line[i:]
    return line.rstrip(), ""


def _add_facet(code, facet):
    m = re.search(r"\(([^()]*)\)\s*$", code)
    if m and not re.search(r"<[^>]*$", code[:m.start()]):
        return code[:m.end(1)] + ", " + facet + code[m.end(1):]
    return code + " (" + facet + ")"


_SHARED = {}


def _first_of_shared_fields(S):
    """Lines of attribute declarations that are the first of >= 2 distinct declarations bound to one struct field."""
    if id(S) in _SHARED:
        return _SHARED[id(S)]
    occ = {}
    for el in S.elements.values():
        if not el.spec:
            continue
        key = (el.spec, el.facets.get("field"))
        for a in expanded(S, el):
            if a.type in ("double", "float", "int", "enum", "bool"):
                lst = occ.setdefault((key, a.facets.get("field", a.name)), [])
                if a.line not in [x.line for x in lst]:
                    lst.append(a)
    out = {v[0].line for v in occ.values() if len(v) > 1 and v[0].default is not None and
           any(x.default is not None for x in v[1:])}
    _SHARED[id(S)] = out
    return out


def perturb(S, text, rng, nmax=4):
    """Validity-preserving perturbations of a schema text, guided by its parsed form S. -> (new text, kinds)."""
    lines = text.split("\n")
    kinds = []
    containers = list(S.groups.values()) + list(S.elements.values())
    constrained = {n for c in containers for m in c.members if cls(m) == "Constraint" for b in m.bundles for n in b}
    sites = [(c, a) for c in containers for a in c.members if cls(a) == "Attr" and _single_line(lines, a)]
    used_defaults = {(a.target, a.default) for c in containers for a in c.members if cls(a) == "Attr" and a.type == "enum"}
    touched = set()
    inserts = []       # (line index after which to insert, text) applied at the end, bottom-up
    appended = []

    def free(a):
        return a.line not in touched and a.name not in constrained and a.name not in SPECIAL_NAMES

    for _ in range(int(rng.integers(1, nmax + 1))):
        k = str(rng.choice(["remove", "rename", "default", "required", "arity", "enum-add", "enum-const", "enum-rename",
                            "add-attr", "swap", "add-group", "add-element", "vec-default", "drop-default",
                            "drop-default"]))
        c, a = sites[int(rng.integers(len(sites)))]
        if k == "drop-default" and rng.random() < 0.5:
            # targeted: the first of several declarations bound to one struct field loses its default, so that the
            # documented "a declared row replaces an undeclared row" rule of the default table is exercised
            firsts = _first_of_shared_fields(S)
            cand = [(c2, b) for (c2, b) in sites if b.line in firsts]
            if cand:
                c, a = cand[int(rng.integers(len(cand)))]
        i = a.line - 1
        code, com = _split_comment(lines[i])
        if k == "remove" and free(a) and a.type != "id" and len([m for m in c.members if cls(m) == "Attr"]) > 1:
            lines[i] = ""
        elif k == "rename" and free(a) and a.type != "id":
            new = "zz_" + a.name
            code = re.sub(r"^(\s*)%s(\s*:)" % re.escape(a.name), r"\g<1>%s\g<2>" % new, code)
            if "field" not in a.facets:
                code = _add_facet(code, "field=%s" % a.name)
            lines[i] = code + com
        elif k == "default" and a.line not in touched and a.type in ("double", "float", "int") and \
                isinstance(a.default, float) and a.arity.lo == 1 and a.arity.hi == 1:
            new = R._fmt_num(None, float(int(rng.integers(0, 50))) if a.type == "int" else float(rng.integers(1, 999)) / 8)
            code2 = re.sub(r"=\s*-?[0-9.eE+-]+", "= " + new, code, count=1)
            if code2 == code:
                continue
            lines[i] = code2 + com
        elif k == "drop-default" and a.line not in touched and a.default is not None:
            if isinstance(a.default, tuple):
                code2 = re.sub(r"\s*=\s*\{[^{}]*\}", "", code, count=1)
            else:
                code2 = re.sub(r'\s*=\s*("[^"]*"|[^\s()]+)', "", code, count=1)
            if code2 == code:
                continue
            lines[i] = code2 + com
        elif k == "vec-default" and a.line not in touched and a.type in ("double", "float") and isinstance(a.default, tuple):
            vals = ", ".join(R._fmt_num(None, float(rng.integers(-40, 40)) / 4) for _ in a.default)
            code2 = re.sub(r"=\s*\{[^{}]*\}", "= {%s}" % vals, code, count=1)
            if code2 == code:
                continue
            lines[i] = code2 + com
        elif k == "required" and free(a) and a.default is None and "required" not in a.facets and \
                not (cls(c) == "Group" and c.variant):
            lines[i] = _add_facet(code, "required") + com
        elif k == "arity" and a.line not in touched and a.type in ("double", "float", "int") and \
                isinstance(a.arity.hi, int) and a.arity.lo == a.arity.hi and a.arity.hi > 1 and \
                not any(f in a.facets for f in ("min", "max", "positive")):
            lo = int(rng.integers(0, a.arity.hi))
            if isinstance(a.default, tuple) and len(a.default) < lo:
                continue
            code2 = code.replace("[%d]" % a.arity.hi, "[%d..%d]" % (lo, a.arity.hi), 1)
            if code2 == code:
                continue
            lines[i] = code2 + com
        elif k in ("enum-add", "enum-const", "enum-rename") and S.enums:
            e = list(S.enums.values())[int(rng.integers(len(S.enums)))]
            j = e.line + int(rng.integers(len(e.items)))          # items follow the head line, one per line
            if j in touched or j - 1 >= len(lines):
                continue
            m = re.match(r'^(\s*)("?[^"=\s]+"?)(\s*=\s*)(\S+)(.*)$', lines[j - 1])
            if not m:
                continue
            if k == "enum-add":
                inserts.append((j, "%szz_kw%d = %d" % (m.group(1), len(inserts), int(rng.integers(50, 99)))))
            elif k == "enum-const":
                lines[j - 1] = m.group(1) + m.group(2) + m.group(3) + ("mjZZ_%d" % int(rng.integers(99))) + m.group(5)
            else:
                key = m.group(2).strip('"')
                if (e.name, key) in used_defaults or e.name in ("bool",):
                    continue
                lines[j - 1] = m.group(1) + '"zz %s"' % key + m.group(3) + m.group(4) + m.group(5)
            touched.add(j)
            kinds.append(k)
            continue
        elif k == "add-attr":
            typ = str(rng.choice(["double[3] = {1, 2.5, -3}", "int = 7", "string", "bool = true", "float[0..4]",
                                  "double[]", "chars[4]", "int[2] = {1, 2}", "file", "double = 0.125 (min=0)"]))
            facet = "reading=custom"
            inserts.append((a.line, _add_facet("  zz_new%d : %s" % (len(inserts), typ), facet) + "   # added"))
        elif k == "swap" and a.line not in touched:
            others = [b for (c2, b) in sites if c2 is c and abs(b.line - a.line) == 1 and b.line not in touched]
            if not others:
                continue
            b = others[0]
            lines[a.line - 1], lines[b.line - 1] = lines[b.line - 1], lines[a.line - 1]
            touched.add(b.line)
        elif k == "add-group":
            n = len(appended)
            appended.append("enum zz_enum%d {\n  zza = 0\n  \"zz b\" = mjZZ_B\n}\n\ngroup zz_group%d {\n"
                            "  zz_g%d_mode : enum<zz_enum%d> = zza (reading=custom)\n"
                            "  zz_g%d_vec : double[2] = {0.5, 2} (reading=custom)\n}\n" % (n, n, n, n, n))
            if cls(c) == "Element":
                inserts.append((a.line, "  use zz_group%d" % n))
        elif k == "add-element" and cls(c) == "Element" and c.name not in ("default",):
            n = len(appended)
            appended.append("element zz_elem%d {\n  zz_a : int = 3\n  zz_b : double[0..2] (required)\n  zz_c : string = \"x y\"\n}\n" % n)
            last = max(m.line for m in c.members)
            inserts.append((last, "  child zz_elem%d %s" % (n, str(rng.choice(["*", "?"])))))
        else:
            continue
        touched.add(a.line)
        kinds.append(k)
    for after, ins in sorted(inserts, key=lambda x: -x[0]):
        lines.insert(after, ins)
    return "\n".join(lines) + "\n" + "\n".join(appended), kinds


def synthetic(rng):
    # tree-shaped children only (generators document self-recursion via R and alias elements, nothing else)
    m = R.gen_model(rng, max_decls=int(rng.integers(3, 30)), tree=True)
    els = [d for d in m["decls"] if d["k"] == "element"]
    names = [e["name"] for e in els]
    ren = {}
    nonroot = [n for n in names if n != "mujoco"]
    if len(nonroot) >= 3 and rng.random() < 0.7:
        picks = list(rng.permutation(len(nonroot))[:3])
        ren[nonroot[picks[0]]] = "default"
        ren[nonroot[picks[1]]] = "plugin"
        ren[nonroot[picks[2]]] = "default_zz"
    for d in m["decls"]:
        if d["k"] != "element":
            continue
        d["name"] = ren.get(d["name"], d["name"])
        d["facets"] = [[k, ren.get(v, v) if k == "alias" else v] for k, v in d["facets"]]
        for x in d["members"]:
            if x["m"] == "child":
                x["name"] = ren.get(x["name"], x["name"])
            if x["m"] == "attr" and x["arity"] is not None:       # XSD emitter refuses numeric facets on vectors
                lo, hi = R.arity_bounds(x["arity"])
                if (lo, hi) != (1, 1):
                    x["facets"] = [f for f in x["facets"] if f[0] not in ("min", "max", "positive")]
    for d in m["decls"]:
        if d["k"] == "group":
            for x in d["members"]:
                if x["m"] == "attr" and x["arity"] is not None and R.arity_bounds(x["arity"]) != (1, 1):
                    x["facets"] = [f for f in x["facets"] if f[0] not in ("min", "max", "positive")]
    text, _ = R.render(m, rng)
    return text


# ------------------------------------------------------------------------------------------------- worker

def _evaluate(P, text, which, family, kinds, wd):
    M = mods()
    try:
        S = M["mjcf_schema"].parse_string(text)
    except M["mjcf_schema"].SchemaError as e:
        P.count("schema_invalid_discarded")
        P.count("schema_invalid:" + "+".join(sorted(set(kinds)))[:60])
        return None
    links = ()
    if "schema_rst" in which:
        try:
            _, links = rst_expectation(S, M["schema_rst"].ELEMENT_ORDER)
        except RecursionError:
            links = ()
    outs = run_generators(text, which, wd, links)
    detail = {"schema": text, "family": family, "perturbations": kinds, "which": list(which)}
    for g in which:
        o = outs[g]
        key = "%s/%s/%s" % (g, family, "+".join(sorted(set(kinds))) or "-")
        if isinstance(o, dict):
            if o["error"] == "Skipped":
                continue
            if o["error"] in ("ValueError", "AssertionError") and (any(s in o["message"] for s in DOCUMENTED_REFUSALS)
                                                                   or "unexpected cycle" in o["message"]):
                P.count("skipped_documented_refusal:" + g)
                continue
            if g in OUT_OF_SCOPE:
                P.count("out_of_scope:%s:generator-raised:%s" % (g, o["error"]))
                continue
            P.violation("%s:generator-raised:%s" % (g, o["error"]), dict(detail, generator=g, message=o["message"]))
            P.case(key)
            continue
        nviol = [0]

        def V(sig, info, g=g):
            nviol[0] += 1
            if g in OUT_OF_SCOPE:
                P.count("out_of_scope:%s:%s" % (g, sig.split(":", 1)[-1]))
                return
            if nviol[0] <= 3:
                P.violation(sig, dict(detail, generator=g, info=str(info)[:1500]))
        try:
            CHECKERS[g](S, o, V)
        except RecursionError:
            P.count("skipped_oracle_recursion")
        P.count("outputs_checked:" + g)
        if g in OUT_OF_SCOPE:
            continue
        P.case(key, nontrivial=len(o) > 0, sample={"generator": g, "family": family, "perturbations": kinds,
                                                   "output_bytes": len(o)} if family != "real" else None)
    return outs


def worker(case):
    if case["family"] == "doctest":
        return doc_test_worker(case)
    P = core.Part()
    M = mods()
    root = tmp_root()
    rng = np.random.Generator(np.random.PCG64(core.stable_hash("C42", case["seed"], case["family"], case["chunk"])))
    real = (build.REPO / "src" / "xml" / "mjcf.schema").read_text(encoding="utf-8")
    items = []
    S0 = M["mjcf_schema"].parse_string(real) if case["family"] == "perturbed" else None
    try:
        for i in range(case["n"]):
            wd = root / ("c%d-%d" % (case["chunk"], i))
            wd.mkdir(exist_ok=True)
            if case["family"] == "real":
                text, kinds, which = real, [], GENERATORS
            elif case["family"] == "perturbed":
                text, kinds = perturb(S0, real, rng)
                which = GENERATORS
                for k in kinds:
                    P.count("perturbation:" + k)
                if not kinds:
                    P.count("perturbation_noop")
                    continue
            elif case["family"] == "replay":
                text, kinds, which = case["schema"], case.get("perturbations", []), tuple(case["which"])
            else:
                text, kinds, which = synthetic(rng), [], LIGHT
            outs = _evaluate(P, text, which, case["family"], kinds, wd)
            if outs is None:
                continue
            try:
                links = rst_expectation(M["mjcf_schema"].parse_string(text), M["schema_rst"].ELEMENT_ORDER)[1] \
                    if "schema_rst" in which else []
            except RecursionError:
                links = []
            items.append({"text": text, "which": list(which), "links": links, "kinds": kinds,
                          "hash": {g: (hashlib.sha256(v.encode()).hexdigest() if isinstance(v, str) else "ERR:" + v["error"])
                                   for g, v in outs.items()}})
        # determinism across PYTHONHASHSEED values, separate processes
        if items:
            job = root / ("job-%d.json" % case["chunk"])
            job.write_text(json.dumps({"dir": str(root), "items": [{k: it[k] for k in ("text", "which", "links")}
                                                                  for it in items]}))
            for hs in case.get("hashseeds", ("1", "4242")):
                env = par.child_env({"PYTHONHASHSEED": str(hs)})
                env["PYTHONHASHSEED"] = str(hs)
                try:
                    r = subprocess.run([sys.executable, "-m", "vf.props.c42", "--hash", str(job)], env=env,
                                       cwd=str(core.VERIF), capture_output=True, text=True, timeout=600)
                except subprocess.TimeoutExpired:
                    P.count("determinism_subprocess_timeout")
                    continue
                m = re.search(r"^@@HASHES (.*)$", r.stdout, re.M)
                if not m:
                    P.count("determinism_subprocess_failed")
                    P.violation("determinism-subprocess-crashed", {"stderr": r.stderr[-1500:], "hashseed": hs})
                    continue
                for it, h in zip(items, json.loads(m.group(1))):
                    for g in it["which"]:
                        P.count("determinism_comparisons")
                        if h.get(g) != it["hash"].get(g) and g in OUT_OF_SCOPE:
                            P.count("out_of_scope:%s:output-depends-on-PYTHONHASHSEED" % g)
                        elif h.get(g) != it["hash"].get(g):
                            P.violation("%s:output-depends-on-PYTHONHASHSEED" % g,
                                        {"schema": it["text"], "which": [g], "family": case["family"],
                                         "perturbations": it["kinds"], "hashseed": hs})
    finally:
        shutil.rmtree(str(root), ignore_errors=True)
    return P.result()


def doc_test_worker(case):
    """The repo's own doc_test (generator freshness etc.) with the C41 contracts installed on parse_string."""
    from . import c41
    P = core.Part()
    S = c41.load()
    mods()
    path = build.REPO / "test" / "doc" / "doc_test.py"
    spec = importlib.util.spec_from_file_location("c42_repo_doc_test", str(path))
    mod = importlib.util.module_from_spec(spec)
    try:
        spec.loader.exec_module(mod)
    except Exception as e:  # noqa: BLE001
        P.count("doc_test_import_failed")
        return dict(P.result(), note="%s: %s" % (type(e).__name__, e))
    names = ["test_mjcf_table", "test_default_table", "test_mjcf_map", "test_read_table", "test_xsd",
             "test_dmcontrol_schema", "test_read_table_consumed", "test_schema_enum_coverage", "test_schema",
             "test_element_constraints_diamond_inheritance"]
    suite = unittest.TestSuite(mod.DocTest(n) for n in names if hasattr(mod.DocTest, n))
    res = unittest.TestResult()
    suite.run(res)
    P.count("repo_doc_tests_run", res.testsRun)
    P.count("repo_doc_tests_contract_evals", S["counts"]["post_rules"])
    for test, tb in res.errors + res.failures:
        if test.id().split(".")[-1] in OUT_OF_SCOPE_DOC_TESTS:
            P.count("out_of_scope:schema_rst:repo-doc-test:%s" % test.id().split(".")[-1])
            continue
        P.violation("repo-doc-test:%s" % test.id().split(".")[-1], {"test": test.id(), "trace": tb[-1500:]})
    return P.result()


def run(ctx):
    n = ctx.pick(130, 3000)
    n_pert, n_syn = int(n * 0.5), int(n * 0.5)
    per_p, per_s = ctx.pick(5, 12), ctx.pick(8, 30)
    cases = [{"family": "real", "n": 1, "seed": ctx.seed, "chunk": 0}, {"family": "doctest"}]
    for fam, tot, per in (("perturbed", n_pert, per_p), ("synthetic", n_syn, per_s)):
        chunk = 0
        while tot > 0:
            cases.append({"family": fam, "n": min(per, tot), "seed": ctx.seed, "chunk": chunk})
            tot -= per
            chunk += 1
    res = par.run("vf.props.c42", "worker", cases, nproc=16, timeout=ctx.pick(600, 1500), chunk=1)
    for c, r in zip(cases, res):
        if r is None or "crash" in r or "exception" in r:
            ctx.count("worker_failures")
            ctx.inconclusive("worker failed on %s: %s" % (c, str(r)[-800:]))
            continue
        ctx.merge(r)
    if not ctx.counters.get("repo_doc_tests_run"):
        ctx.inconclusive("the repo doc_test did not run")
    for g in GENERATORS:
        if g not in OUT_OF_SCOPE and not ctx.counters.get("outputs_checked:" + g):
            ctx.inconclusive("no output of %s was checked" % g)
    if not ctx.counters.get("determinism_comparisons"):
        ctx.inconclusive("no cross-process determinism comparison ran")
    tot = ctx.counters.get("schema_invalid_discarded", 0)
    if tot > 0.5 * n:
        ctx.inconclusive("%d of %d generated schemas were invalid" % (tot, n))
    ctx.min_nontrivial = 20
    for p in core.OUT.glob("tmp-c42-*"):
        if not any(p.iterdir()):
            shutil.rmtree(str(p), ignore_errors=True)


def replay(ctx, path):
    rec = json.load(open(path))
    d = rec["detail"]
    if d.get("test"):
        ctx.merge(doc_test_worker({}))
    else:
        case = {"family": "replay", "n": 1, "seed": 0, "chunk": 0, "schema": d["schema"], "which": d.get("which") or GENERATORS,
                "perturbations": d.get("perturbations", [])}
        if "schema_rst" in case["which"] and "mjcf_table" not in case["which"]:
            case["which"] = ["mjcf_table"] + list(case["which"])
        ctx.merge(worker(case))
    ctx.min_nontrivial = 1


if __name__ == "__main__":
    if len(sys.argv) >= 3 and sys.argv[1] == "--hash":
        _hash_main(sys.argv[2:])
