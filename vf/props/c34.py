"""C34 Name lookup inverts naming for every object type."""
import ctypes as C
import json
import os
import sys

import numpy as np

from .. import build, core, drv, par
from ..gen import corpus
from ..mjconst import E
from ..ref import namehash as nh

LEVEL = "exploration"
RULE = ("generated MJCF models that name a random subset of the objects of every object type (bodies, joints, geoms, "
        "sites, cameras, lights, flexes, meshes, skins, hfields, textures, materials, pairs, excludes, equalities, "
        "tendons, actuators, sensors, numerics, texts, tuples, keys, plugin instances) with adversarial name sets "
        "(shared prefixes, case variants, the same names across types, sets whose hashes fall in one bucket so that the "
        "probe chain is full and wraps, full 64-bit hash collisions), plus every loadable shipped model; for every "
        "mjOBJ_* type x every id and a query set of other-type names, prefixes/suffixes/concatenations, case variants, "
        "'' and 1 kB strings, colliding non-names. Expected ids come from a brute-force scan of the model's own name "
        "table (names + name_*adr) cross-checked against the names written in the XML. distinct = (model, type, "
        "strategy); non-trivial = type has >= 2 named objects or a collision query was issued")
ASSUMPTIONS = [
    "mjOBJ_XBODY shares the body name table (mjtObj comment: 'body, used to access regular frame instead of i-frame')",
    "types without a name table (mjOBJ_UNKNOWN, mjOBJ_DOF, mjOBJ_FRAME, mjOBJ_DEFAULT, mjOBJ_MODEL, values outside the enum) must answer NULL / -1",
    "the re-implementation of mj_hashString is used only to find colliding strings, never to predict a result",
    "names containing XML-special characters (& < > quotes) are not generated (would test the XML shim, not the engine)",
]

# type -> (size field, address field, xml tag of the names written by the generator)
TABLE = [
    ("mjOBJ_BODY", "nbody", "name_bodyadr"), ("mjOBJ_XBODY", "nbody", "name_bodyadr"),
    ("mjOBJ_JOINT", "njnt", "name_jntadr"), ("mjOBJ_GEOM", "ngeom", "name_geomadr"),
    ("mjOBJ_SITE", "nsite", "name_siteadr"), ("mjOBJ_CAMERA", "ncam", "name_camadr"),
    ("mjOBJ_LIGHT", "nlight", "name_lightadr"), ("mjOBJ_FLEX", "nflex", "name_flexadr"),
    ("mjOBJ_MESH", "nmesh", "name_meshadr"), ("mjOBJ_SKIN", "nskin", "name_skinadr"),
    ("mjOBJ_HFIELD", "nhfield", "name_hfieldadr"), ("mjOBJ_TEXTURE", "ntex", "name_texadr"),
    ("mjOBJ_MATERIAL", "nmat", "name_matadr"), ("mjOBJ_PAIR", "npair", "name_pairadr"),
    ("mjOBJ_EXCLUDE", "nexclude", "name_excludeadr"), ("mjOBJ_EQUALITY", "neq", "name_eqadr"),
    ("mjOBJ_TENDON", "ntendon", "name_tendonadr"), ("mjOBJ_ACTUATOR", "nactuator", "name_actuatoradr"),
    ("mjOBJ_SENSOR", "nsensor", "name_sensoradr"), ("mjOBJ_NUMERIC", "nnumeric", "name_numericadr"),
    ("mjOBJ_TEXT", "ntext", "name_textadr"), ("mjOBJ_TUPLE", "ntuple", "name_tupleadr"),
    ("mjOBJ_KEY", "nkey", "name_keyadr"), ("mjOBJ_PLUGIN", "nplugin", "name_pluginadr"),
]
NOTABLE = ["mjOBJ_UNKNOWN", "mjOBJ_DOF", "mjOBJ_FRAME", "mjOBJ_DEFAULT", "mjOBJ_MODEL"]
GEN_TYPES = ["body", "joint", "geom", "site", "camera", "light", "flex", "mesh", "skin", "hfield", "texture",
             "material", "pair", "exclude", "equality", "tendon", "actuator", "sensor", "numeric", "text", "tuple",
             "key", "plugin"]
TYPE_OF = {"body": "mjOBJ_BODY", "joint": "mjOBJ_JOINT", "geom": "mjOBJ_GEOM", "site": "mjOBJ_SITE",
           "camera": "mjOBJ_CAMERA", "light": "mjOBJ_LIGHT", "flex": "mjOBJ_FLEX", "mesh": "mjOBJ_MESH",
           "skin": "mjOBJ_SKIN", "hfield": "mjOBJ_HFIELD", "texture": "mjOBJ_TEXTURE", "material": "mjOBJ_MATERIAL",
           "pair": "mjOBJ_PAIR", "exclude": "mjOBJ_EXCLUDE", "equality": "mjOBJ_EQUALITY", "tendon": "mjOBJ_TENDON",
           "actuator": "mjOBJ_ACTUATOR", "sensor": "mjOBJ_SENSOR", "numeric": "mjOBJ_NUMERIC", "text": "mjOBJ_TEXT",
           "tuple": "mjOBJ_TUPLE", "key": "mjOBJ_KEY", "plugin": "mjOBJ_PLUGIN"}
GEN_OF = dict({v: k for k, v in TYPE_OF.items()}, mjOBJ_XBODY="body")
MUST_NAME = {"mesh", "hfield", "texture", "material", "numeric", "text", "tuple"}
STRATEGIES = ["random", "prefix", "case", "bucket", "bucket_wrap", "full", "pool", "mixed"]
INT_MAX = 2 ** 31 - 1


# ---- name sets -----------------------------------------------------------------------------------

_WORDS = [b"a", b"A", b"arm", b"Arm", b"ARM", b"arm_", b"arm1", b"arm10", b"arm 1", b"leg/left", b"leg/right", b"world",
          b"World", b"0", b"00", b"x", b"xx", b"xxx", b"-", b"_", b".", b"j", b"joint", b"geom", b"\xc3\xa9t\xc3\xa9",
          b"\xe6\x97\xa5\xe6\x9c\xac", b"q" * 300, b"q" * 301, b"mjOBJ_BODY", b"name with spaces", b"a/b/c", b"%s%d"]


def _rand_name(rng):
    n = int(rng.integers(1, 10))
    return bytes(int(nh._ALPHA[int(x)]) for x in rng.integers(0, len(nh._ALPHA), size=n))


def make_names(rng, count, nslots, strategy, pool, taken):
    """`count` distinct names (bytes) for a type whose hash table will have `nslots` slots; not in `taken`."""
    out = []

    def add(s):
        if s and s not in taken and s not in out and len(out) < count:
            out.append(s)

    if strategy == "prefix":
        stem = _rand_name(rng)
        for k in range(count):
            add(stem[:1] * (k + 1) if k % 2 else stem + b"%d" % (10 ** (k // 2)))
    elif strategy == "case":
        stem = bytes(rng.choice(list(b"abcdefgh"), size=int(rng.integers(2, 6))).astype(np.uint8))
        for k in range(count):
            v = bytes((c - 32) if (k >> i) & 1 else c for i, c in enumerate(stem))
            add(v)
    elif strategy in ("bucket", "bucket_wrap") and nslots > 0:
        target = nslots - 1 if strategy == "bucket_wrap" else int(rng.integers(0, nslots))
        for s in nh.in_bucket(nslots, target, rng, count, stem=_rand_name(rng)[:2], exclude=taken):
            add(s)
    elif strategy == "full":
        for s in nh.colliding_with(_rand_name(rng)[:3], rng, count):
            add(s + b"_t")          # a common suffix keeps the 64-bit collision
    elif strategy == "pool":
        for i in rng.permutation(len(pool)):
            add(pool[int(i)])
    elif strategy == "mixed":
        for i in rng.permutation(len(_WORDS)):
            add(_WORDS[int(i)])
    k = 0
    while len(out) < count and k < 1000:
        k += 1
        add(_rand_name(rng))
    return out


# ---- model generator -----------------------------------------------------------------------------

def gen_model(rng):
    """Returns (xml bytes, names{type: [bytes or None per object in document order]}, strategies{type: str}, skipped)."""
    nb = int(rng.integers(2, 9))
    cnt = {"body": nb + 1}                      # + world
    parents = [0] + [int(rng.integers(0, i + 1)) for i in range(1, nb)]     # parent index among bodies 1..nb (0 = world)
    per = lambda hi: [int(rng.integers(0, hi + 1)) for _ in range(nb)]
    njb, ngb, nsb, ncb, nlb = per(2), [1 + x for x in per(1)], per(2), per(1), per(1)
    njb[0] = max(njb[0], 1)
    if nb > 1:
        njb[1] = max(njb[1], 1)
    cnt.update(joint=sum(njb), geom=sum(ngb), site=sum(nsb), camera=sum(ncb), light=sum(nlb))
    for t, hi in (("mesh", 3), ("hfield", 2), ("texture", 3), ("material", 3), ("skin", 2), ("flex", 2), ("pair", 3),
                  ("exclude", 3), ("equality", 3), ("tendon", 3), ("actuator", 4), ("sensor", 5), ("numeric", 4),
                  ("text", 3), ("tuple", 3), ("key", 4), ("plugin", 2)):
        cnt[t] = int(rng.integers(0, hi + 1))
    # a few types get a larger population so that long probe chains occur
    big = GEN_TYPES[int(rng.integers(0, len(GEN_TYPES)))]
    if big in ("numeric", "text", "key", "texture", "material", "sensor", "actuator", "tendon", "mesh", "hfield"):
        cnt[big] = int(rng.integers(6, 20))
    pool = make_names(rng, 12, 0, "mixed", [], set())
    names, strat, taken_by_type = {}, {}, {}
    for t in GEN_TYPES:
        n = cnt[t]
        taken = {b"world"} if t == "body" else set()
        st = STRATEGIES[int(rng.integers(0, len(STRATEGIES)))]
        strat[t] = st
        nobj = n - 1 if t == "body" else n
        p_unnamed = float(rng.choice([0.0, 0.0, 0.3, 0.6]))
        if t in MUST_NAME:          # the compiler rejects unnamed objects of these types ("empty name in ...")
            p_unnamed = 0.0
        named = [bool(rng.random() >= p_unnamed) for _ in range(nobj)]
        ntab = n + (cnt["plugin"] if t == "actuator" else 0)     # plugin actuators share the actuator table
        nm = make_names(rng, sum(named), 2 * ntab, st, pool, taken)
        it = iter(nm)
        names[t] = [next(it, None) if f else None for f in named]
    # objects that are referenced must be named: collect the named ones
    skipped = []

    def named_of(t):
        return [x for x in names[t] if x is not None]

    def at(nm):
        return b' name="' + nm + b'"' if nm is not None else b""

    x = [b'<mujoco model="c34"><option><flag contact="disable"/></option>']
    if not named_of("joint"):
        if cnt["plugin"]:
            skipped.append("plugin")
        names["plugin"] = []
    if any(nm is not None for nm in names["plugin"]):
        x.append(b'<extension><plugin plugin="mujoco.pid">')
        for nm in names["plugin"]:
            if nm is not None:
                x.append(b'<instance%s><config key="kp" value="1"/></instance>' % at(nm))
        x.append(b'</plugin></extension>')
    elif names["plugin"]:
        x.append(b'<extension><plugin plugin="mujoco.pid"/></extension>')
    x.append(b"<asset>")
    for nm in names["mesh"]:
        x.append(b'<mesh%s vertex="0 0 0 1 0 0 0 1 0 0 0 1" face="0 2 1 0 1 3 0 3 2 1 2 3"/>' % at(nm))
    for nm in names["hfield"]:
        x.append(b'<hfield%s nrow="2" ncol="2" size="1 1 1 1"/>' % at(nm))
    for nm in names["texture"]:
        x.append(b'<texture%s type="2d" builtin="checker" width="2" height="2"/>' % at(nm))
    for nm in names["material"]:
        x.append(b'<material%s rgba="1 0 0 1"/>' % at(nm))
    nbodies = named_of("body")
    for nm in names["skin"]:
        if not nbodies:
            skipped.append("skin")
            names["skin"] = []
            break
        x.append(b'<skin%s vertex="0 0 0 1 0 0 0 1 0" face="0 1 2"><bone body="%s" bindpos="0 0 0" bindquat="1 0 0 0" '
                 b'vertid="0 1 2" vertweight="1 1 1"/></skin>' % (at(nm), nbodies[int(rng.integers(0, len(nbodies)))]))
    x.append(b"</asset><worldbody>")
    # body tree, document order = depth-first
    children = {i: [] for i in range(nb + 1)}
    for i in range(1, nb + 1):
        p = parents[i - 1] if i > 1 else 0
        p = min(p, i - 1)
        children[p].append(i)
    it = {t: iter(names[t]) for t in ("body", "joint", "geom", "site", "camera", "light")}
    order = {t: [] for t in it}

    def emit(i):
        bn = next(it["body"])
        order["body"].append(bn)
        x.append(b'<body%s pos="%d 0 0.5">' % (at(bn), i))
        for k in range(njb[i - 1]):
            jn = next(it["joint"])
            order["joint"].append(jn)
            x.append(b'<joint%s type="%s" axis="%d %d 1"/>' % (at(jn), [b"hinge", b"slide"][k % 2], k, i % 2))
        for k in range(ngb[i - 1]):
            gn = next(it["geom"])
            order["geom"].append(gn)
            x.append(b'<geom%s size="0.1" pos="0 0 %d"/>' % (at(gn), k))
        for k in range(nsb[i - 1]):
            sn = next(it["site"])
            order["site"].append(sn)
            x.append(b'<site%s pos="0 %d 0"/>' % (at(sn), k))
        for k in range(ncb[i - 1]):
            cn = next(it["camera"])
            order["camera"].append(cn)
            x.append(b'<camera%s/>' % at(cn))
        for k in range(nlb[i - 1]):
            ln = next(it["light"])
            order["light"].append(ln)
            x.append(b'<light%s/>' % at(ln))
        for c in children[i]:
            emit(c)
        x.append(b"</body>")

    for c in children[0]:
        emit(c)
    x.append(b"</worldbody>")
    njoint, ngeom, nsite = named_of("joint"), named_of("geom"), named_of("site")

    def pick(lst, k=1):
        idx = rng.choice(len(lst), size=k, replace=False)
        return [lst[int(i)] for i in idx]

    # flex
    fbodies = [b for b in nbodies if b" " not in b]       # the flex body attribute is a space-separated list
    if cnt["flex"] and len(fbodies) >= 2:
        x.append(b"<deformable>")
        for nm in names["flex"]:
            b1, b2 = pick(fbodies, 2)
            x.append(b'<flex%s dim="1" body="%s %s" vertex="0 0 0 0 0 0" element="0 1"/>' % (at(nm), b1, b2))
        x.append(b"</deformable>")
    else:
        if cnt["flex"]:
            skipped.append("flex")
        names["flex"] = []
    # contact
    x.append(b"<contact>")
    if len(ngeom) >= 2:
        seen = set()
        keep = []
        for nm in names["pair"]:
            g1, g2 = pick(ngeom, 2)
            x.append(b'<pair%s geom1="%s" geom2="%s"/>' % (at(nm), g1, g2))
            keep.append(nm)
        names["pair"] = keep
    else:
        if cnt["pair"]:
            skipped.append("pair")
        names["pair"] = []
    if len(nbodies) >= 2:
        seen = set()
        keep = []
        for nm in names["exclude"]:
            b1, b2 = pick(nbodies, 2)
            if (b1, b2) in seen or (b2, b1) in seen:
                continue
            seen.add((b1, b2))
            x.append(b'<exclude%s body1="%s" body2="%s"/>' % (at(nm), b1, b2))
            keep.append(nm)
        names["exclude"] = keep
    else:
        if cnt["exclude"]:
            skipped.append("exclude")
        names["exclude"] = []
    x.append(b"</contact>")
    # equality
    if len(njoint) >= 1 and cnt["equality"]:
        x.append(b"<equality>")
        for nm in names["equality"]:
            x.append(b'<joint%s joint1="%s"/>' % (at(nm), pick(njoint)[0]))
        x.append(b"</equality>")
    else:
        if cnt["equality"]:
            skipped.append("equality")
        names["equality"] = []
    # tendon
    if len(njoint) >= 1 and cnt["tendon"]:
        x.append(b"<tendon>")
        for k, nm in enumerate(names["tendon"]):
            if k % 2 and len(nsite) >= 2:
                s1, s2 = pick(nsite, 2)
                x.append(b'<spatial%s><site site="%s"/><site site="%s"/></spatial>' % (at(nm), s1, s2))
            else:
                x.append(b'<fixed%s><joint joint="%s" coef="1"/></fixed>' % (at(nm), pick(njoint)[0]))
        x.append(b"</tendon>")
    else:
        if cnt["tendon"]:
            skipped.append("tendon")
        names["tendon"] = []
    # actuators; every plugin instance is attached to an additional (unnamed) plugin actuator; an unnamed instance
    # is declared implicitly inside its actuator
    act = list(names["actuator"])
    x.append(b"<actuator>")
    if njoint:
        for nm in act:
            x.append(b'<motor%s joint="%s"/>' % (at(nm), pick(njoint)[0]))
    else:
        if act:
            skipped.append("actuator")
        act = []
    extra_act = []
    for pn in names["plugin"]:
        if pn is None:
            x.append(b'<plugin joint="%s" plugin="mujoco.pid"><config key="kp" value="2"/></plugin>' % pick(njoint)[0])
        else:
            x.append(b'<plugin joint="%s" plugin="mujoco.pid" instance="%s"/>' % (pick(njoint)[0], pn))
        extra_act.append(None)
    names["actuator"] = act + extra_act
    x.append(b"</actuator>")
    # sensor
    x.append(b"<sensor>")
    for k, nm in enumerate(names["sensor"]):
        if k % 3 == 1 and nsite:
            x.append(b'<framepos%s objtype="site" objname="%s"/>' % (at(nm), pick(nsite)[0]))
        elif k % 3 == 0 and njoint:
            x.append(b'<jointpos%s joint="%s"/>' % (at(nm), pick(njoint)[0]))
        else:
            x.append(b'<clock%s/>' % at(nm))
    x.append(b"</sensor>")
    # custom
    x.append(b"<custom>")
    for nm in names["numeric"]:
        x.append(b'<numeric%s data="1 2"/>' % at(nm))
    for nm in names["text"]:
        x.append(b'<text%s data="t"/>' % at(nm))
    for nm in names["tuple"]:
        x.append(b'<tuple%s><element objtype="body" objname="world" prm="1"/></tuple>' % at(nm))
    x.append(b"</custom>")
    x.append(b"<keyframe>")
    for nm in names["key"]:
        x.append(b'<key%s time="1"/>' % at(nm))
    x.append(b"</keyframe></mujoco>")
    for t in order:
        names[t] = order[t]
    names["body"] = [b"world"] + names["body"]
    return b"".join(x), names, strat, skipped


# ---- checks --------------------------------------------------------------------------------------

class Api:
    def __init__(self, L):
        self.id2name = L.lib.mj_id2name
        self.id2name.restype = C.c_char_p
        self.id2name.argtypes = [C.c_void_p, C.c_int, C.c_int]
        self.name2id = L.lib.mj_name2id
        self.name2id.restype = C.c_int
        self.name2id.argtypes = [C.c_void_p, C.c_int, C.c_char_p]


def raw_names(m, size_field, adr_field):
    """Brute-force reference: the i-th name is the NUL-terminated string at names[name_xadr[i]]."""
    n = m.n(size_field)
    if n == 0:
        return []
    buf = m["names"].tobytes()
    adr = m[adr_field]
    out = []
    for i in range(n):
        a = int(adr[i])
        e = buf.index(b"\0", a)
        out.append(buf[a:e])
    return out


def queries_for(rng, own, all_names, nslots, budget):
    """negative/positive query strings for a type with names `own` (bytes list, '' = unnamed)."""
    q = [b"", b" ", b"a" * 1000, b"\xff" * 1000, b"world", b"\x01"]
    q += list(all_names)
    real = [s for s in own if s]
    ncoll = 0
    sel = [real[int(i)] for i in rng.permutation(len(real))[:12]]
    for s in sel:
        q += [s[:-1], s[1:], s + b"x", s + b" ", s + s, s.upper(), s.lower(), s.swapcase(), s + b"a" * 1000, b" " + s, s[:len(s) // 2]]
        # strings that are not names but land in the same bucket / have the same 64-bit hash
        if nslots:
            tgt = nh.hash64(s) % nslots
            for c in nh.in_bucket(nslots, tgt, rng, 2, stem=s[:1], exclude=set(real)):
                q.append(c)
                ncoll += 1
        if len(s) >= 2:
            h = nh.hash64(s[:-2])
            want = nh.hash64(s)
            # direct search for a 2-byte tail with the same full hash as s
            for a in nh._ALPHA:
                b = (((h * 33) ^ a) * 33 ^ want) & nh.M64
                if 0x21 <= b < 0x7f and bytes([a, b]) != s[-2:]:
                    c = s[:-2] + bytes([a, b])
                    if nh.hash64(c) == want:
                        q.append(c)
                        ncoll += 1
                        break
    for _ in range(10):
        q.append(_rand_name(rng))
    # de-duplicate, keep order, respect budget (positives first come from all_names anyway)
    seen, out = set(), []
    for s in q:
        if b"\0" in s or s in seen:
            continue
        seen.add(s)
        out.append(s)
    return out[:budget], ncoll


def check_model(P, L, m, rng, label, xml_names=None, strat=None, witness=None, budget=400):
    api = Api(L)
    sizes = m.sizes()
    tables = {}
    for tn, sf, af in TABLE:
        tables[tn] = raw_names(m, sf, af)
    all_names = sorted({s for v in tables.values() for s in v if s})
    if len(all_names) > 300:
        all_names = [all_names[int(i)] for i in rng.permutation(len(all_names))[:300]]

    def viol(sig, **kw):
        d = dict(witness or {})
        d.update(kw)
        P.violation(sig, d)

    # compiled table against the names written in the XML (multiset per type)
    if xml_names is not None:
        for t, tn in TYPE_OF.items():
            exp = sorted([s or b"" for s in xml_names.get(t, [])])
            got = sorted(tables[tn])
            if exp != got:
                viol("names-table-differs-from-xml:%s" % tn, type=tn, expected=[s.decode("latin1") for s in exp][:20],
                     got=[s.decode("latin1") for s in got][:20])
    for tn, sf, af in TABLE:
        t = getattr(E, tn)
        own = tables[tn]
        n = len(own)
        index = {}
        for i, s in enumerate(own):
            if s:
                index.setdefault(s, []).append(i)
        dup = [s for s, v in index.items() if len(v) > 1]
        # id2name for every id
        for i in range(n):
            r = api.id2name(m.ptr, t, i)
            if own[i] == b"":
                if r is not None:
                    viol("id2name-non-null-for-unnamed:%s" % tn, type=tn, id=i, got=r.decode("latin1"))
                P.count("unnamed_ids")
                continue
            if r != own[i]:
                viol("id2name-wrong-string:%s" % tn, type=tn, id=i, got=None if r is None else r.decode("latin1"),
                     expected=own[i].decode("latin1"))
                continue
            if dup and own[i] in dup:
                P.count("duplicate_names_in_type")
                continue
            j = api.name2id(m.ptr, t, r)
            P.count("roundtrips")
            if j != i:
                viol("name2id-does-not-invert-id2name:%s" % tn, type=tn, id=i, got=j, name=own[i].decode("latin1"),
                     nobj=n, strategy=(strat or {}).get(GEN_OF.get(tn, "")))
        # a crash inside an out-of-range query is attributed through this marker (see run())
        sys.stderr.write("C34-PROBE id2name-out-of-range %s n=%d\n" % (tn, n))
        sys.stderr.flush()
        for i in (-1, n, n + 1, INT_MAX, -INT_MAX - 1, -n - 1, 2 * n, 2 * n + 1):
            r = api.id2name(m.ptr, t, i)
            P.count("out_of_range_ids")
            if r is not None:
                viol("id2name-non-null-out-of-range:%s" % tn, type=tn, id=i, nobj=n, got=r.decode("latin1"))
        sys.stderr.write("C34-PROBE done\n")
        sys.stderr.flush()
        # queries
        qs, ncoll = queries_for(rng, own, all_names, 2 * n, budget)
        npos = nneg = 0
        for s in qs:
            j = api.name2id(m.ptr, t, s)
            exp = index.get(s)
            if exp is None:
                nneg += 1
                if j != -1:
                    viol("name2id-finds-non-name:%s" % tn, type=tn, query=s[:80].decode("latin1"), qlen=len(s), got=j,
                         nobj=n, got_name=(own[j].decode("latin1") if 0 <= j < n else None))
            else:
                npos += 1
                if j not in exp:
                    viol("name2id-wrong-id:%s" % tn, type=tn, query=s[:80].decode("latin1"), got=j, expected=exp, nobj=n)
        P.count("queries_negative", nneg)
        P.count("queries_positive", npos)
        P.count("collision_queries", ncoll)
        nnamed = len(index)
        st = (strat or {}).get(GEN_OF.get(tn, ""), "corpus")
        P.case(key="%s|%s|%s" % (label, tn, st), nontrivial=(nnamed >= 2 or ncoll > 0), n=n + len(qs),
               sample={"model": label, "type": tn, "nobj": n, "named": nnamed, "strategy": st, "queries": len(qs),
                       "collision_queries": ncoll})
        if nnamed:
            P.count("types_with_names:" + tn)
        if n and nnamed == n and st in ("bucket", "bucket_wrap", "full"):
            P.count("full_probe_chain_tables")
    # types without a name table
    others = [getattr(E, k) for k in NOTABLE] + [-1, -2, E.mjNOBJECT, E.mjNOBJECT + 1, 99, 103, 1000, INT_MAX, -INT_MAX - 1]
    for t in others:
        for i in (0, 1, -1, sizes["nv"], sizes["nbody"]):
            if api.id2name(m.ptr, t, i) is not None:
                viol("id2name-non-null-for-type-without-names", type=t, id=i)
        for s in all_names[:40] + [b"", b"world"]:
            j = api.name2id(m.ptr, t, s)
            P.count("queries_no_table")
            if j != -1:
                viol("name2id-finds-name-for-type-without-names", type=t, query=s[:80].decode("latin1"), got=j)


def worker(c):
    P = core.Part()
    L = drv.Lib("asan" if c.get("asan") else "rel")
    rng = np.random.default_rng(c["seed"])
    if c["kind"] == "corpus":
        try:
            m = L.load_xml(str(build.REPO / c["path"]))
        except drv.MjError:
            P.count("model_rejected")
            return P.result()
        check_model(P, L, m, rng, c["path"], witness={"case": c}, budget=c.get("budget", 250))
        P.count("corpus_models")
        m.free()
        return P.result()
    xml, names, strat, skipped = gen_model(np.random.default_rng(c["mseed"]))
    try:
        m = L.load_xml_string(xml)
    except drv.MjError as e:
        P.count("model_rejected")
        P.count("model_rejected:" + str(e).split("\n")[0][:50])
        return P.result()
    for s in skipped:
        P.count("skipped_type_unbuildable:" + s)
    for t, st in strat.items():
        P.count("strategy:" + st)
    check_model(P, L, m, rng, "gen:%d" % c["mseed"], xml_names=names, strat=strat,
                witness={"case": c, "xml": xml.decode("latin1")}, budget=c.get("budget", 400))
    P.count("generated_models")
    m.free()
    return P.result()


def cases(ctx):
    rng = ctx.rng
    cs = []
    for i in range(ctx.pick(100, 1500)):
        cs.append({"kind": "gen", "mseed": int(rng.integers(0, 2 ** 31)), "seed": int(rng.integers(0, 2 ** 31))})
    corp = corpus.loadable()
    idx = rng.permutation(len(corp))
    for i in idx[:ctx.pick(60, len(corp))]:
        c = corp[int(i)]
        if ctx.quick and c["nv"] > 400:
            continue
        cs.append({"kind": "corpus", "path": c["path"], "seed": int(rng.integers(0, 2 ** 31))})
    return cs


def run(ctx):
    assert nh.selftest()
    build.ensure("rel")
    cs = cases(ctx)
    res = par.run("vf.props.c34", "worker", cs, nproc=16, timeout=ctx.pick(300, 600))
    # a subsample under ASan: out-of-bounds reads of names / names_map while probing
    sub, res2 = [], []
    if os.environ.get("VF_SKIP_ASAN"):      # development knob for mutant screening only; recorded in the evidence
        ctx.count("asan_stage_skipped_by_env")
    else:
        build.ensure("asan")
        sub = [dict(c, asan=True, budget=150) for c in cs if c["kind"] == "gen"][:ctx.pick(8, 96)]
        res2 = par.run("vf.props.c34", "worker", sub, nproc=16, timeout=ctx.pick(300, 600), asan=True)
    rejected = 0
    for c, r in list(zip(cs, res)) + list(zip(sub, res2)):
        if r is None:
            ctx.inconclusive("worker returned nothing")
        elif "crash" in r:
            ctx.count("worker_crash")
            tail = r["crash"][-1500:]
            probes = [l for l in r["crash"].splitlines() if l.startswith("C34-PROBE")]
            if "AddressSanitizer" in tail or "runtime error" in tail:
                ctx.violation("sanitizer-report-during-name-lookup", {"case": c, "stderr": tail, "rc": r.get("rc")})
            elif probes and probes[-1] != "C34-PROBE done" and r.get("rc") != "timeout":
                # the process died inside mj_id2name(type, out-of-range id): it did not return NULL
                ctx.violation("id2name-crashes-on-out-of-range-id:%s" % probes[-1].split()[2],
                              {"case": c, "probe": probes[-1], "rc": r.get("rc")})
            else:
                ctx.inconclusive("worker crashed: rc=%s" % r.get("rc"))
        elif "exception" in r:
            ctx.count("harness_exception")
            ctx.inconclusive("harness exception in worker: " + r["exception"])
        else:
            ctx.merge(r)
    ngen = ctx.counters.get("generated_models", 0)
    if ctx.counters.get("model_rejected", 0) > 0.2 * max(1, len(cs)):
        ctx.inconclusive("too many generated models rejected by the compiler")
    ctx.count("asan_cases", len(sub))
    ctx.min_nontrivial = ctx.pick(800, 12000)


def replay(ctx, path):
    rec = json.load(open(path))
    c = rec["detail"]["case"]
    r = par.run("vf.props.c34", "worker", [c], nproc=1, timeout=600, asan=bool(c.get("asan")))[0]
    if r and "crash" in r:
        probes = [l for l in r["crash"].splitlines() if l.startswith("C34-PROBE")]
        if "AddressSanitizer" in r["crash"] or "runtime error" in r["crash"]:
            ctx.violation("sanitizer-report-during-name-lookup", {"case": c, "stderr": r["crash"][-1500:]})
        elif probes and probes[-1] != "C34-PROBE done":
            ctx.violation("id2name-crashes-on-out-of-range-id:%s" % probes[-1].split()[2], {"case": c, "probe": probes[-1]})
        else:
            ctx.inconclusive("worker crashed: rc=%s" % r.get("rc"))
    elif r and "exception" in r:
        ctx.inconclusive("harness exception: " + r["exception"])
    elif r:
        ctx.merge(r)
    ctx.min_nontrivial = 1
