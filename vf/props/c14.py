"""C14 Collision pair selection is complete and respects the filters."""
import ctypes as C
import json
import math

import numpy as np

from .. import build, core, drv, par
from ..gen import piles
from ..gen.model import f
from ..mjconst import E
from ..ref import collide_filter as CF

LEVEL = "exploration"
RULE = ("reference-model oracle + twin runs: generated scenes of 20-300 primitive geoms (clustered / stretched along a line, multi-geom "
        "bodies, planes, long thin rotated geoms, zero / small / large margins and gaps, mocap and static bodies, kinematic chains with "
        "welded children, random contype/conaffinity bits, <pair> and <exclude> elements, filterparent / override / contact disable flags) "
        "x several poses; the set of (geom1, geom2) in mjData.contact after mj_collision is compared with the set obtained by applying the "
        "documented selection rules to ALL geom pairs (vf/ref/collide_filter.py) and calling the engine's own narrow-phase function "
        "mjCOLLISIONFUNC[t1][t2] directly for every candidate (no broad/mid-phase); also mid-phase on vs off, and the contact list of "
        "repeated runs / a second mjData / a recompiled model bit for bit. distinct = (scene, pose, flag setting); non-trivial = at least "
        "one candidate pair in contact and at least one candidate pair not in contact")
ASSUMPTIONS = [
    "proximity of a candidate pair is decided by the documented filter 2 ('A bounding sphere test is applied, taking into account the "
    "contact margin. If one of the geoms in the pair is a plane, this becomes a plane-sphere test', evaluated here from geom_rbound and "
    "the geom frames) followed by the engine's own collider for the type pair called with the pair's margin + gap (doc margin and gap: "
    "'No contact (distance > margin + gap)'); collider correctness is C15's subject - the box-box collider over-reports proximity at "
    "corners, which is why filter 2 is not outcome-neutral",
    "a pair whose collider answer changes when the detection distance is moved by +-1e-9 may be present or absent (design tolerance)",
    "a pair for which the collider reports a contact but whose shapes are provably farther apart than margin + gap (separation along "
    "some direction, evaluated with the shapes' support functions, exceeds it) may be absent: the statement only protects geoms that are "
    "within margin; the box-box collider with a large margin reports corner-to-corner proximity up to sqrt(3) x margin",
    "scenes get ample arena memory; a run that raises mjWARN_CONTACTFULL is skipped and counted (truncation is C20's subject)",
    "sleeping is disabled; user collision callbacks unset; no flexes, meshes (qhull absent) or height fields",
    "contact order: only determinism is required (same list for repeated runs, another mjData, a recompiled model); with mid-phase "
    "toggled only the set of pairs must agree",
]

NCON = 64
PRIM = ["sphere", "capsule", "ellipsoid", "cylinder", "box"]


# ---- scenes ---------------------------------------------------------------------------------------------------------
def _geom(rng, S, scale=1.0, thin=False, pos_spread=0.0):
    t = PRIM[int(rng.integers(0, 5))]
    r = float(rng.uniform(0.05, 0.16)) * scale
    if thin:
        t = ["capsule", "box", "cylinder"][int(rng.integers(0, 3))]
        size = {"capsule": [r * 0.25, r * 6], "box": [r * 0.2, r * 0.3, r * 6], "cylinder": [r * 0.25, r * 6]}[t]
    else:
        size = {"sphere": [r], "capsule": [r * 0.6, r], "box": [r, r * 0.8, r * 0.7], "ellipsoid": [r, r * 0.7, r * 0.9], "cylinder": [r * 0.7, r * 0.8]}[t]
    a = ['name="g%d"' % S["ng"], 'type="%s"' % t, 'size="%s"' % f(size)]
    S["ng"] += 1
    if pos_spread:
        a.append('pos="%s"' % f(rng.normal(size=3) * pos_spread))
    q = rng.normal(size=4)
    if thin and rng.random() < 0.6:
        ax = rng.normal(size=3)
        ax /= np.linalg.norm(ax)
        q = np.concatenate([[math.cos(math.pi / 8)], math.sin(math.pi / 8) * ax])      # 45 degrees
    a.append('quat="%s"' % f(q / np.linalg.norm(q)))
    k = rng.random()
    if k < S["p_margin"]:
        a.append('margin="%s"' % f(float(rng.choice([0.002, 0.02, 0.1, 0.3]))))
        if rng.random() < 0.5:
            a.append('gap="%s"' % f(float(rng.choice([0.01, 0.05, 0.2]))))
    if rng.random() < S["p_bits"]:
        a.append('contype="%d" conaffinity="%d"' % (int(rng.integers(0, 8)), int(rng.integers(0, 8))))
    return "<geom %s/>" % " ".join(a)


def scene_xml(rng, ngeom, layout):
    S = {"ng": 0, "p_margin": float(rng.choice([0.0, 0.3, 0.8])), "p_bits": float(rng.choice([0.0, 0.3, 0.7]))}
    flags = []
    opt = []
    if rng.random() < 0.2:
        flags.append('filterparent="disable"')
    if rng.random() < 0.12:
        flags.append('override="enable"')
        opt.append('o_margin="%s"' % f(float(rng.choice([0.0, 0.01, 0.15]))))
    if rng.random() < 0.03:
        flags.append('contact="disable"')
    if rng.random() < 0.02:
        flags.append('constraint="disable"')
    out = ['<mujoco><option %s><flag %s/></option><size memory="300M"/><worldbody>' % (" ".join(opt), " ".join(flags))]
    nb = [0]
    bodies = []

    def place():
        if layout == "cluster":
            c = centres[int(rng.integers(0, len(centres)))]
            return c + rng.normal(size=3) * 0.18
        if layout == "line":
            d = line_dir
            return d * rng.uniform(-1, 1) * (0.04 * ngeom) + rng.normal(size=3) * 0.08
        return rng.uniform(-1, 1, size=3) * (0.12 * ngeom ** (1 / 3.0)) * 1.3
    centres = [rng.normal(size=3) * 1.2 for _ in range(max(2, ngeom // 15))]
    line_dir = rng.normal(size=3)
    line_dir /= np.linalg.norm(line_dir)
    # planes and static world geoms
    for _ in range(int(rng.integers(0, 3))):
        q = rng.normal(size=4) * np.array([1, 0.2, 0.2, 0.0]) + np.array([1.5, 0, 0, 0])
        out.append('<geom name="g%d" type="plane" size="0 0 0.1" pos="%s" quat="%s"/>' % (S["ng"], f([0, 0, float(rng.uniform(-1.2, -0.1))]), f(q / np.linalg.norm(q))))
        S["ng"] += 1
    for _ in range(int(rng.integers(0, 4))):
        out.append(_geom(rng, S, scale=2.0, pos_spread=0.8))

    def body(depth, kind):
        name = "b%d" % nb[0]
        nb[0] += 1
        bodies.append(name)
        pos = place() if depth == 0 else rng.normal(size=3) * 0.12
        q = rng.normal(size=4)
        head = '<body name="%s" pos="%s" quat="%s"' % (name, f(pos), f(q / np.linalg.norm(q)))
        if kind == "mocap":
            out.append(head + ' mocap="true">')
        elif kind == "static":
            out.append(head + ">")
            if depth == 0 and rng.random() < 0.3:
                out.append('<geom name="g%d" type="plane" size="0 0 0.1"/>' % S["ng"])
                S["ng"] += 1
        elif kind == "free":
            out.append(head + "><freejoint/>")
        elif kind == "weld":
            out.append(head + ">")
        else:
            out.append(head + '><joint type="%s" axis="%s"/>' % (["hinge", "slide", "ball"][int(rng.integers(0, 3))], f(rng.normal(size=3))))
        k = rng.random()
        n = 1 if k < 0.5 else int(rng.integers(2, 9))
        for _ in range(n):
            if S["ng"] >= ngeom:
                break
            out.append(_geom(rng, S, thin=rng.random() < 0.15, pos_spread=0.0 if n == 1 else 0.15))
        if depth < 3 and rng.random() < 0.45 and S["ng"] < ngeom:
            body(depth + 1, "weld" if rng.random() < 0.3 else "joint")
        if depth < 2 and rng.random() < 0.2 and S["ng"] < ngeom:
            body(depth + 1, "joint")
        out.append("</body>")
    while S["ng"] < ngeom:
        k = rng.random()
        body(0, "mocap" if k < 0.08 else ("static" if k < 0.16 else ("joint" if k < 0.3 else "free")))
    out.append("</worldbody>")
    con = []
    ng = S["ng"]
    for _ in range(int(rng.integers(0, 1 + ng // 8)) if rng.random() < 0.6 else 0):
        a, b = int(rng.integers(0, ng)), int(rng.integers(0, ng))
        if a == b:
            continue
        extra = ""
        if rng.random() < 0.6:
            extra += ' margin="%s"' % f(float(rng.choice([0.0, 0.05, 0.4])))
        if rng.random() < 0.3:
            extra += ' gap="%s"' % f(float(rng.choice([0.02, 0.2])))
        if rng.random() < 0.5:
            extra += ' condim="%d"' % [1, 3, 4, 6][int(rng.integers(0, 4))]
        con.append('<pair geom1="g%d" geom2="g%d"%s/>' % (a, b, extra))
    for _ in range(int(rng.integers(0, 1 + len(bodies) // 4)) if rng.random() < 0.6 else 0):
        a, b = int(rng.integers(0, len(bodies))), int(rng.integers(0, len(bodies)))
        if a != b:
            con.append('<exclude body1="%s" body2="%s"/>' % (bodies[a], bodies[b]))
    if con:
        out.append("<contact>%s</contact>" % "".join(con))
    out.append("</mujoco>")
    return "".join(out)


def touch_xml(rng, ngeom):
    """pairs of free geoms strung along one direction (the sweep axis of the broad phase), each pair barely penetrating /
    barely inside the margin: depth 1e-9 .. 1e-3"""
    u = rng.normal(size=3)
    u /= np.linalg.norm(u)
    if rng.random() < 0.4:
        u = np.eye(3)[int(rng.integers(0, 3))]
    out = ['<mujoco><size memory="50M"/><worldbody>']
    x = float(rng.uniform(-60, 0))
    k = 0
    while k < ngeom - 1:
        r1, r2 = float(rng.uniform(0.05, 0.3)), float(rng.uniform(0.05, 0.3))
        depth = float(rng.choice([1e-9, 1e-8, 1e-7, 1e-6, 1e-5, 1e-4, 1e-3]))
        mg = float(rng.choice([0.0, 0.0, 0.01]))
        c1 = u * x
        if rng.random() < 0.5:
            g1 = '<geom name="g%d" type="sphere" size="%s" margin="%s"/>' % (k, f(r1), f(mg))
            end1 = r1
        else:
            h = float(rng.uniform(0.1, 0.4))
            g1 = '<geom name="g%d" type="capsule" size="%s" fromto="%s %s" margin="%s"/>' % (k, f(r1), f(-u * h), f(u * h), f(mg))
            end1 = r1 + h
        c2 = c1 + u * (end1 + r2 + mg - depth)
        out.append('<body pos="%s"><freejoint/>%s</body>' % (f(c1), g1))
        out.append('<body pos="%s"><freejoint/><geom name="g%d" type="sphere" size="%s"/></body>' % (f(c2), k + 1, f(r2)))
        k += 2
        x += end1 + 2 * r2 + float(rng.uniform(0.5, 4))
    out.append("</worldbody></mujoco>")
    return "".join(out)


def tabletop_xml(rng, ngeom):
    """a few world geoms, one or two static bodies that carry a plane and a slab, and a handful of free bodies lying on them"""
    out = ['<mujoco><size memory="50M"/><worldbody>']
    k = 0
    for _ in range(int(rng.integers(1, 4))):
        out.append('<geom name="g%d" type="sphere" size="0.1" pos="%s"/>' % (k, f(rng.normal(size=3) * 0.5 + np.array([0, 0, -1.0]))))
        k += 1
    for _ in range(int(rng.integers(1, 3))):
        out.append('<body pos="%s"><geom name="g%d" type="plane" size="0 0 1"/><geom name="g%d" type="box" size="1 1 0.1" pos="0 0 -0.1"/></body>'
                   % (f([0, 0, float(rng.uniform(-0.05, 0))]), k, k + 1))
        k += 2
    n = int(rng.integers(2, max(3, min(8, ngeom // 4))))
    for _ in range(n):
        out.append('<body pos="%s"><freejoint/><geom name="g%d" type="%s" size="0.1 0.08 0.07"/></body>'
                   % (f([float(rng.normal() * 0.06), float(rng.normal() * 0.06), float(rng.uniform(0.05, 0.12))]), k, PRIM[int(rng.integers(0, 5))]))
        k += 1
    out.append("</worldbody></mujoco>")
    return "".join(out)


def make_xml(c):
    rng = np.random.default_rng(c["seed"])
    if c["gen"] == "tabletop":
        return tabletop_xml(rng, c["ngeom"])
    if c["gen"] == "touch":
        return touch_xml(rng, c["ngeom"])
    if c["gen"] == "cloud":
        return piles.cloud_xml(rng, n=c["ngeom"], extent=float(rng.choice([0.8, 1.2, 2.5])), opts="")
    if c["gen"] == "pile":
        return piles.pile_xml(rng, nclusters=max(2, c["ngeom"] // 6), per=5, spacing=float(rng.choice([0.5, 1.0, 3.0])), multi_geom=0.5)
    return scene_xml(rng, c["ngeom"], c["gen"])


# ---- engine access ----------------------------------------------------------------------------------------------------
class Narrow:
    """direct calls of mjCOLLISIONFUNC[t1][t2](m, d, con, g1, g2, margin) under the harness error trap"""

    def __init__(self, L, m, d):
        self.L, self.m, self.d = L, m, d
        nt = int(E.mjNGEOMTYPES)
        self.nt = nt
        self.tab = (C.c_void_p * (nt * nt)).in_dll(L.lib, "mjCOLLISIONFUNC")
        self.buf = np.zeros(NCON * 10)
        self.ia = (C.c_uint64 * 12)()
        self.da = (C.c_double * 8)()
        self.ri = C.c_uint64()
        self.rd = C.c_double()
        self.ia[0], self.ia[1], self.ia[2] = m.ptr, d.ptr, self.buf.ctypes.data
        self.typ = np.array(m["geom_type"])

    def has(self, t1, t2):
        return bool(self.tab[min(t1, t2) * self.nt + max(t1, t2)])

    def order(self, a, b):
        """argument order used for a collider: lower geom type first (table is upper triangular)"""
        return (b, a) if self.typ[a] > self.typ[b] else (a, b)

    def ncon(self, g1, g2, margin):
        fn = self.tab[int(self.typ[g1]) * self.nt + int(self.typ[g2])]
        self.ia[3], self.ia[4] = g1, g2
        self.da[0] = margin
        st = self.L.lib.vf_call_mixed(fn, self.ia, self.da, 0, C.byref(self.ri), C.byref(self.rd))
        if st:
            raise drv.MjError(self.L.lib.vf_last_error().decode(errors="replace"))
        n = self.ri.value & 0xFFFFFFFF
        return n - (1 << 32) if n & 0x80000000 else n


def sphere_slack(A, rbound, xpos, xmat, a, b, margin):
    """slack of the documented bounding-sphere filter (>= 0 passes); None when it does not apply (unbounded geom)"""
    ta, tb = int(A["geom_type"][a]), int(A["geom_type"][b])
    if rbound[a] > 0 and rbound[b] > 0:
        return rbound[a] + rbound[b] + margin - float(np.linalg.norm(xpos[a] - xpos[b]))
    if ta == 0 and rbound[b] > 0:
        return margin + rbound[b] - float(xmat[a][:, 2] @ (xpos[b] - xpos[a]))
    if tb == 0 and rbound[a] > 0:
        return margin + rbound[a] - float(xmat[b][:, 2] @ (xpos[a] - xpos[b]))
    return None


def support_width(gtype, size, Rm, n):
    """support function h(n) = max over the shape (centred at the origin, axes = columns of Rm) of n.x; None for unbounded shapes"""
    l = Rm.T @ n
    if gtype == 2:
        return float(size[0])
    if gtype == 3:
        return float(size[0] + size[1] * abs(l[2]))
    if gtype == 5:
        return float(size[1] * abs(l[2]) + size[0] * math.sqrt(max(0.0, 1 - l[2] * l[2])))
    if gtype == 4:
        return float(np.linalg.norm(np.asarray(size) * l))
    if gtype == 6:
        return float(np.abs(l) @ np.asarray(size))
    return None


def certified_separation(L, m, d, A, xpos, xmat, a, b, reach):
    """a lower bound on the distance between geoms a and b that does not rely on any engine result being right: the
    separation of the two shapes along a direction n, evaluated with their support functions (valid for every n).  The
    direction is a hint taken from the witness points of mj_geomDistance (and the centre line as a fallback)."""
    ta, tb = int(A["geom_type"][a]), int(A["geom_type"][b])
    size = np.array(m["geom_size"]).reshape(-1, 3)
    dirs = []
    ft = np.zeros(6)
    try:
        dist = L.call("mj_geomDistance", m, d, int(a), int(b), float(reach), ft, ret="f64")
        v = ft[3:] - ft[:3]
        if np.linalg.norm(v) > 1e-12:
            dirs.append(v / np.linalg.norm(v))
    except drv.MjError:
        pass
    v = xpos[b] - xpos[a]
    if np.linalg.norm(v) > 1e-12:
        dirs.append(v / np.linalg.norm(v))
    for k in range(3):
        dirs.append(xmat[a][:, k])
        dirs.append(xmat[b][:, k])
    best = -math.inf
    for n in dirs:
        for sgn in (1.0, -1.0):
            nn = n * sgn
            ha, hb = support_width(ta, size[a], xmat[a], nn), support_width(tb, size[b], xmat[b], -nn)
            if ha is None or hb is None:
                continue
            best = max(best, float(nn @ (xpos[b] - xpos[a])) - ha - hb)
    return best


def kinematics(L, m, d):
    L.call("mj_kinematics", m, d, ret=None)
    L.call("mj_comPos", m, d, ret=None)


def collide(L, m, d):
    L.call("mj_collision", m, d, ret=None)
    return d.contacts()


def contact_key(con):
    """bitwise signature of the contact list (pair order, distances, positions, frames, parameters set by the driver)"""
    if len(con) == 0:
        return b""
    parts = [np.ascontiguousarray(con[k]).tobytes() for k in ("geom", "dist", "pos", "frame", "includemargin", "dim", "friction", "solref", "solimp", "exclude")]
    return b"".join(parts)


def model_arrays(m, nar):
    A = {k: np.array(m[k]) for k in ("geom_bodyid", "geom_type", "geom_contype", "geom_conaffinity", "geom_margin", "geom_gap", "body_parentid",
                                      "body_dofnum", "body_mocapid")}
    npair = m.n("npair")
    A["pairs"] = [(int(m["pair_geom1"][k]), int(m["pair_geom2"][k]), float(m["pair_margin"][k]), float(m["pair_gap"][k])) for k in range(npair)]
    A["excludes"] = set()
    for s in np.array(m["exclude_signature"]).astype(np.int64).tolist() if m.n("nexclude") else []:
        s &= 0xFFFFFFFF
        A["excludes"].add((min(s >> 16, s & 0xFFFF), max(s >> 16, s & 0xFFFF)))
    A["has_func"] = nar.has
    dis, en = int(m.opt["disableflags"]), int(m.opt["enableflags"])
    A["contact_disabled"] = bool(dis & int(E.mjDSBL_CONTACT)) or bool(dis & int(E.mjDSBL_CONSTRAINT))
    A["filterparent_disabled"] = bool(dis & int(E.mjDSBL_FILTERPARENT))
    A["override"] = float(m.opt["o_margin"]) if en & int(E.mjENBL_OVERRIDE) else None
    return A


def set_pose(rng, m, d, k):
    d.reset()
    if k == 0:
        return
    jt, qa = m["jnt_type"], m["jnt_qposadr"]
    amp = [0.0, 0.05, 0.3][min(k, 2)]
    for j in range(m.n("njnt")):
        a = qa[j]
        if jt[j] == 0:
            d["qpos"][a:a + 3] += rng.normal(size=3) * amp
            q = np.array(d["qpos"][a + 3:a + 7]) + rng.normal(size=4) * amp * 3
            d["qpos"][a + 3:a + 7] = q / np.linalg.norm(q)
        elif jt[j] == 1:
            q = np.array(d["qpos"][a:a + 4]) + rng.normal(size=4) * amp * 3
            d["qpos"][a:a + 4] = q / np.linalg.norm(q)
        else:
            d["qpos"][a] += rng.normal() * amp * 2
    nm = m.n("nmocap")
    if nm:
        d["mocap_pos"][:] = np.array(d["mocap_pos"]) + rng.normal(size=(nm, 3)) * amp
        q = np.array(d["mocap_quat"]) + rng.normal(size=(nm, 4)) * amp
        d["mocap_quat"][:] = q / np.linalg.norm(q, axis=1, keepdims=True)


# ---- worker ------------------------------------------------------------------------------------------------------------
def worker(c):
    P = core.Part()
    L = drv.Lib(c.get("flavour", "rel"))
    xml = c.get("xml") or make_xml(c)
    try:
        m = L.load_xml_string(xml)
    except drv.MjError as e:
        P.count("scene_rejected")
        P.count("scene_rejected:" + str(e)[:60])
        return P.result()
    if m.n("nflex") or m.n("nmesh"):
        P.count("skipped_flex_or_mesh")
        return P.result()
    m.opt["enableflags"] = int(m.opt["enableflags"]) & ~int(E.mjENBL_SLEEP)
    d = m.make_data()
    dn = m.make_data()          # scratch data for direct narrow-phase calls
    nar = Narrow(L, m, dn)
    A = model_arrays(m, nar)
    cand, reason = CF.candidates(A)
    for kk, vv in CF.rule_stats(A).items():
        P.count(kk, vv)
    if A["pairs"]:
        # explicit pairs that the body-pair mechanism would have rejected (they really bypass filters 3, 4 and the excludes)
        c_nopairs, _ = CF.candidates(dict(A, pairs=[]))
        P.count("explicit_pairs_bypassing_a_filter", sum(1 for kk, vv in cand.items() if vv[0] >= 0 and kk not in c_nopairs))
    ng = m.n("ngeom")
    rbound = np.array(m["geom_rbound"])
    dis0 = int(m.opt["disableflags"])
    rng = np.random.default_rng([c["seed"], 7])
    P.count("scenes")
    P.note_max("ngeom", ng)
    P.note_max("candidate_pairs", len(cand))
    P.count("scenes_with_multigeom_bodies", int((np.array(m["body_geomnum"])[1:] > 1).any()))
    P.count("scenes_with_explicit_pairs", int(m.n("npair") > 0))
    P.count("scenes_with_excludes", int(m.n("nexclude") > 0))
    P.count("scenes_filterparent_disabled", int(A["filterparent_disabled"]))
    P.count("scenes_override", int(A["override"] is not None))
    P.count("scenes_contacts_disabled", int(A["contact_disabled"]))
    gname = lambda g: "%s(b%d)" % (["plane", "hfield", "sphere", "capsule", "ellipsoid", "cylinder", "box", "mesh", "sdf"][int(A["geom_type"][g])], int(A["geom_bodyid"][g]))
    m2 = None

    def wit(**kw):
        w = {"xml": xml, "case": {k: v for k, v in c.items() if not k.startswith("_")}}
        w.update(kw)
        return w

    for k in range(c["nconf"]):
        set_pose(rng, m, d, k)
        kinematics(L, m, d)
        # ---- pipeline, mid-phase as configured (enabled)
        m.opt["disableflags"] = dis0 & ~int(E.mjDSBL_MIDPHASE)
        w0 = L.warnings()
        try:
            con = collide(L, m, d)
        except drv.MjError as e:
            msg = str(e)
            key = "broadphase-buffer-full" if "broadphase buffer full" in msg else msg.split(":")[0][:40]
            P.violation("mj_collision-raises-engine-error:" + key, wit(config=k, error=msg[:200], nbody=m.n("nbody"), ngeom=ng))
            P.count("configs_engine_error")
            P.case(key="%d|%s|%d|error" % (c["seed"], c["gen"], k), nontrivial=True, sample={"gen": c["gen"], "ngeom": ng, "config": k, "error": msg[:80]})
            break
        if L.warnings() != w0:
            P.count("skipped_engine_warning")
            P.count("skipped_engine_warning:" + L.last_warning()[:40])
            P.case(nontrivial=False)
            continue
        geoms = np.array(con["geom"]).reshape(-1, 2)
        eng = {}
        for i, (a, b) in enumerate(geoms.tolist()):
            eng.setdefault((min(a, b), max(a, b)), []).append(i)
        key_mid = contact_key(con)
        order_mid = geoms.copy()
        con_inc = np.array(con["includemargin"]).copy()
        con_dim = np.array(con["dim"]).copy()
        # ---- expected: direct narrow phase on every candidate
        dn["qpos"][:] = d["qpos"]
        if m.n("nmocap"):
            dn["mocap_pos"][:] = d["mocap_pos"]
            dn["mocap_quat"][:] = d["mocap_quat"]
        kinematics(L, m, dn)
        exp = {}
        xpos = np.array(dn["geom_xpos"]).reshape(-1, 3)
        xmat = np.array(dn["geom_xmat"]).reshape(-1, 3, 3)
        sphere_borderline = set()
        for (a, b), (ipair, mg, gp, why) in cand.items():
            # filter 2 (documented): bounding-sphere test with the contact margin; plane-sphere test if one geom is a plane
            s = sphere_slack(A, rbound, xpos, xmat, a, b, mg + gp)
            if s is not None:
                if abs(s) <= 1e-9 * (1 + mg + gp + rbound[a] + rbound[b]):
                    sphere_borderline.add((a, b))
                if s < 0:
                    P.count("candidates_rejected_by_bounding_sphere_filter")
                    continue
            if ipair >= 0:
                g1, g2 = A["pairs"][ipair][0], A["pairs"][ipair][1]
                g1, g2 = nar.order(g1, g2)
            else:
                g1, g2 = nar.order(a, b)
            n = nar.ncon(g1, g2, mg + gp)
            if n > 0:
                exp[(a, b)] = (g1, g2, n)
        P.count("configs")
        P.count("candidate_pairs_checked", len(cand))
        P.count("pairs_in_contact", len(exp))
        P.count("pairs_in_contact_explicit", sum(1 for kk in exp if cand[kk][0] >= 0))

        def borderline(a, b):
            if (a, b) not in cand:
                return False
            if (a, b) in sphere_borderline:
                return True
            ipair, mg, gp, why = cand[(a, b)]
            g1, g2 = (nar.order(*A["pairs"][ipair][:2]) if ipair >= 0 else nar.order(a, b))
            r = {nar.ncon(g1, g2, mg + gp + e) > 0 for e in (-1e-9, 0.0, 1e-9)}
            return len(r) > 1

        def in_gap_band_under_override(a, b):
            """contact override on, the pair has a gap, and it is in proximity only through the gap (distance > o_margin)"""
            if A["override"] is None or (a, b) not in cand or cand[(a, b)][2] <= 0:
                return False
            ipair, mg, gp, why = cand[(a, b)]
            g1, g2 = (nar.order(*A["pairs"][ipair][:2]) if ipair >= 0 else nar.order(a, b))
            return nar.ncon(g1, g2, mg) == 0

        def classify_missing(a, b):
            """which stage loses the pair: rerun without mid-phase"""
            m.opt["disableflags"] = dis0 | int(E.mjDSBL_MIDPHASE)
            c2 = collide(L, m, d)
            g2 = {(min(x, y), max(x, y)) for x, y in np.array(c2["geom"]).reshape(-1, 2).tolist()}
            m.opt["disableflags"] = dis0 & ~int(E.mjDSBL_MIDPHASE)
            ba, bb = int(A["geom_bodyid"][a]), int(A["geom_bodyid"][b])
            multi = m["body_geomnum"][ba] > 1 or m["body_geomnum"][bb] > 1
            kind = "explicit-pair" if cand[(a, b)][0] >= 0 else "body-pair"
            flagsd = ("+override" if A["override"] is not None else "") + ("+gap" if cand[(a, b)][2] > 0 else "")
            # depth inside the detection distance, from the direct collider call
            ipair_, mg_, gp_, _w = cand[(a, b)]
            o1, o2 = (nar.order(*A["pairs"][ipair_][:2]) if ipair_ >= 0 else nar.order(a, b))
            nn = nar.ncon(o1, o2, mg_ + gp_)
            depth = mg_ + gp_ - min(nar.buf[10 * i] for i in range(nn)) if nn > 0 else 0.0
            reach = float(max(np.abs(xpos[a]).max(), np.abs(xpos[b]).max()) + rbound[a] + rbound[b] + mg_ + gp_)
            if (a, b) not in g2 and depth <= 2.0 ** -22 * reach:
                # the sweep-and-prune end points are stored as float: an overlap below the float32 resolution of the coordinate is lost
                return "sap-float32-endpoints-drop-pair-overlapping-by-less-than-float-resolution"
            if in_gap_band_under_override(a, b):
                return "gap-band-pair-dropped-under-contact-override:" + ("mid-phase" if (a, b) in g2 else "broad-phase")
            if (a, b) in g2:
                return "dropped-by-mid-phase:%s%s" % (kind, flagsd)
            return "dropped-before-narrow-phase(broad-phase-or-filter):%s:%s%s" % (kind, "multi-geom-body" if multi else "single-geom-bodies", flagsd)

        def beyond_margin(a, b):
            """the shapes are provably farther apart than the detection distance (the collider over-reported proximity)"""
            ipair, mg, gp, why = cand[(a, b)]
            sep = certified_separation(L, m, dn, A, xpos, xmat, a, b, 2 * (mg + gp) + 1.0)
            return sep > (mg + gp) * (1 + 1e-9) + 1e-12

        nbad = 0
        for kk in exp:
            if kk not in eng:
                if borderline(*kk):
                    P.count("tolerated_borderline")
                    continue
                if beyond_margin(*kk):
                    P.count("tolerated_collider_reports_contact_but_shapes_provably_beyond_margin")
                    P.count("tolerated_collider_overreport_types_%d_%d" % tuple(sorted((int(A["geom_type"][kk[0]]), int(A["geom_type"][kk[1]])))))
                    continue
                nbad += 1
                if nbad <= 3:
                    a, b = kk
                    cm = classify_missing(a, b)
                    P.violation(cm if cm.startswith(("gap-band-pair", "sap-float32")) else "pair-within-margin-has-no-contact:" + cm,
                                wit(config=k, pair=list(kk), geoms=[gname(a), gname(b)], margin=cand[kk][1], gap=cand[kk][2], ncon_direct=exp[kk][2], midphase=True))
        for kk in eng:
            if kk not in exp:
                if borderline(*kk):
                    P.count("tolerated_borderline")
                    continue
                nbad += 1
                if nbad <= 3:
                    a, b = kk
                    why = reason(a, b)
                    why = "not-within-margin" if why == "candidate" else why
                    P.violation("contact-for-pair-the-rules-exclude:" + why, wit(config=k, pair=list(kk), geoms=[gname(a), gname(b)], midphase=True))
        # contact count and parameters of matching pairs
        for kk, idx in eng.items():
            if kk in exp and len(idx) != exp[kk][2]:
                if not borderline(*kk):
                    P.violation("contact-count-differs-from-direct-collider-call", wit(config=k, pair=list(kk), pipeline=len(idx), direct=exp[kk][2]))
                    break
        for kk, idx in eng.items():
            if kk in cand:
                ipair, mg, gp, why = cand[kk]
                if con_inc[idx[0]] != mg:
                    P.violation("contact-margin-not-the-%s-margin" % ("explicit-pair" if ipair >= 0 else "summed-geom"),
                                wit(config=k, pair=list(kk), includemargin=float(con_inc[idx[0]]), expected=mg))
                    break
                if ipair >= 0 and con_dim[idx[0]] != int(m["pair_dim"][ipair]):
                    P.violation("explicit-pair-contact-does-not-use-pair-condim", wit(config=k, pair=list(kk), dim=int(con_dim[idx[0]])))
                    break
        # ---- determinism: repeated run, other data, recompiled model
        con_b = collide(L, m, d)
        if contact_key(con_b) != key_mid:
            P.violation("contact-list-differs-between-repeated-mj_collision-calls", wit(config=k))
        d2 = m.make_data()
        d2["qpos"][:] = d["qpos"]
        if m.n("nmocap"):
            d2["mocap_pos"][:] = d["mocap_pos"]
            d2["mocap_quat"][:] = d["mocap_quat"]
        kinematics(L, m, d2)
        if contact_key(collide(L, m, d2)) != key_mid:
            P.violation("contact-list-differs-between-two-mjData", wit(config=k))
        d2.free()
        if k == 0 or c.get("recompile_all"):
            if m2 is None:
                m2 = L.load_xml_string(xml)
                m2.opt["enableflags"] = int(m2.opt["enableflags"]) & ~int(E.mjENBL_SLEEP)
            m2.opt["disableflags"] = dis0 & ~int(E.mjDSBL_MIDPHASE)
            d3 = m2.make_data()
            d3["qpos"][:] = d["qpos"]
            if m.n("nmocap"):
                d3["mocap_pos"][:] = d["mocap_pos"]
                d3["mocap_quat"][:] = d["mocap_quat"]
            kinematics(L, m2, d3)
            if contact_key(collide(L, m2, d3)) != key_mid:
                P.violation("contact-list-differs-for-recompiled-model", wit(config=k))
            d3.free()
            P.count("recompile_twins")
        # ---- mid-phase disabled: same set
        m.opt["disableflags"] = dis0 | int(E.mjDSBL_MIDPHASE)
        con_n = collide(L, m, d)
        gn = np.array(con_n["geom"]).reshape(-1, 2)
        setn = {(min(a, b), max(a, b)) for a, b in gn.tolist()}
        if setn != set(eng):
            diff = sorted(setn ^ set(eng))
            diff = [kk for kk in diff if not borderline(*kk) and not (kk in cand and beyond_margin(*kk))]
            if diff:
                a, b = diff[0]
                P.violation("gap-band-pair-dropped-under-contact-override:mid-phase-toggle" if ((a, b) in setn and in_gap_band_under_override(a, b)) else
                            "pair-set-differs-with-mid-phase-toggled:" + ("only-without-mid-phase" if (a, b) in setn else "only-with-mid-phase"),
                            wit(config=k, pair=[a, b], geoms=[gname(a), gname(b)], in_reference=(a, b) in exp))
        P.count("midphase_order_equal", int(gn.shape == order_mid.shape and (gn == order_mid).all()))
        m.opt["disableflags"] = dis0
        nontriv = len(exp) > 0 and len(exp) < len(cand)
        P.case(key="%d|%s|%d|%d%d%d" % (c["seed"], c["gen"], k, A["filterparent_disabled"], A["override"] is not None, A["contact_disabled"]), nontrivial=nontriv,
               sample={"gen": c["gen"], "ngeom": ng, "config": k, "candidates": len(cand), "in_contact": len(exp), "ncon": int(len(con_b))})
    d.free()
    dn.free()
    m.free()
    if m2 is not None:
        m2.free()
    return P.result()


# ---- driver -----------------------------------------------------------------------------------------------------------------
def cases(ctx):
    rng = ctx.rng
    cs = []
    n = ctx.pick(150, 3000)
    gens = ["cluster", "line", "spread", "cluster", "line", "cloud", "pile", "cluster", "touch", "spread", "tabletop"]
    sizes = [20, 40, 80, 30, 150, 120, 60, 300]
    for i in range(n):
        g = gens[i % len(gens)]
        ngeom = sizes[(i // len(gens) + i) % len(sizes)]
        if ctx.quick and ngeom > 150 and i % 5:
            ngeom = 100
        cs.append({"gen": g, "seed": int(rng.integers(0, 2 ** 31)), "ngeom": ngeom, "nconf": 3 if ngeom <= 150 else 2})
    return cs


def run(ctx):
    build.ensure("rel")
    ctx.extra["reference_self_test"] = CF.self_test()
    cs = cases(ctx)
    res = par.run("vf.props.c14", "worker", cs, nproc=ctx.pick(8, 12), timeout=ctx.pick(300, 900))
    for c, r in zip(cs, res):
        if r is None:
            ctx.inconclusive("worker returned nothing")
        elif "crash" in r:
            ctx.count("worker_crash")
            ctx.inconclusive("worker crashed (seed %d): %s" % (c["seed"], r["crash"][-300:]))
        elif "exception" in r:
            ctx.count("harness_exception")
            ctx.inconclusive("harness exception: " + r["exception"] + " " + r.get("trace", "")[-600:])
        else:
            ctx.merge(r)
    sk = ctx.counters.get("skipped_engine_warning", 0)
    if sk > 0.1 * max(1, ctx.counters.get("configs", 0)):
        ctx.inconclusive("too many configurations skipped on engine warnings (%d)" % sk)
    ctx.min_nontrivial = ctx.pick(200, 4000)


def replay(ctx, path):
    rec = json.load(open(path))
    c = rec["detail"]["case"]
    c["xml"] = rec["detail"]["xml"]
    ctx.merge(worker(c))
    ctx.min_nontrivial = 1
