"""C04 Staged and split pipeline calls equal the monolithic call."""
import json

import numpy as np

from .. import build, common, core, drv, par
from ..gen import corpus, model
from ..mjconst import E
from . import c01

LEVEL = "exploration"
RULE = ("twin-data comparison (bitwise, vf.common.outputs): a source mjData is driven by a random call history and "
        "duplicated with mj_copyData; (a) twin A gets new ctrl/qfrc_applied/xfrc_applied and mj_step, twin B mj_step1, "
        "the same inputs, mj_step2 (Euler/implicit/implicitfast, 1-4 steps); (b) after a full mj_forward / mj_inverse "
        "the inputs the skipped stage does not read are perturbed identically in both twins (qvel,act,ctrl,forces after "
        "mjSTAGE_POS; act,ctrl,forces after mjSTAGE_VEL; qacc for inverse), A runs mj_forwardSkip/mj_inverseSkip(stage, "
        "skipsensor), B the same function with mjSTAGE_NONE; (c) mjSTATE_INTEGRATION before/after mj_forward; (d) with "
        "mjDSBL_WARMSTART two consecutive mj_forward calls. Half of the generated models carry sensors that force the "
        "lazy quantities (energy, subtree velocities, rnepost). distinct = (model, option vector, check kind, stage, "
        "skipsensor); non-trivial = nv>0 and the compared call ran without engine error")
ASSUMPTIONS = [
    "RK4 is excluded from the step1/step2 comparison (doc: mj_step2 'RK4 defaults to Euler')",
    "sleeping is disabled in every case (doc simulation.rst 'Violated assumptions / Pipeline stages': the step1/step2 split assumption is violated by sleeping)",
    "mjcb_control and all other callbacks unset (their placement in step1 vs forward differs by design)",
    "memory the engine allocates but does not define is not an output (vf.common.outputs); because twins are mj_copyData copies, arrays that a call leaves stale are equal in both and are therefore included (qfrc_inverse, qH, qDeriv, qLU)",
    "contact.H (cone Hessian) is Newton-solver scratch, defined only for elliptic contacts in the CONE state during a Newton iteration (mjdata.h: 'set by mj_constraintUpdate'); it is not compared",
    "with skipsensor=1 neither call evaluates sensors: sensordata, the lazily evaluated quantities that only sensors request (subtree_linvel/angmom, cacc, cfrc_int/ext, energy when mjENBL_ENERGY is off) and the flg_* bookkeeping flags are not outputs of such a call and are excluded for skipsensor=1 only",
]

KINDS = ["step_split", "fwdskip", "fwdskip", "invskip", "fwd_state", "fwd_idem"]
LAZY_SENSORS = ["e_potential", "e_kinetic", "subtreelinvel", "subtreeangmom", "subtreecom", "accelerometer", "force", "torque",
                "framelinacc", "frameangacc", "framelinvel", "frameangvel", "velocimeter", "gyro", "actuatorfrc", "tendonvel",
                "jointvel", "actuatorvel", "jointactuatorfrc", "jointlimitfrc", "tendonlimitfrc", "touch", "clock"]
ALL_COND = tuple(sorted(common.CONDITIONAL))
# quantities that only sensors (or the energy flag) cause to be evaluated, and the bookkeeping flags of that lazy
# evaluation: with skipsensor=1 neither the skipped nor the full call defines them
SENSOR_OWNED = ("sensordata", "s.flg_energypos", "s.flg_energyvel", "s.flg_subtreevel", "s.flg_rnepost", "subtree_linvel",
                "subtree_angmom", "cacc", "cfrc_int", "cfrc_ext")
_SENS = {}


def sensor_at(m, idx):
    """type name of the sensor that owns sensordata[idx]."""
    if not _SENS:
        _SENS.update({v: k for k, v in E.all().items() if k.startswith("mjSENS_")})
    adr, dim, typ = m["sensor_adr"], m["sensor_dim"], m["sensor_type"]
    for i in range(m.n("nsensor")):
        if adr[i] <= idx < adr[i] + dim[i]:
            return _SENS.get(int(typ[i]), "type%d" % int(typ[i])), int(m["sensor_needstage"][i])
    return "?", -1


def outs(m, d):
    """vf.common.outputs with every conditional array, without contact.H: the cone Hessian is Newton-solver scratch
    (written only for elliptic contacts that are in the CONE state during a Newton iteration, only its dim x dim
    prefix); every other slot keeps whatever an earlier solve or the contact construction left there, and the two
    twins run different call sequences."""
    o = common.outputs(d, include=ALL_COND)
    o.pop("contact.H", None)
    return o


def field_sig(m, fd):
    f = fd["field"].split("[")[0]
    if (f == "s.energy" and fd.get("index") == 1 and not int(m.opt["enableflags"]) & E.mjENBL_ENERGY and m.n("nsensor")
            and (m["sensor_type"] == E.mjSENS_E_KINETIC).any()):
        # with mjENBL_ENERGY off, energy[1] is evaluated only by the e_kinetic sensor: same mechanism
        fd["via"] = "energy[1] is evaluated only by the e_kinetic sensor when mjENBL_ENERGY is off"
        return "sensordata:mjSENS_E_KINETIC"
    if f == "sensordata" and fd.get("index", -1) >= 0:
        t, ns = sensor_at(m, fd["index"])
        fd["sensor_type"], fd["sensor_needstage"] = t, ns
        return "sensordata:" + t
    return f

STEP_INTEGRATORS = ["mjINT_EULER", "mjINT_IMPLICIT", "mjINT_IMPLICITFAST"]


def _load(L, c):
    if c["kind"] == "corpus":
        return L.load_xml(str(build.REPO / c["path"]))
    rng = np.random.default_rng(c["mseed"])
    over = {}
    if c.get("lazy"):
        over = dict(sensors=12, sensor_kinds=LAZY_SENSORS, sites=0.8)
    xml, tags = model.gen_profile(rng, c["profile"], **over)
    c["_xml"] = xml
    return L.load_xml_string(xml)


def set_forces(rng, m, d, act=False, qvel=False, qacc=False):
    """new values for the inputs of the acceleration stage (and optionally velocity / qacc)."""
    nu, nv, nb, na = m.n("nu"), m.n("nv"), m.n("nbody"), m.n("na")
    if nu:
        d["ctrl"][:] = rng.normal(size=nu)
    if nv:
        d["qfrc_applied"][:] = rng.normal(size=nv) * 0.5 * (rng.random(nv) < 0.5)
    if nb > 1:
        x = d["xfrc_applied"]
        x[:] = 0
        for _ in range(int(rng.integers(0, 3))):
            x[int(rng.integers(1, nb))] = rng.normal(size=6)
    if act and na:
        d["act"][:] = d["act"] + rng.normal(size=na) * 0.05
    if qvel and nv:
        d["qvel"][:] = d["qvel"] + rng.normal(size=nv) * 0.3
    if qacc and nv:
        d["qacc"][:] = d["qacc"] + rng.normal(size=nv)


def worker(c):
    P = core.Part()
    L = drv.Lib("rel")
    try:
        m = _load(L, c)
    except drv.MjError:
        P.count("model_rejected")
        return P.result()
    rng = np.random.default_rng(c["seed"])
    opts = common.random_options(rng, m, integrators=STEP_INTEGRATORS + ["mjINT_RK4"], sleep=False) if c.get("randopt") else {}
    # sleeping off (documented exception)
    if int(m.opt["enableflags"]) & E.mjENBL_SLEEP:
        m.opt["enableflags"] = int(m.opt["enableflags"]) & ~E.mjENBL_SLEEP
        P.count("sleep_flag_cleared")
    if c.get("energy"):
        m.opt["enableflags"] = int(m.opt["enableflags"]) | E.mjENBL_ENERGY
        opts["energy_forced"] = True
    name = c.get("path") or ("gen:%s:%d" % (c["profile"], c["mseed"]))
    optkey = json.dumps(opts, sort_keys=True)
    nv = m.n("nv")
    INT = E.mjSTATE_INTEGRATION
    dis0 = int(m.opt["disableflags"])
    int0 = int(m.opt["integrator"])
    for t in range(c["ntwin"]):
        kind = c.get("only") or KINDS[int(rng.integers(0, len(KINDS)))]
        ops = c01._history(rng, m, int(rng.integers(1, 7)))
        stage = [E.mjSTAGE_POS, E.mjSTAGE_VEL][int(rng.integers(0, 2))]
        ss = int(rng.integers(0, 2))
        nstep = int(rng.integers(1, 5))
        pseed = int(rng.integers(0, 2 ** 31))
        rounds = int(rng.integers(1, 4))
        pert_act = bool(rng.random() < 0.5)
        m.opt["disableflags"] = dis0
        m.opt["integrator"] = int0
        if kind == "step_split" and int0 == E.mjINT_RK4:
            m.opt["integrator"] = getattr(E, STEP_INTEGRATORS[int(rng.integers(0, 3))])
        if kind == "fwd_idem":
            m.opt["disableflags"] = dis0 | E.mjDSBL_WARMSTART
        wit = {"model": name, "xml": c.get("_xml"), "options": opts, "kind": kind, "stage": int(stage), "skipsensor": ss,
               "nstep": nstep, "ops": ops, "integrator": int(m.opt["integrator"]),
               "case": {k: v for k, v in c.items() if not k.startswith("_")}}
        fd = None
        sig = None
        d0 = A = B = None
        try:
            d0 = m.make_data()
            c01._run_ops(L, m, d0, ops)
            if kind == "step_split":
                A, B = d0, d0.copy()
                for k in range(nstep):
                    set_forces(np.random.default_rng(pseed + k), m, A)
                    L.call("mj_step", m, A, ret=None)
                    L.call("mj_step1", m, B, ret=None)
                    set_forces(np.random.default_rng(pseed + k), m, B)
                    L.call("mj_step2", m, B, ret=None)
                fd = common.first_diff(outs(m, A), outs(m, B))
                if fd:
                    f = fd["field"].split("[")[0]
                    sig = "step1-step2-differs-from-step:%s" % ("state" if f in ("qpos", "qvel", "act", "s.time", "history") else "output:" + field_sig(m, fd))
            elif kind in ("fwdskip", "invskip"):
                fn = "mj_forwardSkip" if kind == "fwdskip" else "mj_inverseSkip"
                d0.forward()
                if kind == "invskip":
                    d0.inverse()
                A, B = d0, d0.copy()
                for r in range(rounds):
                    for d in (A, B):
                        set_forces(np.random.default_rng(pseed + r), m, d, act=pert_act, qvel=(stage == E.mjSTAGE_POS),
                                   qacc=(kind == "invskip"))
                    L.call(fn, m, A, int(stage), ss, ret=None)
                    L.call(fn, m, B, int(E.mjSTAGE_NONE), ss, ret=None)
                    skip = ()
                    if ss:
                        skip = SENSOR_OWNED + (() if int(m.opt["enableflags"]) & E.mjENBL_ENERGY else ("s.energy",))
                    fd = common.first_diff(outs(m, A), outs(m, B), skip=skip)
                    if fd:
                        break
                if fd:
                    sig = "%s-stage%s-differs-from-full:%s" % (fn, "POS" if stage == E.mjSTAGE_POS else "VEL", field_sig(m, fd))
                    if sig.endswith("mjSENS_E_KINETIC"):
                        # known mechanism (finding C04-e_kinetic-sensor-in-position-stage): report it, then look past it
                        oa, ob = outs(m, A), outs(m, B)
                        for o in (oa, ob):
                            sd = o["sensordata"].copy()
                            for i in np.flatnonzero(m["sensor_type"] == E.mjSENS_E_KINETIC):
                                sd[int(m["sensor_adr"][i])] = 0
                            o["sensordata"] = sd
                        fd2 = common.first_diff(oa, ob, skip=tuple(skip) + ("s.energy",))
                        if fd2:
                            w2 = dict(wit, diff=fd2)
                            P.violation("%s-stage%s-differs-from-full:%s" % (fn, "POS" if stage == E.mjSTAGE_POS else "VEL",
                                                                             field_sig(m, fd2)), w2)
            elif kind == "fwd_state":
                set_forces(np.random.default_rng(pseed), m, d0, act=True, qvel=True)
                s0 = d0.get_state(INT)
                which = int(rng.integers(0, 3))
                if which == 0:
                    d0.forward()
                elif which == 1:
                    d0.forward()
                    L.call("mj_forwardSkip", m, d0, int(stage), ss, ret=None)
                else:
                    L.call("mj_forwardSkip", m, d0, int(E.mjSTAGE_NONE), 1, ret=None)
                s1 = d0.get_state(INT)
                if s0.tobytes() != s1.tobytes():
                    i = int(np.flatnonzero(s0.view(np.uint64) != s1.view(np.uint64))[0])
                    # name the component
                    off, comp = 0, "?"
                    for b in range(14):
                        n = L.call("mj_stateSize", m, 1 << b)
                        if off <= i < off + n:
                            comp = ["time", "qpos", "qvel", "act", "history", "qacc_warmstart", "ctrl", "qfrc_applied",
                                    "xfrc_applied", "eq_active", "mocap_pos", "mocap_quat", "userdata", "plugin_state"][b]
                            break
                        off += n
                    fd = {"field": comp, "index": i - off, "a": float(s0[i]), "b": float(s1[i])}
                    sig = "forward-changes-integration-state:%s" % comp
            elif kind == "fwd_idem":
                set_forces(np.random.default_rng(pseed), m, d0, act=True, qvel=True)
                d0.forward()
                o1 = outs(m, d0)
                d0.forward()
                fd = common.first_diff(o1, outs(m, d0))
                if fd:
                    sig = "forward-not-idempotent-without-warmstart:%s" % field_sig(m, fd)
        except drv.MjError as e:
            P.count("engine_error_skipped")
            P.count("engine_error:" + str(e).split(":")[0][:40])
            P.case(nontrivial=False)
            for d in (A, B, d0):
                if d is not None:
                    d.free()
            continue
        dd = A if A is not None else d0
        P.case(key="%s|%s|%s|%s|%s" % (name, optkey, kind, int(stage) if "skip" in kind else "-", ss if "skip" in kind else "-"),
               nontrivial=nv > 0, sample={"model": name, "options": opts, "kind": kind, "stage": int(stage), "skipsensor": ss,
                                          "nefc": dd.s("nefc"), "ncon": dd.s("ncon"), "nsensor": m.n("nsensor")})
        P.count("kind_" + kind)
        if "skip" in kind:
            P.count("%s_stage%d_ss%d" % (kind, int(stage), ss))
        if dd.s("nefc") > 0:
            P.count("with_constraints")
        if m.n("nsensor"):
            P.count("with_sensors")
        if c.get("lazy"):
            P.count("with_lazy_sensors")
        if m.opt["integrator"] in (E.mjINT_IMPLICIT, E.mjINT_IMPLICITFAST) and kind == "step_split":
            P.count("step_split_implicit")
        if fd is not None:
            wit["diff"] = fd
            P.violation(sig, wit)
        for d in {id(x): x for x in (A, B, d0) if x is not None}.values():
            d.free()
    m.opt["disableflags"] = dis0
    m.free()
    return P.result()


def cases(ctx):
    cs = []
    rng = ctx.rng
    corp = [c for c in corpus.loadable() if c["nv"] <= ctx.pick(150, 400)]
    idx = rng.permutation(len(corp))
    for i in range(ctx.pick(120, len(corp))):
        c = corp[int(idx[i % len(corp)])]
        cs.append({"kind": "corpus", "path": c["path"], "seed": int(rng.integers(0, 2 ** 31)), "randopt": i % 3 != 0,
                   "energy": i % 4 == 1, "ntwin": ctx.pick(4, 10)})
    for i in range(ctx.pick(500, 3000)):
        prof = ["rich", "contact", "smooth"][i % 3]
        cs.append({"kind": "gen", "profile": prof, "mseed": int(rng.integers(0, 2 ** 31)), "seed": int(rng.integers(0, 2 ** 31)),
                   "randopt": True, "lazy": (i // 3) % 2 == 0, "energy": i % 4 == 1, "ntwin": ctx.pick(6, 10)})
    return cs


def run(ctx):
    build.ensure("rel")
    cs = cases(ctx)
    res = par.run("vf.props.c04", "worker", cs, nproc=16, timeout=ctx.pick(300, 900))
    for c, r in zip(cs, res):
        if r is None:
            ctx.inconclusive("worker returned nothing")
        elif "crash" in r:
            ctx.count("worker_crash")
            ctx.inconclusive("worker crashed: rc=%s %s" % (r.get("rc"), r["crash"][-300:]))
        elif "exception" in r:
            ctx.count("harness_exception")
            ctx.inconclusive("harness exception in worker: " + r["exception"])
        else:
            ctx.merge(r)
    n = max(1, ctx.evaluations)
    if ctx.counters.get("engine_error_skipped", 0) > 0.2 * n:
        ctx.inconclusive("too many cases skipped because of engine errors")
    ctx.min_nontrivial = ctx.pick(1500, 15000)


def replay(ctx, path):
    rec = json.load(open(path))
    det = rec["detail"]
    c = det["case"]
    c["ntwin"] = max(c.get("ntwin", 6), 6)
    ctx.merge(worker(c))
    ctx.min_nontrivial = 1
