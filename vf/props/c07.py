"""C07 Kinematics and Jacobians are consistent with positions."""
import ctypes
import json

import numpy as np

from .. import build, core, drv, par
from ..gen import corpus
from ..mjconst import E
from ..ref import rbd
from . import c06

LEVEL = "exploration"
RULE = ("derivative oracle + reference model: for a (generated kinematic tree | corpus model) x random configuration/velocity, every "
        "frame is checked to be a proper rotation equal to its quaternion and to the numpy forward kinematics of vf/ref/rbd.py; every "
        "Jacobian (mj_jac at random points, jacBody/BodyCom/Geom/Site/SubtreeCom/PointAxis, sparse and pair variants, tendon and "
        "constraint rows) is compared column by column with the centred finite difference of the engine's own positions/orientations "
        "along mj_integratePos(q, e_i, +-eps) (confirmed with a second step size) and with the reference Jacobian; cvel and "
        "mj_objectVelocity with J*qvel; mj_jacDot with the finite difference of J along qvel and the reference; mj_differentiatePos "
        "with mj_integratePos. distinct = (model, configuration index, flavour); non-trivial = nv>0")
ASSUMPTIONS = [
    "orientation Jacobians are compared through log(R(q+) R(q-)^T)/(2 eps) (rotation vectors, world frame)",
    "a finite-difference comparison counts only when two step sizes (1e-6, 1e-5) agree with each other to 1e-4 relative; otherwise the "
    "column/row is skipped and counted (non-smooth residuals: contact switching, ball-limit at zero angle, tendon wrap switching)",
    "constraint rows: only rows whose efc_pos is documented as a position residual are differentiated: equality rows, joint/tendon limit "
    "rows and the first (normal) row of each contact with the elliptic/frictionless cone; friction rows are not derivatives of a position",
    "contact normal rows are differentiated only for plane/sphere/capsule pairs, where the reported distance is the exact common-normal "
    "distance; for box/cylinder/ellipsoid/mesh pairs the penetration depth is not a smooth function whose gradient is the contact normal",
    "objects whose local frame is within the compiler's frame tolerance (1e-6) of the body or inertial frame are flagged mjtSameFrame and "
    "their global pose is copied from that frame; for flagged objects the reference comparison uses 5e-6 instead of 1e-9",
    "a finite difference also needs the forward and backward one-sided differences to agree (the centred difference of a kink, e.g. a "
    "tendon passing exactly through the centre of its wrapping sphere at qpos0, is not a derivative)",
    "a mismatch is not counted where the engine's own Jacobian is discontinuous (its jump between q and q+-1e-6 is at least half the mismatch), e.g. the "
    "arbitrary wrap plane chosen when both tendon end points and the sphere centre are exactly collinear (mju_wrap: 'if (p0, p1) parallel: "
    "different normal'); such singular configurations are counted",
    "cameras in tracking/targeting modes are compared for rotation properness only (their pose is not a fixed offset in the body frame)",
    "sleeping disabled; flex models skipped; tolerance 1e-6 relative for finite differences, 1e-9 for the reference-model comparison",
]

FD_RTOL = 1e-6
REF_RTOL = 1e-9
EPS1, EPS2 = 1e-6, 1e-5


def _kin(L, m, d):
    L.call("mj_kinematics", m, d, ret=None)
    L.call("mj_comPos", m, d, ret=None)
    L.call("mj_camlight", m, d, ret=None)
    L.call("mj_tendon", m, d, ret=None)


def _rotvecs(Rp, Rm):
    """log(Rp Rm^T) for stacks of 3x3 matrices -> (n,3)"""
    R = np.einsum("nij,nkj->nik", Rp, Rm)
    w = 0.5 * np.stack([R[:, 2, 1] - R[:, 1, 2], R[:, 0, 2] - R[:, 2, 0], R[:, 1, 0] - R[:, 0, 1]], axis=1)
    s = np.linalg.norm(w, axis=1)
    c = 0.5 * (np.trace(R, axis1=1, axis2=2) - 1)
    ang = np.arctan2(s, c)
    f = np.where(s > 1e-12, ang / np.where(s > 1e-12, s, 1), 1.0)
    return w * f[:, None]


class Snap:
    """positions/orientations of everything after kinematics at one configuration"""

    def __init__(self, m, d):
        self.xpos = np.array(d["xpos"]).reshape(-1, 3)
        self.xmat = np.array(d["xmat"]).reshape(-1, 3, 3)
        self.xipos = np.array(d["xipos"]).reshape(-1, 3)
        self.ximat = np.array(d["ximat"]).reshape(-1, 3, 3)
        self.com = np.array(d["subtree_com"]).reshape(-1, 3)
        self.gpos = np.array(d["geom_xpos"]).reshape(-1, 3)
        self.gmat = np.array(d["geom_xmat"]).reshape(-1, 3, 3)
        self.spos = np.array(d["site_xpos"]).reshape(-1, 3)
        self.smat = np.array(d["site_xmat"]).reshape(-1, 3, 3)
        self.cpos = np.array(d["cam_xpos"]).reshape(-1, 3)
        self.cmat = np.array(d["cam_xmat"]).reshape(-1, 3, 3)
        self.tlen = np.array(d["ten_length"]).ravel()
        self.tJ = c06.dense_ten_J(m, d) if len(self.tlen) else None


def _jac(L, m, d, fn, *args, rot=True):
    nv = m.n("nv")
    jp = np.zeros((3, nv))
    jr = np.zeros((3, nv)) if rot else None
    L.call(fn, m, d, jp, jr, *args, ret=None)
    return jp, jr


def _dense_efc_J(m, d, nefc):
    nv = m.n("nv")
    af = d.arena_fields()
    J = np.zeros((nefc, nv))
    if nefc == 0:
        return J
    raw = d.arena("efc_J", af).ravel()
    if int(m.opt["jacobian"]) == E.mjJAC_SPARSE or (int(m.opt["jacobian"]) == E.mjJAC_AUTO and nv >= 60):
        nnz, adr, col = d.arena("efc_J_rownnz", af).ravel(), d.arena("efc_J_rowadr", af).ravel(), d.arena("efc_J_colind", af).ravel()
        for r in range(nefc):
            a, n = int(adr[r]), int(nnz[r])
            np.add.at(J[r], col[a:a + n], raw[a:a + n])
    else:
        J[:] = raw[:nefc * nv].reshape(nefc, nv)
    return J


def _efc_snapshot(L, m, d):
    """(types, ids, pos, J, rows_to_check) after mj_fwdPosition"""
    nefc = d.s("nefc")
    af = d.arena_fields()
    if nefc == 0:
        return dict(nefc=0, type=np.zeros(0, int), id=np.zeros(0, int), pos=np.zeros(0), con=[])
    typ = np.array(d.arena("efc_type", af)).ravel()[:nefc]
    ids = np.array(d.arena("efc_id", af)).ravel()[:nefc]
    pos = np.array(d.arena("efc_pos", af)).ravel()[:nefc]
    con = d.contacts()
    cinfo = [(int(c["geom"][0]), int(c["geom"][1]), int(c["efc_address"]), int(c["dim"])) for c in con]
    return dict(nefc=nefc, type=typ, id=ids, pos=pos, con=cinfo)


def check_config(L, m, d, d2, T, rng, P, name, witness, nfd, ctests):
    nv, nb = m.n("nv"), m.n("nbody")
    ng, ns, nc, nt = m.n("ngeom"), m.n("nsite"), m.n("ncam"), m.n("ntendon")
    viol = lambda sig, **kw: P.violation(sig, dict(witness, **{k: (v.tolist() if isinstance(v, np.ndarray) else v) for k, v in kw.items()}))
    qpos, qvel = np.array(d["qpos"]), np.array(d["qvel"])
    mp = d["mocap_pos"] if m.n("nmocap") else None
    mq = d["mocap_quat"] if m.n("nmocap") else None
    K = T.fk(qpos, mp, mq)
    S0 = Snap(m, d)
    lscale = 1.0 + np.abs(S0.xpos).max()

    # ---- A. frames: proper rotations, equal to their quaternions, equal to the reference kinematics -------------------------
    xquat = np.array(d["xquat"]).reshape(-1, 4)
    for nm, R in (("xmat", S0.xmat), ("ximat", S0.ximat), ("geom_xmat", S0.gmat), ("site_xmat", S0.smat), ("cam_xmat", S0.cmat)):
        if len(R) == 0:
            continue
        e = np.abs(np.einsum("nji,njk->nik", R, R) - np.eye(3)).max()
        dt = np.linalg.det(R)
        P.note_max("frame_orthonormality_err", e)
        if not np.isfinite(R).all() or e > 1e-10 or (dt <= 0).any():
            viol("frame-not-a-proper-rotation:" + nm, err=float(e), min_det=float(dt.min()))
    e = max(np.abs(S0.xmat[b] - rbd.q2mat(xquat[b])).max() for b in range(nb))
    if e > 1e-12:
        viol("xmat-differs-from-quat2mat-of-xquat", err=float(e))
    e = np.abs(np.linalg.norm(xquat, axis=1) - 1).max()
    if e > 1e-12:
        viol("xquat-not-unit", err=float(e))
    e_pos = np.abs(S0.xpos - K.xpos).max() / lscale
    e_rot = np.abs(S0.xmat - K.xmat).max()
    P.note_max("relerr_fk_vs_ref", max(e_pos, e_rot))
    if e_pos > REF_RTOL or e_rot > REF_RTOL:
        b = int(np.argmax(np.abs(S0.xpos - K.xpos).max(axis=1) / lscale + np.abs(S0.xmat - K.xmat).reshape(nb, -1).max(axis=1)))
        jt = [int(x) for x in m["jnt_type"][m["body_jntadr"][b]:m["body_jntadr"][b] + m["body_jntnum"][b]]]
        viol("body-frame-differs-from-reference-kinematics:" + ("pos" if e_pos > REF_RTOL else "rot"), body=b, jnt_types=jt,
             engine_pos=S0.xpos[b], ref_pos=K.xpos[b], err_pos=float(e_pos), err_rot=float(e_rot))
    # frames the compiler found within kFrameEps=1e-6 of the body / inertial frame are *copied* from it (mjtSameFrame)
    sf_tol = lambda flag: 5e-6 if flag else REF_RTOL
    eb = np.maximum(np.abs(S0.xipos - K.xipos).max(axis=1) / lscale, np.abs(S0.ximat - K.ximat).reshape(nb, -1).max(axis=1))
    tolb = np.array([sf_tol(f) for f in m["body_sameframe"]])
    if (eb > tolb).any():
        viol("inertial-frame-differs-from-reference", err=float(eb.max()), body=int(np.argmax(eb / tolb)))
    if "xanchor" in d.fields() and m.n("njnt"):
        e = max(np.abs(np.array(d["xanchor"]).reshape(-1, 3) - K.xanchor).max() / lscale, np.abs(np.array(d["xaxis"]).reshape(-1, 3) - K.xaxis).max())
        if e > REF_RTOL:
            viol("joint-anchor-or-axis-differs-from-reference", err=float(e))
    for nm, n, bid, lp, lq, wp, wm in (("geom", ng, "geom_bodyid", "geom_pos", "geom_quat", S0.gpos, S0.gmat),
                                       ("site", ns, "site_bodyid", "site_pos", "site_quat", S0.spos, S0.smat),
                                       ("cam", nc, "cam_bodyid", "cam_pos", "cam_quat", S0.cpos, S0.cmat)):
        for i in range(n):
            if nm == "cam" and (m["cam_mode"][i] != E.mjCAMLIGHT_FIXED):
                P.count("skipped_tracking_camera")
                continue
            p, R, _ = T.local2global(K, int(m[bid][i]), m[lp].reshape(-1, 3)[i], m[lq].reshape(-1, 4)[i])
            e = max(np.abs(wp[i] - p).max() / lscale, np.abs(wm[i] - R).max())
            if e > sf_tol(int(m[nm + "_sameframe"][i]) if (nm + "_sameframe") in m else 0):
                viol("%s-frame-differs-from-reference" % nm, index=i, err=float(e), sameframe=int(m[nm + "_sameframe"][i]) if (nm + "_sameframe") in m else -1)
                break
    com_ref = np.array([T.subtree_com(K, b) for b in range(nb)])
    e = np.abs(S0.com - com_ref).max() / lscale
    if e > REF_RTOL:
        viol("subtree_com-differs-from-reference", err=float(e))

    # ---- B. engine Jacobians (all objects) and the reference Jacobian ---------------------------------------------------------
    Jb = [_jac(L, m, d, "mj_jacBody", b) for b in range(nb)]
    Jc = [_jac(L, m, d, "mj_jacBodyCom", b) for b in range(nb)]
    Jsub = []
    for b in range(nb):
        jp = np.zeros((3, nv))
        if m["body_subtreemass"][b] > 0:
            L.call("mj_jacSubtreeCom", m, d, jp, b, ret=None)
        Jsub.append(jp)
    Jg = [_jac(L, m, d, "mj_jacGeom", g) for g in range(ng)]
    Js = [_jac(L, m, d, "mj_jacSite", s) for s in range(ns)]
    Jcam = [_jac(L, m, d, "mj_jac", np.ascontiguousarray(S0.cpos[c]), int(m["cam_bodyid"][c])) for c in range(nc)]
    # random points attached to random bodies
    pts = []
    for _ in range(min(6, nb)):
        b = int(rng.integers(0, nb))
        ploc = rng.normal(size=3) * 0.3
        p = S0.xpos[b] + S0.xmat[b] @ ploc
        pts.append((b, ploc, p, _jac(L, m, d, "mj_jac", np.ascontiguousarray(p), b)))
    jscale = lambda J: 1.0 + np.abs(J).max()

    def cmp_ref(sig, jp, jr, b, p, extra=None):
        rp, rr = T.point_jac(K, b, p)
        e = np.abs(jp - rp).max() / jscale(rp)
        if jr is not None:
            e = max(e, np.abs(jr - rr).max())
        P.note_max("relerr_jac_vs_ref", e)
        if not np.isfinite(jp).all() or e > REF_RTOL:
            col = int(np.argmax(np.abs(jp - rp).max(axis=0) + (np.abs(jr - rr).max(axis=0) if jr is not None else 0)))
            viol("jacobian-differs-from-reference:%s:%s" % (sig, _jname(m, col)), body=int(b), column=col, err=float(e), **(extra or {}))
            return False
        return True

    for b in range(1, nb):
        if not cmp_ref("jacBody", Jb[b][0], Jb[b][1], b, S0.xpos[b]):
            break
        if not cmp_ref("jacBodyCom", Jc[b][0], Jc[b][1], b, S0.xipos[b]):
            break
    for b in range(nb):
        if m["body_subtreemass"][b] > 0:
            rp = T.subtree_com_jac(K, b)
            e = np.abs(Jsub[b] - rp).max() / jscale(rp)
            if e > REF_RTOL:
                viol("jacobian-differs-from-reference:jacSubtreeCom", body=b, err=float(e))
                break
    for g in range(ng):
        if not cmp_ref("jacGeom", Jg[g][0], Jg[g][1], int(m["geom_bodyid"][g]), S0.gpos[g]):
            break
    for s in range(ns):
        if not cmp_ref("jacSite", Js[s][0], Js[s][1], int(m["site_bodyid"][s]), S0.spos[s]):
            break
    for (b, ploc, p, (jp, jr)) in pts:
        cmp_ref("jac", jp, jr, b, p)
        # point/axis variant
        ax = rng.normal(size=3)
        ax /= np.linalg.norm(ax)
        jpt, jax = np.zeros((3, nv)), np.zeros((3, nv))
        L.call("mj_jacPointAxis", m, d, jpt, jax, np.ascontiguousarray(p), np.ascontiguousarray(ax), b, ret=None)
        want = np.cross(jr.T, ax).T
        if np.abs(jpt - jp).max() > 1e-12 * jscale(jp) or np.abs(jax - want).max() > 1e-12:
            viol("jacPointAxis-differs-from-jac-and-cross-product", body=b)
        # sparse variant over the body's dof chain
        chain = np.zeros(max(nv, 1), dtype=np.int32)
        NV = L.call("mj_bodyChain", m, b, chain)
        sp, sr = np.zeros((3, max(NV, 1))), np.zeros((3, max(NV, 1)))
        if NV > 0:
            L.call("mj_jacSparse", m, d, sp, sr, np.ascontiguousarray(p), b, NV, chain, 0, ret=None)
            full_p, full_r = np.zeros((3, nv)), np.zeros((3, nv))
            full_p[:, chain[:NV]] = sp[:, :NV]
            full_r[:, chain[:NV]] = sr[:, :NV]
            if np.abs(full_p - jp).max() > 1e-12 * jscale(jp) or np.abs(full_r - jr).max() > 1e-12:
                viol("jacSparse-differs-from-dense", body=b, NV=int(NV))
        elif np.abs(jp).max() > 0:
            viol("bodyChain-empty-but-jacobian-nonzero", body=b)
        P.count("sparse_chain_checks")
    # pair Jacobian (dense and sparse) = difference of the two point Jacobians
    for _ in range(min(3, max(0, nb - 1))):
        b1, b2 = [int(x) for x in rng.choice(nb, size=2, replace=False)]      # distinct bodies (contact pairs never share a body)
        p1 = S0.xpos[b1] + S0.xmat[b1] @ (rng.normal(size=3) * 0.2)
        p2 = S0.xpos[b2] + S0.xmat[b2] @ (rng.normal(size=3) * 0.2)
        j1p, j1r = _jac(L, m, d, "mj_jac", np.ascontiguousarray(p1), b1)
        j2p, j2r = _jac(L, m, d, "mj_jac", np.ascontiguousarray(p2), b2)
        for issparse in (0, 1):
            chain = np.zeros(2 * nv + 1, dtype=np.int32)
            bufs = [np.zeros((3, 2 * nv + 1)) for _ in range(6)]
            # > 6 integer args: call through ctypes directly (under no error trap; arguments are valid by construction)
            f = getattr(L.lib, "mj_jacDifPair")
            f.restype = ctypes.c_int
            f.argtypes = [ctypes.c_void_p] * 13 + [ctypes.c_int, ctypes.c_int]
            f.argtypes = [ctypes.c_void_p, ctypes.c_void_p, ctypes.c_void_p, ctypes.c_int, ctypes.c_int] + [ctypes.c_void_p] * 8 + [ctypes.c_int, ctypes.c_int]
            pa1, pa2 = np.ascontiguousarray(p1), np.ascontiguousarray(p2)
            NV = f(m.ptr, d.ptr, chain.ctypes.data, b1, b2, pa1.ctypes.data, pa2.ctypes.data, bufs[0].ctypes.data, bufs[1].ctypes.data,
                   bufs[2].ctypes.data, bufs[3].ctypes.data, bufs[4].ctypes.data, bufs[5].ctypes.data, issparse, 0)
            if issparse:
                cols = chain[:NV]
                got_p, got_r = np.zeros((3, nv)), np.zeros((3, nv))
                got_p[:, cols] = bufs[2].ravel()[:3 * NV].reshape(3, NV)
                got_r[:, cols] = bufs[5].ravel()[:3 * NV].reshape(3, NV)
            else:
                got_p = bufs[2].ravel()[:3 * nv].reshape(3, nv)
                got_r = bufs[5].ravel()[:3 * nv].reshape(3, nv)
            if np.abs(got_p - (j2p - j1p)).max() > 1e-12 * jscale(j1p) or np.abs(got_r - (j2r - j1r)).max() > 1e-12:
                viol("jacDifPair-differs-from-jac2-minus-jac1:" + ("sparse" if issparse else "dense"), b1=b1, b2=b2, NV=int(NV))
        P.count("pair_checks")

    # ---- C. finite differences along mj_integratePos(q, e_i, +-eps) ------------------------------------------------------------
    JT = c06.dense_ten_J(m, d)
    dofs = list(range(nv)) if nv <= nfd else sorted(set(int(x) for x in rng.choice(nv, size=nfd, replace=False)))

    def perturbed(vec, eps):
        q2 = np.array(qpos)
        L.call("mj_integratePos", m, q2, np.ascontiguousarray(vec), float(eps), ret=None)
        d2["qpos"][:] = q2
        return q2

    def fd_snap(vec, eps):
        perturbed(vec, eps)
        _kin(L, m, d2)
        sp = Snap(m, d2)
        perturbed(vec, -eps)
        _kin(L, m, d2)
        sm = Snap(m, d2)
        return sp, sm

    def fd_all(sp, sm, eps):
        h = 2 * eps
        return _fd_dict(sp, sm, h)

    def _fd_dict(sp, sm, h):
        return dict(xpos=(sp.xpos - sm.xpos) / h, xrot=_rotvecs(sp.xmat, sm.xmat) / h, xipos=(sp.xipos - sm.xipos) / h,
                    com=(sp.com - sm.com) / h, gpos=(sp.gpos - sm.gpos) / h, grot=_rotvecs(sp.gmat, sm.gmat) / h if ng else np.zeros((0, 3)),
                    spos=(sp.spos - sm.spos) / h, srot=_rotvecs(sp.smat, sm.smat) / h if ns else np.zeros((0, 3)),
                    cpos=(sp.cpos - sm.cpos) / h, tlen=(sp.tlen - sm.tlen) / h,
                    pts=np.array([((sp.xpos[b] + sp.xmat[b] @ pl) - (sm.xpos[b] + sm.xmat[b] @ pl)) / h for (b, pl, p, J) in pts]).reshape(-1, 3))

    if m.n("nmocap"):
        d2["mocap_pos"][:] = d["mocap_pos"]
        d2["mocap_quat"][:] = d["mocap_quat"]
    fixedcam = [c for c in range(nc) if m["cam_mode"][c] == E.mjCAMLIGHT_FIXED]
    for i in dofs:
        e_i = np.zeros(nv)
        e_i[i] = 1.0
        col = dict(xpos=np.array([Jb[b][0][:, i] for b in range(nb)]), xrot=np.array([Jb[b][1][:, i] for b in range(nb)]),
                   xipos=np.array([Jc[b][0][:, i] for b in range(nb)]), com=np.array([Jsub[b][:, i] for b in range(nb)]),
                   gpos=np.array([Jg[g][0][:, i] for g in range(ng)]).reshape(-1, 3), grot=np.array([Jg[g][1][:, i] for g in range(ng)]).reshape(-1, 3),
                   spos=np.array([Js[s][0][:, i] for s in range(ns)]).reshape(-1, 3), srot=np.array([Js[s][1][:, i] for s in range(ns)]).reshape(-1, 3),
                   cpos=np.array([Jcam[c][0][:, i] for c in range(nc)]).reshape(-1, 3), tlen=JT[:, i] if nt else np.zeros(0),
                   pts=np.array([J[0][:, i] for (b, pl, p, J) in pts]).reshape(-1, 3))
        sp1, sm1 = fd_snap(e_i, EPS1)
        f1 = fd_all(sp1, sm1, EPS1)
        f2 = None
        onesided = None
        for key, jc in col.items():
            a = f1[key]
            if key == "com":
                mask = (m["body_subtreemass"] > 0)
                a, jc = a[mask], jc[mask]
            if key == "cpos":
                a, jc = a[fixedcam], jc[fixedcam]
            if a.size == 0:
                continue
            sc = 1.0 + np.abs(jc).max()
            e = np.abs(a - jc).max() / sc
            P.note_max("relerr_jac_vs_fd", e if e < 1e-3 else 0)
            P.count("fd_columns_compared")
            if e > FD_RTOL or not np.isfinite(a).all():
                if f2 is None:
                    f2 = fd_all(*fd_snap(e_i, EPS2), EPS2)
                b2 = f2[key]
                if key == "com":
                    b2 = b2[mask]
                if key == "cpos":
                    b2 = b2[fixedcam]
                if np.abs(a - b2).max() / sc > 1e-4:
                    P.count("skipped_fd_step_sizes_disagree")
                    continue
                if onesided is None:
                    onesided = (_fd_dict(sp1, S0, EPS1), _fd_dict(S0, sm1, EPS1))
                fw, bw = onesided[0][key], onesided[1][key]
                if key == "com":
                    fw, bw = fw[mask], bw[mask]
                if key == "cpos":
                    fw, bw = fw[fixedcam], bw[fixedcam]
                if np.abs(fw - bw).max() / sc > 1e-3:
                    P.count("skipped_fd_kink_at_configuration")
                    continue
                if key == "tlen" and max(np.abs(sp1.tJ[:, i] - jc).max(), np.abs(sm1.tJ[:, i] - jc).max()) > 0.5 * np.abs(a - jc).max():
                    # the engine's own Jacobian jumps at this configuration (degenerate wrap plane): singular point
                    P.count("skipped_jacobian_discontinuous_at_configuration")
                    continue
                idx = int(np.argmax(np.abs(a - jc).reshape(len(a), -1).max(axis=1)))
                viol("jacobian-column-differs-from-finite-difference:%s:%s" % (key, _jname(m, i)), dof=i, object_index=idx, fd=a[idx], jac=jc[idx],
                     relerr=float(e))
    P.count("dofs_differentiated", len(dofs))

    # ---- D. velocities ----------------------------------------------------------------------------------------------------------
    V, Sdot = T.velocities(K, qvel)
    cvel = np.array(d["cvel"]).reshape(-1, 6)
    rootid = m["body_rootid"]
    vscale = 1.0 + np.abs(V).max()
    for b in range(1, nb):
        w, lin = T.point_velocity(V, b, S0.com[rootid[b]])
        e = max(np.abs(cvel[b, :3] - w).max(), np.abs(cvel[b, 3:] - lin).max()) / vscale
        if e > REF_RTOL:
            viol("cvel-differs-from-reference-velocity", body=b, err=float(e))
            break
        e = max(np.abs(cvel[b, :3] - Jb[b][1] @ qvel).max(), np.abs(cvel[b, 3:] - (_jac(L, m, d, "mj_jac", np.ascontiguousarray(S0.com[rootid[b]]), b)[0] @ qvel)).max()) / vscale
        if e > 1e-10:
            viol("cvel-differs-from-J-qvel", body=b, err=float(e))
            break
    objs = [(E.mjOBJ_BODY, b, Jc[b], S0.ximat[b], "body") for b in range(nb)] + [(E.mjOBJ_XBODY, b, Jb[b], S0.xmat[b], "xbody") for b in range(nb)] + \
        [(E.mjOBJ_GEOM, g, Jg[g], S0.gmat[g], "geom") for g in range(ng)] + [(E.mjOBJ_SITE, s, Js[s], S0.smat[s], "site") for s in range(ns)] + \
        [(E.mjOBJ_CAMERA, c, Jcam[c], S0.cmat[c], "camera") for c in fixedcam]
    for (ot, oi, (jp, jr), R, nm) in objs:
        for loc in (0, 1):
            res = np.zeros(6)
            L.call("mj_objectVelocity", m, d, int(ot), int(oi), res, loc, ret=None)
            want = np.concatenate([jr @ qvel, jp @ qvel])
            if loc:
                want = np.concatenate([R.T @ want[:3], R.T @ want[3:]])
            e = np.abs(res - want).max() / vscale
            P.note_max("relerr_objectVelocity", e)
            if e > 1e-10 or not np.isfinite(res).all():
                viol("objectVelocity-differs-from-J-qvel:%s:%s" % (nm, "local" if loc else "world"), index=int(oi), got=res, want=want)
                break
    P.count("object_velocity_checks", len(objs) * 2)

    # ---- E. time derivative of the Jacobian ---------------------------------------------------------------------------------------
    sp, sm = fd_snap(qvel, EPS1)
    Jd_fd = []
    for (b, ploc, p, J) in pts:
        jdp, jdr = np.zeros((3, nv)), np.zeros((3, nv))
        L.call("mj_jacDot", m, d, jdp, jdr, np.ascontiguousarray(p), b, ret=None)
        rp, rr = T.point_jacdot(K, V, Sdot, b, p)
        sc = 1.0 + max(np.abs(rp).max(), np.abs(rr).max())
        e = max(np.abs(jdp - rp).max(), np.abs(jdr - rr).max()) / sc
        P.note_max("relerr_jacDot_vs_ref", e)
        if e > REF_RTOL or not np.isfinite(jdp).all():
            colp = int(np.argmax(np.abs(jdp - rp).max(axis=0) + np.abs(jdr - rr).max(axis=0)))
            viol("jacDot-differs-from-reference:" + _jname(m, colp), body=b, column=colp, err=float(e))
        Jd_fd.append((b, ploc, jdp, jdr, sc))
        # sparse variant
        chain = np.zeros(max(nv, 1), dtype=np.int32)
        NV = L.call("mj_bodyChain", m, b, chain)
        if NV > 0 and not m["body_simple"][b]:
            sp_, sr_ = np.zeros((3, NV)), np.zeros((3, NV))
            L.call("mj_jacDotSparse", m, d, sp_, sr_, np.ascontiguousarray(p), b, NV, chain, ret=None)
            fp, fr = np.zeros((3, nv)), np.zeros((3, nv))
            fp[:, chain[:NV]], fr[:, chain[:NV]] = sp_, sr_
            if np.abs(fp - jdp).max() > 1e-12 * sc or np.abs(fr - jdr).max() > 1e-12 * sc:
                viol("jacDotSparse-differs-from-dense", body=b)
        P.count("jacdot_checks")
    # FD of J along qvel (needs the engine's J at q(+-eps)); d2 currently holds q - eps*qvel
    for sgn, store in ((-1, "m"), (+1, "p")):
        perturbed(qvel, sgn * EPS1)
        _kin(L, m, d2)
        s2 = Snap(m, d2)
        for k in range(len(Jd_fd)):
            b, ploc = Jd_fd[k][0], Jd_fd[k][1]
            p2 = s2.xpos[b] + s2.xmat[b] @ ploc
            Jd_fd[k] = Jd_fd[k] + (_jac(L, m, d2, "mj_jac", np.ascontiguousarray(p2), b),)
    for (b, ploc, jdp, jdr, sc, Jm, Jp) in Jd_fd:
        fp, fr = (Jp[0] - Jm[0]) / (2 * EPS1), (Jp[1] - Jm[1]) / (2 * EPS1)
        e = max(np.abs(fp - jdp).max(), np.abs(fr - jdr).max()) / sc
        P.note_max("relerr_jacDot_vs_fd", e if e < 1e-3 else 0)
        if e > 1e-5:
            colp = int(np.argmax(np.abs(fp - jdp).max(axis=0) + np.abs(fr - jdr).max(axis=0)))
            viol("jacDot-differs-from-finite-difference-of-jac:" + _jname(m, colp), body=b, column=colp, err=float(e))

    # ---- G. configuration-space maps ---------------------------------------------------------------------------------------------
    for h in (1e-3, 0.1, 0.7):
        v = rng.normal(size=nv)
        # keep every rotation below pi
        jt, da = m["jnt_type"], m["jnt_dofadr"]
        for j in range(m.n("njnt")):
            a = da[j] + (3 if jt[j] == E.mjJNT_FREE else 0)
            if jt[j] in (E.mjJNT_FREE, E.mjJNT_BALL):
                nrm = np.linalg.norm(v[a:a + 3]) * h
                if nrm > 3.0:
                    v[a:a + 3] *= 3.0 / nrm
        q2 = np.array(qpos)
        L.call("mj_integratePos", m, q2, v, float(h), ret=None)
        qr = T.integrate_pos(qpos, v, h)
        e = np.abs(q2 - qr).max()
        if e > 1e-12 * (1 + np.abs(qr).max()):
            viol("integratePos-differs-from-reference", h=h, err=float(e), index=int(np.argmax(np.abs(q2 - qr))))
        vb = np.zeros(nv)
        L.call("mj_differentiatePos", m, vb, float(h), np.ascontiguousarray(qpos), q2, ret=None)
        e = np.abs(vb - v).max() / (1 + np.abs(v).max())
        P.note_max("relerr_differentiatePos", e * h)
        if e * h > 1e-10 or not np.isfinite(vb).all():
            i = int(np.argmax(np.abs(vb - v)))
            viol("differentiatePos-does-not-invert-integratePos:" + _jname(m, i), h=h, dof=i, got=float(vb[i]), want=float(v[i]))
        P.count("integrate_roundtrips")

    # ---- H. constraint rows -----------------------------------------------------------------------------------------------------
    if ctests:
        _constraint_rows(L, m, d, d2, rng, P, viol, qpos, nv, perturbed)
    P.count("configs")
    return True


def _jname(m, dof):
    t = int(m["jnt_type"][m["dof_jntid"][dof]])
    nm = {E.mjJNT_FREE: "free", E.mjJNT_BALL: "ball", E.mjJNT_SLIDE: "slide", E.mjJNT_HINGE: "hinge"}[t]
    if t == E.mjJNT_FREE:
        nm += "-rot" if dof - m["jnt_dofadr"][m["dof_jntid"][dof]] >= 3 else "-lin"
    return nm


CNAME = None


def _constraint_rows(L, m, d, d2, rng, P, viol, qpos, nv, perturbed):
    global CNAME
    if CNAME is None:
        CNAME = {E.mjCNSTR_EQUALITY: "equality", E.mjCNSTR_LIMIT_JOINT: "limit-joint", E.mjCNSTR_LIMIT_TENDON: "limit-tendon",
                 E.mjCNSTR_CONTACT_FRICTIONLESS: "contact-normal", E.mjCNSTR_CONTACT_ELLIPTIC: "contact-normal",
                 E.mjCNSTR_CONTACT_PYRAMIDAL: "contact-pyramidal"}
    s0 = _efc_snapshot(L, m, d)
    nefc = s0["nefc"]
    if nefc == 0:
        return
    J = _dense_efc_J(m, d, nefc)
    rows = np.zeros(nefc, dtype=bool)
    rows |= np.isin(s0["type"], [E.mjCNSTR_EQUALITY, E.mjCNSTR_LIMIT_JOINT, E.mjCNSTR_LIMIT_TENDON])
    smooth = (E.mjGEOM_PLANE, E.mjGEOM_SPHERE, E.mjGEOM_CAPSULE)
    gt = m["geom_type"]
    for (g1, g2, adr, dim) in s0["con"]:
        if adr >= 0 and s0["type"][adr] in (E.mjCNSTR_CONTACT_FRICTIONLESS, E.mjCNSTR_CONTACT_ELLIPTIC):
            if g1 >= 0 and g2 >= 0 and gt[g1] in smooth and gt[g2] in smooth:
                rows[adr] = True
            else:
                P.count("skipped_contact_rows_nonsmooth_geom_pair")
    if not rows.any():
        return
    eqtype = m["eq_type"]
    for k in range(3):
        delta = rng.normal(size=nv)

        def fd(eps):
            out = []
            for sgn in (+1, -1):
                perturbed(delta, sgn * eps)
                L.call("mj_fwdPosition", m, d2, ret=None)
                s = _efc_snapshot(L, m, d2)
                if s["nefc"] != nefc or (s["type"] != s0["type"]).any() or (s["id"] != s0["id"]).any() or \
                        [c[:3] for c in s["con"]] != [c[:3] for c in s0["con"]]:
                    return None
                out.append(s["pos"])
            kink.append(np.abs((out[0] - s0["pos"]) - (s0["pos"] - out[1])) / eps)
            return (out[0] - out[1]) / (2 * eps)
        if m.n("neq"):
            d2["eq_active"][:] = d["eq_active"]
        kink = []
        f1 = fd(EPS1)
        if f1 is None:
            P.count("skipped_constraint_set_changes_under_perturbation")
            continue
        want = J @ delta
        sc = 1.0 + np.abs(J).max(axis=1) * np.abs(delta).max()
        e = np.abs(f1 - want) / sc
        P.count("constraint_rows_differentiated", int(rows.sum()))
        badrows = np.flatnonzero(rows & (e > FD_RTOL * 10))
        Jpert = None
        if len(badrows):
            f2 = fd(EPS2)
            for r in badrows:
                if f2 is None or abs(f1[r] - f2[r]) / sc[r] > 1e-4:
                    P.count("skipped_fd_step_sizes_disagree")
                    continue
                if kink[0][r] / sc[r] > 1e-3:
                    P.count("skipped_fd_kink_at_configuration")
                    continue
                if Jpert is None:
                    Jpert = []
                    for sgn in (+1, -1):
                        perturbed(delta, sgn * EPS1)
                        L.call("mj_fwdPosition", m, d2, ret=None)
                        Jpert.append(_dense_efc_J(m, d2, nefc) @ delta if d2.s("nefc") == nefc else None)
                if any(jp is None or abs(jp[r] - want[r]) > 0.5 * abs(f1[r] - want[r]) for jp in Jpert):
                    P.count("skipped_jacobian_discontinuous_at_configuration")
                    continue
                nm = CNAME.get(int(s0["type"][r]), "other")
                if s0["type"][r] == E.mjCNSTR_EQUALITY:
                    nm += ":" + {E.mjEQ_CONNECT: "connect", E.mjEQ_WELD: "weld", E.mjEQ_JOINT: "joint", E.mjEQ_TENDON: "tendon"}.get(int(eqtype[s0["id"][r]]), "other")
                viol("constraint-row-differs-from-derivative-of-residual:" + nm, row=int(r), id=int(s0["id"][r]), fd=float(f1[r]), J_delta=float(want[r]),
                     delta=delta)
                break
        for r in np.flatnonzero(rows):
            P.count("rows_" + CNAME.get(int(s0["type"][r]), "other"))


def worker(c):
    P = core.Part()
    L = drv.Lib(c.get("flavour", "rel"))
    try:
        m = c06.load_case(L, c)
    except drv.MjError as e:
        P.count("model_rejected")
        P.count("model_rejected:" + str(e)[:60])
        return P.result()
    name = c06.case_name(c)
    nv = m.n("nv")
    if nv == 0 or m.n("nflex") > 0 or nv > c.get("nvmax", 400):
        P.count("skipped_nv0" if nv == 0 else ("skipped_flex" if m.n("nflex") else "skipped_large"))
        P.case(nontrivial=False)
        m.free()
        return P.result()
    rng = np.random.default_rng(c["seed"])
    c06.prepare_model(m, rng)
    m.opt["cone"] = E.mjCONE_ELLIPTIC
    if rng.random() < 0.5:
        m.opt["jacobian"] = E.mjJAC_SPARSE if rng.random() < 0.5 else E.mjJAC_DENSE
    T = c06.make_tree(m)
    d = m.make_data()
    d2 = m.make_data()
    P.count("models")
    P.count("models_" + c["kind"])
    P.note_max("nv", nv)
    for jt, nm in ((E.mjJNT_FREE, "free"), (E.mjJNT_BALL, "ball"), (E.mjJNT_SLIDE, "slide"), (E.mjJNT_HINGE, "hinge")):
        if (m["jnt_type"] == jt).any():
            P.count("models_with_" + nm)
    if (m["body_jntnum"] > 1).any():
        P.count("models_with_multi_joint_bodies")
    if m.n("ncam"):
        P.count("models_with_cameras")
    for k in range(c["nconf"]):
        r = np.random.default_rng(int(rng.integers(0, 2 ** 31)))
        witness = {"model": name, "xml": c.get("_xml"), "flavour": c.get("flavour", "rel"), "config": k,
                   "case": {kk: vv for kk, vv in c.items() if not kk.startswith("_")}}
        try:
            d.reset()
            d2.reset()
            if k == 0 and c["kind"] == "corpus" and r.random() < 0.5:
                q = np.array(m["qpos0"])
            else:
                q = c06.random_qpos(r, m, T, spread=c.get("spread", 1.0) * (0.3 if c.get("contacts") else 1.0))
            d["qpos"][:] = q
            d["qvel"][:] = r.normal(size=nv) * r.choice([0.3, 2.0])
            c06.set_mocap(r, m, d)
            if m.n("neq") and r.random() < 0.7:
                d["eq_active"][:] = 1
            c06.fwd_pos_vel(L, m, d)
            check_config(L, m, d, d2, T, r, P, name, witness, c.get("nfd", 12), c.get("ctests", True))
        except drv.MjError as e:
            P.count("engine_error_skipped")
            P.count("engine_error:" + str(e).split(":")[0][:40])
            P.case(nontrivial=False)
            d = m.make_data()
            d2 = m.make_data()
            continue
        P.case(key="%s|%d|%s" % (name, k, c.get("flavour", "rel")), nontrivial=True,
               sample={"model": name, "nv": nv, "config": k, "flavour": c.get("flavour", "rel")})
    d.free()
    d2.free()
    m.free()
    return P.result()


def cases(ctx):
    cs = []
    rng = ctx.rng
    corp = [c for c in corpus.loadable() if c["nv"] > 0 and c["nflex"] == 0]
    nvmax = ctx.pick(80, 300)
    for c in corp:
        if c["nv"] > nvmax:
            continue
        cs.append({"kind": "corpus", "path": c["path"], "seed": int(rng.integers(0, 2 ** 31)), "nconf": ctx.pick(1, 3), "nvmax": nvmax,
                   "nfd": ctx.pick(8, 24)})
    for i in range(ctx.pick(110, 1000)):
        con = i % 5 == 3
        over = dict(equalities=3, limits=0.5)
        if con:
            over.update(contacts=True, scale=1.0, geoms=["sphere", "capsule", "sphere", "capsule", "box"], free=0.8)
        if i % 3 == 0:
            over.update(tendon_wrap=0.4)
        cs.append({"kind": "gen", "profile": ["kin", "smooth"][i % 2], "mseed": int(rng.integers(0, 2 ** 31)), "shape": int(i // 2 % len(c06.SHAPES)),
                   "tarm": False, "actarm": False, "pball": [0.1, 0.3, 0.6][i % 3], "pfree": [0.2, 0.5, 0.9][(i // 3) % 3], "parm": 0.2,
                   "over": over, "contacts": con, "seed": int(rng.integers(0, 2 ** 31)), "nconf": ctx.pick(2, 4), "nfd": ctx.pick(10, 24)})
    return cs


def run(ctx):
    build.ensure("rel")
    build.ensure("scalar")
    ctx.extra["reference_self_test"] = {k: float(v) for k, v in rbd.self_test().items()}
    cs = cases(ctx)
    if not c06.run_batched(ctx, "vf.props.c07", cs):
        return
    idx = ctx.rng.permutation(len(cs))[:ctx.pick(40, 400)]
    cs2 = [dict(cs[int(i)], flavour="scalar", nconf=1) for i in idx]
    res2 = par.run("vf.props.c07", "worker", cs2, nproc=16, timeout=ctx.pick(300, 900))
    c06._collect(ctx, cs2, res2)
    nskip = ctx.counters.get("skipped_fd_step_sizes_disagree", 0)
    ncmp = ctx.counters.get("fd_columns_compared", 0) + ctx.counters.get("constraint_rows_differentiated", 0)
    if nskip > 0.02 * max(1, ncmp):
        ctx.inconclusive("too many finite-difference comparisons skipped (%d of %d)" % (nskip, ncmp))
    if ctx.counters.get("engine_error_skipped", 0) > 0.1 * max(1, ctx.counters.get("configs", 0)):
        ctx.inconclusive("too many configurations skipped on engine errors")
    ctx.min_nontrivial = ctx.pick(250, 3000)


def replay(ctx, path):
    rec = json.load(open(path))
    c = rec["detail"]["case"]
    if rec["detail"].get("xml") and c["kind"] == "gen":
        c["xml"] = rec["detail"]["xml"]
    ctx.merge(worker(c))
    ctx.min_nontrivial = 1
