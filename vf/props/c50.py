"""C50 Visualization scene construction is bounded and faithful."""
import ctypes as C
import json
import re
import os
import threading
import xml.etree.ElementTree as ET

import numpy as np

from .. import build, common, core, drv, nat, par
from ..gen import corpus, model
from ..mjconst import E

LEVEL = "exploration"
RULE = ("models: generated MJCF (rich/contact/kin profiles, post-processed with geom groups -2..9 (outside 0..5 is legal and clamped), materials, alpha-0 geoms, "
        "finite and infinite planes on the world and on static child bodies, sites, cameras, lights) and small shipped corpus "
        "models (tendons, flex, skins, plugins); states: reset, random state, after stepping (contacts). For every (model, "
        "state, option vector) the needed geom count N is measured on a large scene and mjv_updateScene is run on a FRESH "
        "scene of capacity c for EVERY c in 0..N+2: in the optimized build the geoms buffer is harness-owned with a "
        "guard zone behind element c, in the ASan build it is the exact-size buffer from mjv_makeScene. Option vectors: "
        "(a) 'geoms only' (all vis flags off except optionally Static, random geomgroup mask, all other groups off, "
        "catmask variants) where the scene is compared with an independent expectation built from mjModel/mjData, "
        "(b) random full vectors over all mjtVisFlag, all group masks, frame, label, catmask, perturbation, camera type. "
        "distinct = (model, state kind, option class, kind of element that overflows first); non-trivial = N > 0")
ASSUMPTIONS = [
    "overflow report = mjvScene.status != 0 ('0: ok, 1: geoms exhausted, warning issued', mjvisualize.h) plus one mju_warning; "
    "mjWARN_VGEOMFULL no longer exists in this tree (changelog: 'Exhaustion of visual geoms is now handled internally by the mjvScene')",
    "geoms whose effective rgba (geom rgba, or material rgba when the geom rgba is the internal default) has alpha 0 are "
    "'invisible geoms' (XMLreference: 'geoms whose rgba (or whose material rgba) has alpha=0'; 'An alpha value of 0 disables the "
    "rendering of the corresponding object') and are expected to be absent",
    "category of geoms on jointless child bodies of the world is accepted as static or dynamic: visualization.rst says "
    "mjCAT_STATIC 'selects MuJoCo geoms and sites belonging to the world body', the source says 'a body is static if it is welded to the world'",
    "elements added by a plugin's visualize callback (mjv_updateScene: 'trigger plugin visualization hooks', e.g. the touch_grid sensor) are not "
    "governed by mjvOption and are tolerated in the 'geoms only' configuration of models that have plugins",
    "slider-crank actuators are drawn unconditionally with the dynamic category (no vis flag exists for them): tolerated as "
    "extra non-geom elements in the 'geoms only' configuration",
    "infinite planes (a zero half-size, 'the plane is rendered as infinite in the dimension(s) with 0 size') are re-centred "
    "under the camera: their pos may differ from geom_xpos only along the infinite in-plane axes",
    "mjvGeom is single precision: reference values are cast to float32 before the exact comparison",
    "sphere/capsule/cylinder sizes are expanded for XYZ scaling (r,r,r)/(r,r,h) as documented in mjv_initGeom's source comment",
    "a scene truncated at capacity c must be the first c geoms of the full scene (result depends on model, data and options only)",
]

BIG = 4000
GUARD = 6
_NAMES = {}


def _names():
    if not _NAMES:
        a = E.all()
        _NAMES["obj"] = {v: k[6:].lower() for k, v in a.items() if k.startswith("mjOBJ_")}
        _NAMES["geom"] = {v: k[7:].lower() for k, v in a.items() if k.startswith("mjGEOM_")}
    return _NAMES


class Pert(C.Structure):
    _fields_ = [("select", C.c_int), ("flexselect", C.c_int), ("skinselect", C.c_int), ("active", C.c_int), ("active2", C.c_int),
                ("refpos", C.c_double * 3), ("refquat", C.c_double * 4), ("refselpos", C.c_double * 3),
                ("localpos", C.c_double * 3), ("localmass", C.c_double), ("scale", C.c_double)]


class Cam(C.Structure):
    _fields_ = [("type", C.c_int), ("fixedcamid", C.c_int), ("trackbodyid", C.c_int), ("lookat", C.c_double * 3),
                ("distance", C.c_double), ("azimuth", C.c_double), ("elevation", C.c_double), ("orthographic", C.c_int)]


# --------------------------------------------------------------------------------------- models

def _decorate(xml, rng):
    """add visualisation-relevant features to a generated model"""
    root = ET.fromstring(xml)
    asset = root.find("asset")
    if asset is None:
        asset = ET.SubElement(root, "asset")
    ET.SubElement(asset, "material", {"name": "vm_solid", "rgba": "0.2 0.6 0.3 1", "texrepeat": "7 3"})
    ET.SubElement(asset, "material", {"name": "vm_invisible", "rgba": "0.9 0.1 0.1 0"})
    ET.SubElement(asset, "material", {"name": "vm_half", "rgba": "0.1 0.1 0.9 0.5", "emission": "0.3"})
    wb = root.find("worldbody")
    for g in wb.iter("geom"):
        r = rng.random()
        if r < 0.45:
            g.set("group", str(int(rng.integers(-2, 10))))
        r = rng.random()
        if r < 0.10:
            g.set("rgba", "0.3 0.3 0.3 0")                       # invisible through its own rgba
        elif r < 0.18:
            g.set("material", "vm_invisible")                    # invisible through the material
        elif r < 0.25:
            g.set("material", "vm_invisible")
            g.set("rgba", "0.7 0.2 0.2 0.8")                     # geom rgba overrides: visible
        elif r < 0.35:
            g.set("material", str(rng.choice(["vm_solid", "vm_half"])))
        elif r < 0.40:
            g.set("material", "vm_solid")
            g.set("rgba", "0.1 0.1 0.1 0")                       # geom rgba overrides: invisible
    nopl = {"contype": "0", "conaffinity": "0"}
    kinds = ["0 0 0.1", "0 2 0.1", "1.5 0 0.1", "0.7 0.4 0.1"]
    for j in range(int(rng.integers(1, 4))):
        a = dict(nopl, type="plane", name="vplane%d" % j, size=kinds[int(rng.integers(0, 4))],
                 pos=model.f(rng.normal(size=3) * 0.7 - [0, 0, 1.0]), quat=model.f(model.rquat(rng)),
                 group=str(int(rng.integers(-2, 10))))
        if rng.random() < 0.5:
            a["material"] = "vm_solid"
        host = wb
        if rng.random() < 0.4:
            host = ET.SubElement(wb, "body", {"name": "vstatic%d" % j, "pos": model.f(rng.normal(size=3) * 0.3)})
            ET.SubElement(host, "site", {"name": "vsite%d" % j, "type": "box", "size": "0.02 0.03 0.01"})
            ET.SubElement(host, "geom", dict(nopl, name="vsgeom%d" % j, type="box", size="0.05 0.02 0.03",
                                             group=str(int(rng.integers(-2, 10)))))
        ET.SubElement(host, "geom", a)
    if rng.random() < 0.6:
        ET.SubElement(wb, "light", {"pos": "0 0 3", "dir": "0 0 -1"})
    if rng.random() < 0.6:
        ET.SubElement(wb, "camera", {"name": "vcam", "pos": "1 -1 1", "xyaxes": "1 1 0 -1 1 2"})
    return ET.tostring(root, encoding="unicode")


def _load(L, c):
    if c["kind"] == "corpus":
        return L.load_xml(str(build.REPO / c["path"])), c["path"]
    rng = np.random.default_rng(c["mseed"])
    xml, tags = model.gen_profile(rng, c["profile"], geom_group=0.3, cameras=0.3, lights=0.2, sites=0.6)
    xml = _decorate(xml, rng)
    return L.load_xml_string(xml), "gen:%s:%d" % (c["profile"], c["mseed"])


# --------------------------------------------------------------------------------------- scenes

class Scene:
    """a fresh mjvScene of capacity `cap`; guard=True: harness-owned geoms buffer with a canary zone behind element cap"""

    def __init__(self, L, m, cap, guard):
        self.L, self.cap, self.guard = L, cap, guard
        sz = L.offsetof("sizeof.mjvScene")
        self.gsz = L.offsetof("sizeof.mjvGeom")
        self.buf = np.zeros(sz + 64, dtype=np.uint8)
        L.call("mjv_defaultScene", self.buf, ret=None)
        self.rec = self.buf[:sz].view(L.layout("mjvScene"))
        if guard:
            L.call("mjv_makeScene", m, self.buf, 0, ret=None)
            self.gbuf = np.full((cap + GUARD) * self.gsz, 0xA5, dtype=np.uint8)
            self.order = np.full(cap + GUARD, 0x5A5A5A5A, dtype=np.int32)
            self.rec["maxgeom"] = cap
            self.rec["geoms"] = self.gbuf.ctypes.data
            self.rec["geomorder"] = self.order.ctypes.data
        else:
            L.call("mjv_makeScene", m, self.buf, cap, ret=None)

    def ngeom(self):
        return int(self.rec["ngeom"][0])

    def status(self):
        return int(self.rec["status"][0])

    def guard_ok(self):
        if not self.guard:
            return True
        return bool((self.gbuf[self.cap * self.gsz:] == 0xA5).all()) and bool((self.order[self.cap:] == 0x5A5A5A5A).all())

    def geoms(self):
        n = max(0, min(self.ngeom(), self.cap))
        dt = self.L.layout("mjvGeom")
        # byte copy (a structured copy would skip the bytes between the fields listed in the layout)
        if n == 0:
            return np.zeros(0, dtype=dt)
        if self.guard:
            return self.gbuf[:n * self.gsz].copy().view(dt)
        return drv._view(int(self.rec["geoms"][0]), np.uint8, (n * self.gsz,)).copy().view(dt)

    def free(self):
        if self.guard:
            self.rec["maxgeom"] = 0
            self.rec["geoms"] = 0
            self.rec["geomorder"] = 0
        self.L.call("mjv_freeScene", self.buf, ret=None)


def _update(L, m, d, o, cap, guard, again=False):
    """one mjv_updateScene on a fresh scene (again=True: a second call on the same scene object, whose result is returned);
    returns dict(ngeom, status, geoms, nwarn, warn, guard_ok)"""
    s = Scene(L, m, cap, guard)
    try:
        L.call("mjv_updateCamera", m, d, o["cam"], s.buf, ret=None)     # prime scn->camera (used to re-centre infinite planes)
        L.clear_messages()
        L.call("mjv_updateScene", m, d, o["opt"], o["pert"], o["cam"], o["catmask"], s.buf, ret=None)
        if again:
            L.call("mjv_updateScene", m, d, o["opt"], o["pert"], o["cam"], o["catmask"], s.buf, ret=None)
        r = dict(ngeom=s.ngeom(), status=s.status(), nwarn=L.warnings(), warn=L.last_warning(), guard_ok=s.guard_ok(),
                 nlight=int(s.rec["nlight"][0]))
        r["geoms"] = s.geoms()
        return r
    finally:
        s.free()


def _update_after_overflow(L, m, d, o_big, o_small, cap, guard):
    """history on ONE scene object: an update that overflows the buffer (options o_big at capacity cap), then an update with options
    o_small; returns the second result (the scene is a function of model, data and options only, not of what was rendered before)"""
    s = Scene(L, m, cap, guard)
    try:
        L.call("mjv_updateCamera", m, d, o_big["cam"], s.buf, ret=None)
        L.call("mjv_updateScene", m, d, o_big["opt"], o_big["pert"], o_big["cam"], o_big["catmask"], s.buf, ret=None)
        first = dict(ngeom=s.ngeom(), status=s.status())
        L.call("mjv_updateCamera", m, d, o_small["cam"], s.buf, ret=None)
        L.clear_messages()
        L.call("mjv_updateScene", m, d, o_small["opt"], o_small["pert"], o_small["cam"], o_small["catmask"], s.buf, ret=None)
        r = dict(ngeom=s.ngeom(), status=s.status(), guard_ok=s.guard_ok(), first=first)
        r["geoms"] = s.geoms()
        return r
    finally:
        s.free()


def _mkopt(L, m, spec):
    """spec (JSON-able) -> dict(opt, pert, cam, catmask) of engine structs"""
    lay = L.layout("mjvOption")
    ob = np.zeros(L.offsetof("sizeof.mjvOption") + 64, dtype=np.uint8)
    L.call("mjv_defaultOption", ob, ret=None)
    rec = ob[:lay.itemsize].view(lay)
    rec["label"] = spec["label"]
    rec["frame"] = spec["frame"]
    for k in ("geomgroup", "sitegroup", "jointgroup", "tendongroup", "actuatorgroup", "flexgroup", "skingroup"):
        rec[k][0][:] = spec[k]
    rec["flags"][0][:] = spec["flags"]
    rec["bvh_depth"] = spec.get("bvh_depth", 1)
    rec["flex_layer"] = spec.get("flex_layer", 0)
    assert C.sizeof(Pert) == L.offsetof("sizeof.mjvPerturb") and C.sizeof(Cam) == L.offsetof("sizeof.mjvCamera")
    pert = None
    if spec.get("pert") is not None:
        pb = np.zeros(C.sizeof(Pert) + 64, dtype=np.uint8)
        L.call("mjv_defaultPerturb", pb, ret=None)
        p = Pert.from_address(pb.ctypes.data)
        ps = spec["pert"]
        p.select, p.active, p.active2 = ps["select"], ps["active"], ps["active2"]
        p.refselpos[:] = ps["refselpos"]
        p.localpos[:] = ps["localpos"]
        p.refquat[:] = ps["refquat"]
        pert = pb
    cb = np.zeros(C.sizeof(Cam) + 64, dtype=np.uint8)
    L.call("mjv_defaultFreeCamera", m, cb, ret=None)
    cam = Cam.from_address(cb.ctypes.data)
    cs = spec.get("cam") or {}
    if cs.get("type") == "fixed":
        cam.type, cam.fixedcamid = E.mjCAMERA_FIXED, cs["id"]
    elif cs.get("type") == "tracking":
        cam.type, cam.trackbodyid = E.mjCAMERA_TRACKING, cs["id"]
    if "azimuth" in cs:
        cam.azimuth, cam.elevation, cam.distance = cs["azimuth"], cs["elevation"], cam.distance * cs["dist"]
    return dict(opt=ob, pert=pert, cam=cb, catmask=spec["catmask"], spec=spec, rec=rec)


def _geoms_only_spec(rng, m):
    ng, nf = E.mjNGROUP, E.mjNVISFLAG
    flags = [0] * nf
    flags[E.mjVIS_STATIC] = int(rng.random() < 0.75)
    mask = [int(x) for x in (rng.random(ng) < rng.choice([0.3, 0.5, 0.8]))]
    if rng.random() < 0.15:
        mask = [1] * ng
    spec = dict(klass="geoms-only", label=int(rng.choice([0, E.mjLABEL_GEOM])), frame=0, geomgroup=mask, flags=flags,
                catmask=int(rng.choice([7, 7, 3, 2, 1, 6, 5])))
    for k in ("sitegroup", "jointgroup", "tendongroup", "actuatorgroup", "flexgroup", "skingroup"):
        spec[k] = [0] * ng
    spec["pert"] = None if rng.random() < 0.5 else _pert_spec(rng, m)
    spec["cam"] = _cam_spec(rng, m)
    return spec


def _pert_spec(rng, m):
    q = rng.normal(size=4)
    return dict(select=int(rng.integers(0, m.n("nbody"))), active=int(rng.integers(0, 4)), active2=int(rng.integers(0, 4)),
                refselpos=[float(x) for x in rng.normal(size=3)], localpos=[float(x) for x in rng.normal(size=3) * 0.1],
                refquat=[float(x) for x in q / np.linalg.norm(q)])


def _cam_spec(rng, m):
    r = rng.random()
    cs = dict(azimuth=float(rng.uniform(-180, 180)), elevation=float(rng.uniform(-89, 10)), dist=float(rng.uniform(0.3, 3)))
    if r < 0.25 and m.n("ncam") > 0:
        return dict(type="fixed", id=int(rng.integers(0, m.n("ncam"))))
    if r < 0.4 and m.n("nbody") > 1:
        cs.update(type="tracking", id=int(rng.integers(1, m.n("nbody"))))
    return cs


def _full_spec(rng, m, everything=False):
    ng, nf = E.mjNGROUP, E.mjNVISFLAG
    p = 1.0 if everything else float(rng.choice([0.3, 0.6, 0.9]))
    spec = dict(klass="all-on" if everything else "random", label=int(rng.integers(0, E.mjNLABEL)), frame=int(rng.integers(0, E.mjNFRAME)),
                flags=[int(x) for x in (rng.random(nf) < p)], catmask=7 if everything or rng.random() < 0.6 else int(rng.integers(0, 8)),
                bvh_depth=int(rng.integers(0, 4)), flex_layer=int(rng.integers(0, 3)))
    for k in ("geomgroup", "sitegroup", "jointgroup", "tendongroup", "actuatorgroup", "flexgroup", "skingroup"):
        spec[k] = [int(x) for x in (rng.random(ng) < p)]
    spec["pert"] = _pert_spec(rng, m) if (everything or rng.random() < 0.6) else None
    if everything and spec["pert"]["select"] == 0 and m.n("nbody") > 1:
        spec["pert"]["select"] = 1
        spec["pert"]["active"] = 3
    spec["cam"] = _cam_spec(rng, m)
    return spec


# --------------------------------------------------------------------------------------- reference

def _expected_geoms(m, d, o):
    """independent expectation for the 'geoms only' configuration.
    returns dict geom id -> dict(req='must'|'absent'|'either', ...)"""
    spec = o["spec"]
    ng = E.mjNGROUP
    catmask = spec["catmask"]
    if not spec["flags"][E.mjVIS_STATIC]:
        catmask &= ~E.mjCAT_STATIC
    grp, body, weld = m["geom_group"], m["geom_bodyid"], m["body_weldid"]
    rgba, matid = m["geom_rgba"].reshape(-1, 4), m["geom_matid"]
    mat_rgba = m["mat_rgba"].reshape(-1, 4) if m.n("nmat") else np.zeros((0, 4), np.float32)
    out = {}
    for i in range(m.n("ngeom")):
        b = int(body[i])
        if b == 0:
            cats = (E.mjCAT_STATIC,)
        elif int(weld[b]) != 0:
            cats = (E.mjCAT_DYNAMIC,)
        else:
            cats = (E.mjCAT_STATIC, E.mjCAT_DYNAMIC)          # jointless child of the world: documentation vs source
        g = min(max(int(grp[i]), 0), ng - 1)
        default = (rgba[i] == np.array([0.5, 0.5, 0.5, 1.0], dtype=np.float32)).all()
        alpha = float(mat_rgba[matid[i], 3]) if (matid[i] >= 0 and default) else float(rgba[i, 3])
        sel = [bool(c & catmask) for c in cats]
        if not spec["geomgroup"][g]:
            req = "absent:disabled-group"
        elif alpha == 0:
            req = "absent:alpha-zero"
        elif all(sel):
            req = "must"
        elif not any(sel):
            req = "absent:masked-category"
        else:
            req = "either"
        out[i] = dict(req=req, cats=cats)
    return out


def _ref_size(t, s):
    s = np.asarray(s, dtype=np.float64)
    if t == E.mjGEOM_SPHERE:
        r = [s[0], s[0], s[0]]
    elif t in (E.mjGEOM_CAPSULE, E.mjGEOM_CYLINDER):
        r = [s[0], s[0], s[1]]
    else:
        r = s[:3]
    return np.asarray(r, dtype=np.float64).astype(np.float32)


def _check_faithful(P, m, d, o, full, det):
    nm = _names()
    exp = _expected_geoms(m, d, o)
    G = full["geoms"]
    seen = {}
    has_crank = bool((m["actuator_trntype"] == E.mjTRN_SLIDERCRANK).any()) if m.n("nu") else False
    for k in range(len(G)):
        g = G[k]
        if int(g["objtype"]) != E.mjOBJ_GEOM:
            if int(g["objtype"]) == E.mjOBJ_ACTUATOR and has_crank:
                P.count("tolerated_slidercrank_elements")
                continue
            if m.n("nplugin") > 0:
                # mjv_updateScene first runs the visualize callbacks of the model's plugins, which may add their own elements
                P.count("tolerated_plugin_visualize_elements")
                continue
            P.violation("geoms-only-scene-contains-other-element:objtype=%s" % nm["obj"].get(int(g["objtype"]), "?"),
                        dict(det, index=k, objtype=int(g["objtype"]), objid=int(g["objid"]), type=int(g["type"])))
            continue
        i = int(g["objid"])
        if i in seen or not (0 <= i < m.n("ngeom")):
            P.violation("geoms-only-scene:duplicate-or-out-of-range-geom-id", dict(det, index=k, objid=i))
            continue
        seen[i] = k
        if int(g["segid"]) != k:
            P.violation("scene-geom-segid-is-not-its-index", dict(det, index=k, segid=int(g["segid"])))
    xpos, xmat = d["geom_xpos"].reshape(-1, 3), d["geom_xmat"].reshape(-1, 9)
    gtype, gsize = m["geom_type"], m["geom_size"].reshape(-1, 3)
    for i, e in exp.items():
        req = e["req"]
        if req == "must" and i not in seen:
            P.violation("geom-set-differs:enabled-geom-missing", dict(det, geom=i, group=int(m["geom_group"][i]), body=int(m["geom_bodyid"][i])))
            continue
        if req.startswith("absent") and i in seen:
            P.violation("geom-set-differs:%s-geom-present" % req.split(":")[1], dict(det, geom=i, group=int(m["geom_group"][i]),
                                                                                 body=int(m["geom_bodyid"][i])))
            continue
        P.count("expect_" + req.replace(":", "_"))
        if i not in seen:
            continue
        g = G[seen[i]]
        t = int(gtype[i])
        if int(g["category"]) not in e["cats"]:
            P.violation("geom-category-differs", dict(det, geom=i, category=int(g["category"]), allowed=e["cats"]))
        if int(g["type"]) != t:
            P.violation("geom-type-differs", dict(det, geom=i, got=int(g["type"]), want=t))
        if not np.array_equal(g["size"], _ref_size(t, gsize[i])):
            P.violation("geom-size-differs:%s" % nm["geom"].get(t, "?"), dict(det, geom=i, got=g["size"], want=_ref_size(t, gsize[i]), model=gsize[i]))
        if not np.array_equal(g["mat"], xmat[i].astype(np.float32)):
            P.violation("geom-pose-differs:mat-is-not-geom_xmat", dict(det, geom=i, got=g["mat"], want=xmat[i]))
        inf = [k for k in (0, 1) if gsize[i][k] <= 0] if t == E.mjGEOM_PLANE else []
        if not inf:
            if not np.array_equal(g["pos"], xpos[i].astype(np.float32)):
                P.violation("geom-pose-differs:pos-is-not-geom_xpos", dict(det, geom=i, type=nm["geom"].get(t), got=g["pos"], want=xpos[i]))
        else:
            # re-centred infinite plane: displacement only along the infinite in-plane axes
            R = xmat[i].reshape(3, 3)
            dl = R.T @ (g["pos"].astype(np.float64) - xpos[i])
            scale = 1e-6 * (1.0 + float(np.abs(xpos[i]).max()) + float(np.abs(dl).max()))
            bad = [k for k in (0, 1, 2) if k not in inf and abs(dl[k]) > scale]
            if bad:
                P.violation("infinite-plane-moved-off-its-plane-or-along-a-finite-axis", dict(det, geom=i, local_displacement=dl, infinite_axes=inf))
            P.count("infinite_planes_checked")
            if float(np.abs(dl).max()) > scale:
                P.count("infinite_planes_recentred")
        P.count("geoms_compared")


def _elem_kind(g):
    nm = _names()
    return "%s/%s/cat%d" % (nm["obj"].get(int(g["objtype"]), "?"), nm["geom"].get(int(g["type"]), str(int(g["type"]))), int(g["category"]))


def _same(a, b):
    return a.shape == b.shape and a.view(np.uint8).tobytes() == b.view(np.uint8).tobytes()


def _sweep(P, L, m, d, o, det, guard, key, small=None):
    """capacity sweep for one (model, state, options); returns the full-scene result or None"""
    big = BIG
    full = _update(L, m, d, o, big, guard)
    while full["status"] and big < 64000:
        big *= 4
        full = _update(L, m, d, o, big, guard)
    if full["status"]:
        P.count("skipped_scene_larger_than_64000")
        return None
    N = full["ngeom"]
    if full["nwarn"]:
        P.violation("warning-without-overflow", dict(det, needed=N, warning=full["warn"]))
    if N > 1200:
        P.count("skipped_sweep_needed_over_1200")
        return full
    # equal inputs, second call (fresh scene): identical scene
    rep = _update(L, m, d, o, big, guard)
    if rep["ngeom"] != N or not _same(rep["geoms"], full["geoms"]) or rep["status"] != full["status"] or rep["nlight"] != full["nlight"]:
        P.violation("repeat-call-with-equal-inputs-gives-different-scene", dict(det, n1=N, n2=rep["ngeom"]))
    # ... and a second call on the same scene object replaces the first result instead of appending to it
    rep2 = _update(L, m, d, o, N + 2, guard, again=True)
    if rep2["ngeom"] != N or not _same(rep2["geoms"], full["geoms"]) or rep2["status"] or not rep2["guard_ok"]:
        P.violation("second-update-of-the-same-scene-differs-from-the-first", dict(det, n1=N, n2=rep2["ngeom"], status=rep2["status"]))
    first_kinds = set()
    for c in range(0, N + 3):
        r = _update(L, m, d, o, c, guard)
        cd = dict(det, capacity=c, needed=N, ngeom=r["ngeom"], status=r["status"])
        over = N > c
        kind = _elem_kind(full["geoms"][c]) if over else "none"
        if not r["guard_ok"]:
            P.violation("write-past-geoms-capacity:guard-zone-modified:" + kind, cd)
        if r["ngeom"] > c:
            P.violation("ngeom-exceeds-capacity:" + kind, cd)
        if over and not r["status"]:
            P.violation("overflow-not-flagged-in-status:" + kind, cd)
        if r["status"] and (r["nwarn"] != 1 or "full" not in r["warn"]):
            P.violation("overflow-flagged-without-single-warning", dict(cd, nwarn=r["nwarn"], warning=r["warn"]))
        if not over and (r["status"] or r["nwarn"]):
            if c == N and r["ngeom"] == c and r["status"] and r["nwarn"] == 1:
                # the buffer is exactly full and a further element (e.g. an alpha-0 geom that is dropped later) was requested:
                # 'geoms exhausted' is true, nothing was lost -> tolerated
                P.count("tolerated_exactly_full_buffer_flagged")
            else:
                P.violation("status-or-warning-set-while-buffer-not-full", dict(cd, nwarn=r["nwarn"], warning=r["warn"]))
        n = min(c, N)
        if r["ngeom"] <= c and (r["ngeom"] != n or not _same(r["geoms"], full["geoms"][:n])):
            P.violation("truncated-scene-is-not-the-prefix-of-the-full-scene:" + kind, cd)
        if over:
            first_kinds.add(kind)
        P.count("updates_at_capacity")
    # history independence: after an overflowing update, a later update of the SAME scene object with options that fit must give
    # exactly what a fresh scene gives (ngeom is reset by every update; 'status' is a sticky diagnostic and is not compared)
    if small is not None and N >= 2:
        fs = _update(L, m, d, small, big, guard)
        n2 = fs["ngeom"]
        if not fs["status"] and n2 < N:
            cap = max(n2, (n2 + N) // 2) if n2 + 1 < N else n2      # n2 <= cap < N: the first update overflows, the second fits
            if cap < N:
                r2 = _update_after_overflow(L, m, d, o, small, cap, guard)
                P.count("updates_after_an_overflow_on_the_same_scene")
                if not r2["first"]["status"]:
                    P.count("history_case_first_update_did_not_overflow")
                elif r2["ngeom"] != n2 or not _same(r2["geoms"], fs["geoms"]) or not r2["guard_ok"]:
                    P.violation("update-after-an-overflow-on-the-same-scene-differs-from-a-fresh-scene",
                                dict(det, capacity=cap, needed_first=N, needed_second=n2, got=r2["ngeom"]))
    P.note_max("needed_geoms", N)
    for k in first_kinds:
        P.case("%s|overflow-at:%s" % (key, k), nontrivial=True)
    return full


def _state(L, m, d, kind, rng):
    d.reset()
    if kind == "random":
        common.random_state(rng, m, d, vel_scale=1.0)
        common.random_controls(rng, m, d)
        d.forward()
    elif kind == "stepped":
        common.random_state(rng, m, d, vel_scale=0.5)
        common.random_controls(rng, m, d)
        d.step(int(rng.integers(5, 60)))
        d.forward()
    else:
        d.forward()


def worker(c):
    P = core.Part()
    flavour = c.get("flavour", "rel")
    L = drv.Lib(flavour)
    guard = flavour != "asan"
    try:
        m, name = _load(L, c)
    except drv.MjError as e:
        P.count("model_rejected")
        return P.result()
    if m.n("ngeom") > c.get("max_ngeom", 200):
        P.count("skipped_model_too_large")
        return P.result()
    rng = np.random.default_rng(c["seed"])
    d = m.make_data()
    for si, skind in enumerate(c["states"]):
        try:
            _state(L, m, d, skind, rng)
        except drv.MjError:
            P.count("skipped_state_engine_error")
            d.free()
            d = m.make_data()
            continue
        if not np.isfinite(d["qpos"]).all() or not np.isfinite(d["geom_xpos"]).all():
            P.count("skipped_state_not_finite")
            continue
        specs = [_geoms_only_spec(rng, m) for _ in range(c["n_geoms_only"])]
        specs += [_full_spec(rng, m, everything=True)] if c.get("all_on", True) else []
        specs += [_full_spec(rng, m) for _ in range(c["n_random"])]
        opts_cache = [_mkopt(L, m, sp) for sp in specs]
        for oi, spec in enumerate(specs):
            o = opts_cache[oi]
            small = opts_cache[(oi + 1) % len(opts_cache)] if len(opts_cache) > 1 else None     # another option vector (history relation)
            det = dict(case=c, model=name, state=skind, state_index=si, option_index=oi, options=spec)
            key = "%s|%s|%s" % (name, skind, spec["klass"])
            try:
                full = _sweep(P, L, m, d, o, det, guard, key, small=small)
                if full is not None and spec["klass"] == "geoms-only":
                    _check_faithful(P, m, d, o, full, det)
            except drv.MjError as e:
                P.count("skipped_engine_error_in_updateScene")
                P.count("engine_error:" + str(e)[:60])
                d.free()
                d = m.make_data()
                _state(L, m, d, "reset", rng)
                continue
            if full is None:
                continue
            P.case(key + "|n>0", nontrivial=full["ngeom"] > 0,
                   sample=dict(model=name, state=skind, options=spec["klass"], needed=full["ngeom"], ngeom_model=m.n("ngeom")))
            P.count("option_vectors:" + spec["klass"])
            for g in full["geoms"]:
                P.count("elements:" + _names()["obj"].get(int(g["objtype"]), "?"))
    d.free()
    m.free()
    return P.result()


def _sig(x):
    """sanitizer signature without scratch-directory prefixes"""
    return re.sub(r"/[^ :]*?/(src|plugin|include)/", r"\1/", x)


def _collect(ctx, pairs):
    for c, r in pairs:
        if r is None:
            ctx.inconclusive("worker returned nothing")
        elif "crash" in r and r.get("rc") == "timeout":
            ctx.count("worker_watchdog_timeouts")
            ctx.inconclusive("wall-clock watchdog fired for %s" % {k: c[k] for k in c if k in ("kind", "path", "mseed", "flavour")})
        elif "crash" in r:
            body = r["crash"]
            reps = nat.san_reports(nat.symbolize_offline(body[-12000:])) if nat.SAN_RE.search(body) else []
            if reps:
                ctx.violation("sanitizer-report-while-building-scene:%s" % _sig(reps[0][1]), {"case": c, "report": reps[0][2][:3000]})
            else:
                ctx.violation("crash-while-building-scene", {"case": c, "rc": r.get("rc"), "stderr": "\n".join(body.splitlines()[-40:])})
        elif "exception" in r:
            ctx.inconclusive("harness exception: " + r["exception"] + r.get("trace", "")[-600:])
        else:
            if c.get("flavour") == "asan":
                ctx.count("asan_cases")
                ctx.count("asan_updates_at_capacity", r.get("counters", {}).get("updates_at_capacity", 0))
            ctx.merge(r)


def _corpus():
    if os.environ.get("VERIF_REPO"):
        files = sorted(build.BUILD.glob("corpus-*.json"), key=lambda p: p.stat().st_mtime)
        if files:
            return json.loads(files[-1].read_text())
    return corpus.loadable()


def run(ctx):
    rng = ctx.rng
    cs = []
    base = dict(states=["reset", "random", "stepped"], n_geoms_only=ctx.pick(4, 6), n_random=ctx.pick(4, 6), max_ngeom=ctx.pick(60, 200))
    for i in range(ctx.pick(60, 400)):
        cs.append(dict(base, kind="gen", profile=["rich", "contact", "kin", "rich"][i % 4], mseed=int(rng.integers(0, 2 ** 31)),
                       seed=int(rng.integers(0, 2 ** 31))))
    corp = [c for c in _corpus() if c["ngeom"] <= base["max_ngeom"] and c["nv"] < 150 and c["nbody"] < 80]
    idx = rng.permutation(len(corp))
    for i in idx[: ctx.pick(16, 140)]:
        cs.append(dict(base, kind="corpus", path=corp[int(i)]["path"], seed=int(rng.integers(0, 2 ** 31)), states=["reset", "stepped"]))
    na = ctx.pick(12, 80)
    pick = [cs[int(i)] for i in rng.permutation(len(cs))[:na]]
    acs = [dict(c, flavour="asan", states=c["states"][-2:], n_geoms_only=1, n_random=1) for c in pick]
    box = {}
    th = threading.Thread(target=lambda: box.update(ares=par.run("vf.props.c50", "worker", acs, nproc=ctx.pick(4, 6), timeout=ctx.pick(900, 3000),
                                                                   asan=True, chunk=ctx.pick(3, 4))))
    th.start()
    res = par.run("vf.props.c50", "worker", cs, nproc=ctx.pick(8, 10), timeout=ctx.pick(600, 2400))
    th.join()
    ares = box.get("ares") or [None] * len(acs)
    _collect(ctx, list(zip(cs, res)) + list(zip(acs, ares)))
    nsk = sum(v for k, v in ctx.counters.items() if k.startswith("skipped_"))
    if nsk > 0.2 * max(1, ctx.evaluations):
        ctx.inconclusive("too many skipped cases (%d of %d)" % (nsk, ctx.evaluations))
    if not ctx.counters.get("asan_updates_at_capacity"):
        ctx.inconclusive("no capacity sweep ran under ASan")
    ctx.min_nontrivial = ctx.pick(60, 600)


def replay(ctx, path):
    rec = json.load(open(path))
    c = rec["detail"]["case"]
    if c.get("flavour") == "asan":
        _collect(ctx, [(c, par.run("vf.props.c50", "worker", [c], nproc=1, timeout=3000, asan=True)[0])])
    else:
        ctx.merge(worker(c))
    ctx.min_nontrivial = 1
