"""C39 Virtual file system operations have set semantics."""
import json
import os
import re
import shutil

from .. import build, nat

LEVEL = "exploration"
RULE = ("seeded operation histories (<=25 ops) on one mjVFS: mj_addBufferVFS / mj_addFileVFS / mj_deleteFileVFS / "
        "mj_containsBufferVFS / mj_containsFileVFS / mju_openResource+mju_readResource (resources kept open across later "
        "operations, re-read, closed) / mj_deleteVFS with open resources + mj_defaultVFS, over 14 buffer names, 10 disk files "
        "and 11 query names in the classes {identical, case-only, separator-only ('/' vs '\\\\'), directory-only, '.'/'..' "
        "spelling, unrelated} with contents of 0..64 KiB that are unique per add; a sequential reference dict keyed by the "
        "documented normalisation decides every return code, presence after every operation (sweep over all names) and the "
        "exact bytes read (exact name first, else any entry with the same case-insensitive file name, else the disk file, "
        "else NULL); the source buffer is scribbled after the add; every history ends with a read-back of all entries; "
        "rel and ASan+UBSan+LSan builds. distinct = (flavour, args) batches containing histories with a repeated add and a "
        "delete; per name-class return-code tallies are reported as cls_* counters")
ASSUMPTIONS = [
    "buffer names are compared after path reduction and case-sensitively (user_vfs_test.cc BufferPath opens 'files/../dir/model' for buffer 'dir/model'; ContainsBuffer: 'Model' != 'model')",
    "file names are stripped of their directory and lower-cased (user_vfs_test.cc AddFileStripPath/AddFileRepeat/ContainsFile/DeleteFileStripPath); mj_deleteFileVFS tries the exact name, then the stripped lower-case name",
    "mju_openResource of a name that is not an exact entry may return ANY entry with the same case-insensitive file name (user_vfs.cc 'Legacy use-case: match on just the case-insensitive filename'; iteration order is unspecified) and falls back to the OS file system only when there is none (functions.rst: loaders 'only access the disk if the file is not found in the VFS')",
    "mj_containsBufferVFS on an entry created by mj_addFileVFS and mj_containsFileVFS on an entry created by mj_addBufferVFS are not specified ('Check if buffer exists' / 'Check if file exists'): tolerated and counted",
    "names that are directory prefixes of other names are not generated (mount-point semantics of mj_mountVFS are outside this property)",
    "mj_deleteVFS with open resources is allowed (user_vfs.cc warns 'Resources will be invalidated'); the harness does not touch such resources afterwards",
    "two defect-specific workloads are confined to flagged batches (path-spelling queries of mj_containsBufferVFS, mj_addFileVFS of a missing disk file) so that the remaining histories keep full coverage",
    "deleting a file while a resource opened on it is still open is opt-in (flag 4) and OUTSIDE the verdict: the statement has no memory-safety clause. The batch runs on the rel build only, "
    "ends each history at that delete without touching the stale resource or the VFS again (no use-after-free is executed), and feeds only the counters out_of_scope:resource_open_across_delete*; "
    "write-up: findings/out_of_scope/C39-delete-while-resource-open-use-after-free.md",
]

_SCRATCH_ROOT = "/tmp/vf-c39-%d" % os.getpid()


def _summary(out):
    m = re.search(r"SUMMARY (.*)", out)
    if not m:
        return None
    return dict(kv.split("=", 1) for kv in m.group(1).split())


def _jobs(ctx):
    s = ctx.seed * 1000003
    jobs = []
    nrel, hrel = ctx.pick((8, 2500), (16, 20000))
    for i in range(nrel):
        jobs.append(("rel", ["seq", s + i, hrel, 25, 0]))
    nas, has = ctx.pick((4, 400), (8, 3000))
    for i in range(nas):
        jobs.append(("asan", ["seq", s + 100 + i, has, 25, 0]))
    # defect-specific workloads (see known findings): small batches, the harness stops at the first discrepancy
    for i in range(ctx.pick(1, 3)):
        jobs.append(("rel", ["seq", s + 200 + i, 200, 25, 1]))
        jobs.append(("rel", ["seq", s + 300 + i, 200, 25, 2]))
        jobs.append(("rel", ["seq", s + 400 + i, 200, 25, 4]))    # informational only, see ASSUMPTIONS
    return jobs


def _evaluate(ctx, fl, args, res):
    flags = int(args[4])
    detail = {"flavour": fl, "args": [str(a) for a in args]}
    key = "%s|%s" % (fl, ",".join(str(a) for a in args))
    if flags & 4:
        # out of the verdict: nothing observed in this batch becomes a violation or a case
        oos = "out_of_scope:resource_open_across_delete"
        s = None if res["timed_out"] else _summary(res["out"])
        ctx.count(oos + ":histories", int(s["histories"]) if s else 0)
        ctx.count(oos, int(s.get("open_across_delete", 0)) if s else 0)
        if s is None:
            ctx.count(oos + ":batch_did_not_finish")
        for kind, sig, text in res["reports"]:
            ctx.count(oos + ":sanitizer_report")
        for tag in sorted({l[5:].split(": ")[0].strip() for l in res["out"].splitlines() if l.startswith("FAIL ")}):
            ctx.count(oos + ":batch_failed:" + tag)
        return
    if res["timed_out"]:
        ctx.violation("hang:vfs", dict(detail, note="batch did not finish"))
        return
    for kind, sig, text in res["reports"]:
        ctx.count("sanitizer_reports")
        ctx.violation("sanitizer:%s" % sig, dict(detail, report=text))
    fails = [l for l in res["out"].splitlines() if l.startswith("FAIL ")]
    seen = set()
    for f in fails:
        tag = f[5:].split(": ")[0].strip()
        if tag in seen:
            continue
        seen.add(tag)
        ctx.violation("vfs:%s" % tag, dict(detail, witness=f, output=res["out"][-3000:]))
    s = _summary(res["out"])
    if s is None:
        if not res["reports"]:
            ctx.violation("crash:vfs", dict(detail, rc=res["rc"], stderr=res["err"][-1500:]))
        return
    n = int(s["histories"])
    for k, v in s.items():
        if k.startswith("cls_") or k in ("ops", "addbuffer", "addfile", "repeated_adds", "deletes_ok", "deletes_legacy_name", "deletes_absent", "contains_queries",
                                         "opens", "open_exact", "open_legacy", "open_ambiguous", "open_disk", "open_none", "reads", "bytes_compared", "kept_open",
                                         "deletevfs_with_open", "skipped_delete_open", "tolerated_crosskind", "stale_closes", "missing_file_adds",
                                         "unnormalised_contains_queries"):
            ctx.count(k, int(v))
    ctx.count("histories_%s_flags%d" % (fl, flags), n)
    ctx.count("histories_nontrivial", int(s["nontrivial"]))
    ctx.case(key, nontrivial=int(s["nontrivial"]) > 0, sample=dict(detail, summary={k: v for k, v in s.items() if not k.startswith("cls_")}), n=n)


def _run_job(exes, idx, fl, args, timeout):
    d = os.path.join(_SCRATCH_ROOT, "job%d" % idx)
    shutil.rmtree(d, ignore_errors=True)
    os.makedirs(d)
    try:
        return nat.run_exe(exes[fl], list(args) + [d], fl, timeout=timeout, cwd=d)
    finally:
        shutil.rmtree(d, ignore_errors=True)


def run(ctx):
    jobs = _jobs(ctx)
    exes = {f: build.exe(f, "h_vfs", ["h_vfs.cc"]) for f in sorted(set(fl for fl, _ in jobs))}
    st = nat.run_exe(exes["rel"], ["selftest"], "rel", timeout=60)
    if st["rc"] != 0:
        ctx.inconclusive("reference name-rule self-test failed: " + st["out"][-200:])
        return
    try:
        def go(ij):
            i, (fl, args) = ij
            return (fl, args), _run_job(exes, i, fl, args, ctx.pick(600, 1700))

        for (fl, args), res in nat.pmap(go, list(enumerate(jobs)), nthreads=8):
            _evaluate(ctx, fl, args, res)
    finally:
        shutil.rmtree(_SCRATCH_ROOT, ignore_errors=True)
    skipped = ctx.counters.get("skipped_delete_open", 0) + ctx.counters.get("tolerated_crosskind", 0)
    total = ctx.counters.get("contains_queries", 0) + ctx.counters.get("deletes_ok", 0) + skipped
    if total and skipped > 0.5 * total:
        ctx.inconclusive("more than half of the presence queries fell into tolerated classes")
    ctx.min_nontrivial = len([j for j in jobs if int(j[1][4]) == 0])


def replay(ctx, path):
    rec = json.load(open(path))
    d = rec["detail"]
    exe = {d["flavour"]: build.exe(d["flavour"], "h_vfs", ["h_vfs.cc"])}
    try:
        res = _run_job(exe, 0, d["flavour"], d["args"], 1700)
        _evaluate(ctx, d["flavour"], d["args"], res)
    finally:
        shutil.rmtree(_SCRATCH_ROOT, ignore_errors=True)
    ctx.min_nontrivial = 0
