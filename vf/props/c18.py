"""C18 Sleeping islands are frozen and wake on the documented events."""
import json
import re

import numpy as np

from .. import build, common, core, drv, par
from ..gen import corpus, model
from ..mjconst import E
from ..ref import islands as ref

LEVEL = "exploration"
RULE = ("online trace checker over step histories with sleeping enabled at load time: shipped sleep models, generated "
        "piles (free bodies / hinge chains resting on a plane, cross-tree welds/connects/joint equalities some initially "
        "inactive, limited spatial tendons across trees, mocap pusher, sleep=never/allowed/init roots, tolerance sweep, "
        "Euler/implicit/implicitfast) and generic generated models. The harness injects logged events (qpos/qvel/"
        "qfrc_applied/xfrc_applied writes incl. -0.0, mocap teleports onto sleeping bodies, drops of awake bodies onto "
        "sleeping ones, eq_active toggles) and observes (tree_asleep, qpos, qvel) before the step, after the position "
        "stage (mj_step1 / mj_forward) and after the step. Oracles: independent cycle walker (+mj_sleepCycle); bitwise "
        "frozen qpos / zero qvel; whole-cycle wake after user events; coupling oracle = full collision + constraint rows of "
        "a sleep-DISABLED twin model evaluated at the same state (contact / active equality / active tendon limit between a "
        "sleeping tree and a tree that was awake before the step or a mocap body); documented countdown automaton; and a "
        "bitwise twin run with sleeping disabled compared on every output while no tree has yet been asleep. "
        "distinct = (model, options, step mode, event kinds that hit a sleeping tree); non-trivial = at least one tree fell "
        "asleep or an event hit a sleeping tree or a full twin prefix was compared")
ASSUMPTIONS = [
    "RK4 is excluded (doc: 'The RK4 integrator is not currently supported'); the sleep flag is always set before mj_makeData "
    "(doc: 'sleeping must be enabled either at initialization time or after at least one mj_step')",
    "waking more than required is allowed; a wake is only demanded when the coupled partner was awake BEFORE the step (or is a "
    "mocap body or was perturbed by the user): chain reactions through trees woken later in the same position stage may take "
    "one more step (doc lists the criteria but not the order in which they are evaluated)",
    "a limited tendon demands a wake only when its limit constraint is active in the sleep-disabled twin (engine reading of "
    "'connected to an awake tree by a ... limited tendon')",
    "models with an active tendon equality raise the designed error 'tendon equality does not yet support sleeping' and are skipped",
    "trees with actuators keep their compiler policy (never, by default); wake-on-ctrl is not demanded (doc: 'Sleeping actuators')",
    "the twin clause is evaluated on models without flexes, on all deterministic outputs except the sleep bookkeeping arrays "
    "(tree_asleep, tree_awake, body_awake, *_awake_ind, n*_awake)",
    "qpos perturbations are large enough (>=1e-3) to change the body pose in floating point: the documented detection is a "
    "comparison of recomputed poses",
]

BOOKKEEPING = {"tree_asleep", "tree_awake", "body_awake", "body_awake_ind", "parent_awake_ind", "dof_awake_ind",
               "s.ntree_awake", "s.nbody_awake", "s.nparent_awake", "s.nv_awake"}
SLEEP_ERR_FUNCS = ("mj_sleep", "mj_wake", "mj_sleepTrees", "mj_updateSleep")
DESIGNED = "tendon equality does not yet support sleeping"


# ---------------------------------------------------------------------------------------------------------------
# reference pieces

def walk_cycles(ta):
    """Independent cycle walker. Returns (cycle_id array (min member, -1 awake), problem or None)."""
    n = len(ta)
    asleep = ta >= 0
    cyc = -np.ones(n, dtype=np.int64)
    if (ta[asleep] >= n).any():
        return cyc, "index-out-of-range"
    nxt = ta[asleep]
    if not asleep[nxt].all():
        return cyc, "cycle-points-to-awake-tree"
    if len(np.unique(nxt)) != len(nxt):
        return cyc, "cycle-not-a-permutation"       # two sleeping trees share a successor -> some tree has no predecessor
    for t in np.flatnonzero(asleep):
        if cyc[t] >= 0:
            continue
        members, cur = [], int(t)
        while cyc[cur] < 0 and cur not in members:
            members.append(cur)
            cur = int(ta[cur])
            if len(members) > n:
                return cyc, "cycle-not-closed"
        if cur != t:
            return cyc, "cycle-not-closed"
        cyc[members] = min(members)
    return cyc, None


def tree_tables(m):
    """per-tree index arrays: qpos indices, dof indices, body ids; mocap-rooted bodies"""
    ntree = m.n("ntree")
    dof_tree = m["dof_treeid"].astype(np.int64)
    body_tree = m["body_treeid"].astype(np.int64)
    jb, jq, jt = m["jnt_bodyid"], m["jnt_qposadr"], m["jnt_type"]
    width = {E.mjJNT_FREE: 7, E.mjJNT_BALL: 4, E.mjJNT_SLIDE: 1, E.mjJNT_HINGE: 1}
    qidx = [[] for _ in range(ntree)]
    joints = [[] for _ in range(ntree)]
    for j in range(m.n("njnt")):
        t = body_tree[jb[j]]
        if t >= 0:
            qidx[t] += list(range(int(jq[j]), int(jq[j]) + width[int(jt[j])]))
            joints[t].append(j)
    T = {"ntree": ntree, "dof_tree": dof_tree, "body_tree": body_tree,
         "qidx": [np.array(x, dtype=np.int64) for x in qidx], "joints": joints,
         "didx": [np.flatnonzero(dof_tree == t) for t in range(ntree)],
         "bodies": [np.flatnonzero(body_tree == t) for t in range(ntree)]}
    root = m["body_rootid"]
    T["mocap_body"] = m["body_mocapid"][root] >= 0
    pol = m["tree_sleep_policy"]
    T["never"] = (pol == E.mjSLEEP_NEVER) | (pol == E.mjSLEEP_AUTO_NEVER)
    return T


def quiet_trees(m, d, T, tol):
    """documented readiness test per tree: scaled velocity below tolerance, no applied forces (bytewise)"""
    out = np.zeros(T["ntree"], dtype=bool)
    qv, ql = d["qvel"], m["dof_length"]
    qf, xf = d["qfrc_applied"], d["xfrc_applied"]
    for t in range(T["ntree"]):
        di, bi = T["didx"][t], T["bodies"][t]
        if T["never"][t]:
            continue
        if qf[di].tobytes().strip(b"\0") or xf[bi].tobytes().strip(b"\0"):
            continue
        if tol:
            out[t] = bool((ql[di] * np.abs(qv[di]) < tol).all())
        else:
            out[t] = not qv[di].tobytes().strip(b"\0")
    return out


def coupling_rows(L, m2, dq, T):
    """Couplings present in the sleep-disabled twin at the current state.

    Returns list of (kind, treeA, treeB, mocap_side) with tree = -1 for a dof-less side."""
    out = []
    con = dq.contacts()
    gb = m2["geom_bodyid"]
    for c in con:
        g1, g2 = int(c["geom"][0]), int(c["geom"][1])
        if g1 < 0 or g2 < 0:
            continue
        b1, b2 = int(gb[g1]), int(gb[g2])
        t1, t2 = int(T["body_tree"][b1]), int(T["body_tree"][b2])
        moc = (t1 < 0 and bool(T["mocap_body"][b1])) or (t2 < 0 and bool(T["mocap_body"][b2]))
        if t1 != t2:
            out.append(("contact", t1, t2, moc))
    nefc = dq.s("nefc")
    if nefc:
        et, ei = dq.arena("efc_type")[:nefc], dq.arena("efc_id")[:nefc]
        sel = np.flatnonzero((et == E.mjCNSTR_EQUALITY) | (et == E.mjCNSTR_LIMIT_TENDON))
        if len(sel):
            J, _ = ref.dense_J(dq, m2, L)
            done = set()
            for r in sel:
                key = (int(et[r]), int(ei[r]))
                ts = [int(x) for x in np.unique(T["dof_tree"][np.flatnonzero(J[r])])]
                if et[r] == E.mjCNSTR_LIMIT_TENDON:
                    if len(ts) == 2 and key not in done:
                        out.append(("tendon-limit", ts[0], ts[1], False))
                    done.add(key)
                    continue
                i = int(ei[r])
                ty = int(m2["eq_type"][i])
                if ty in (E.mjEQ_CONNECT, E.mjEQ_WELD):
                    if key in done:
                        continue
                    done.add(key)
                    b1, b2 = int(m2["eq_obj1id"][i]), int(m2["eq_obj2id"][i])
                    if m2["eq_objtype"][i] == E.mjOBJ_SITE:
                        b1, b2 = int(m2["site_bodyid"][b1]), int(m2["site_bodyid"][b2])
                    t1, t2 = int(T["body_tree"][b1]), int(T["body_tree"][b2])
                    moc = (t1 < 0 and bool(T["mocap_body"][b1])) or (t2 < 0 and bool(T["mocap_body"][b2]))
                    if t1 != t2:
                        out.append(("equality", t1, t2, moc))
                elif ty == E.mjEQ_JOINT:
                    if len(ts) == 2 and key not in done:
                        out.append(("equality", ts[0], ts[1], False))
                    done.add(key)
    return out


# ---------------------------------------------------------------------------------------------------------------
# models

def gen_pile(rng):
    """Resting piles with cross-tree couplings; returns xml"""
    tol = float(rng.choice([1e-3, 1e-2, 5e-2, 0.2]))
    dt = float(rng.choice([0.002, 0.004]))
    integ = str(rng.choice(["Euler", "implicit", "implicitfast"]))
    cone = str(rng.choice(["pyramidal", "elliptic"]))
    x = ['<mujoco model="pile"><option timestep="%g" sleep_tolerance="%g" integrator="%s" cone="%s"><flag sleep="enable"/></option>'
         % (dt, tol, integ, cone),
         '<default><geom friction="1 0.01 0.001" solref="0.01 1"/><joint damping="0.05"/></default>',
         '<worldbody><geom name="floor" type="plane" size="5 5 .1"/>']
    nb = int(rng.integers(3, 9))
    free, sites = [], []
    ncl = int(rng.integers(1, 4))
    centres = [np.array([c * 0.8 - 0.8, 0.0]) for c in range(ncl)]
    heights = [0.0] * ncl
    for i in range(nb):
        c = int(rng.integers(0, ncl))
        kind = str(rng.choice(["box", "box", "sphere", "capsule"]))
        r = float(rng.uniform(0.05, 0.09))
        z = heights[c] + r + 0.002
        heights[c] = z + r
        xy = centres[c] + rng.normal(size=2) * 0.004
        pol = ""
        pr = rng.random()
        if pr < 0.1:
            pol = ' sleep="never"'
        elif pr < 0.2:
            pol = ' sleep="allowed"'
        geom = {"box": '<geom type="box" size="%g %g %g"/>' % (r, r, r),
                "sphere": '<geom type="sphere" size="%g"/>' % r,
                "capsule": '<geom type="capsule" size="%g %g" euler="90 0 0"/>' % (r, r * 0.8)}[kind]
        x.append('<body name="b%d" pos="%g %g %g"%s><freejoint name="j%d"/>%s<site name="s%d" pos="0 0 %g"/></body>'
                 % (i, xy[0], xy[1], z, pol, i, geom, i, r))
        free.append("b%d" % i)
        sites.append("s%d" % i)
    # hinge chain lying on the floor
    nchain = int(rng.integers(0, 3))
    for k in range(nchain):
        y = 0.7 + 0.5 * k
        x.append('<body name="c%d" pos="0 %g 0.05"><joint name="cj%d_0" type="hinge" axis="0 1 0" damping="0.2"/>'
                 '<geom type="capsule" size="0.04" fromto="0 0 0 0.25 0 0"/><site name="cs%d" pos="0.1 0 0"/>'
                 '<body pos="0.25 0 0"><joint name="cj%d_1" type="hinge" axis="0 1 0" damping="0.2"/>'
                 '<geom type="capsule" size="0.04" fromto="0 0 0 0.25 0 0"/></body></body>' % (k, y, k, k, k))
        sites.append("cs%d" % k)
        free.append("c%d" % k)
    # isolated trees initialised asleep in mid-air (documented: may float until woken)
    ninit = int(rng.integers(0, 3))
    for k in range(ninit):
        x.append('<body name="i%d" pos="%g -1.2 0.6" sleep="init"><freejoint name="ij%d"/><geom type="box" size="0.07 0.07 0.07"/>'
                 '<site name="is%d"/></body>' % (k, -0.8 + 0.8 * k, k, k))
        sites.append("is%d" % k)
        free.append("i%d" % k)
    mocap = rng.random() < 0.6
    if mocap:
        x.append('<body name="pusher" mocap="true" pos="2.5 2.5 0.5"><geom type="sphere" size="0.06"/><site name="ms"/></body>')
    x.append('</worldbody>')
    eqs = []
    neq = int(rng.integers(0, 4))
    for k in range(neq):
        i1, i2 = [int(v) for v in rng.choice(len(free), size=2, replace=False)]
        kind = str(rng.choice(["weld", "connect"]))
        act = "true" if rng.random() < 0.4 else "false"
        if free[i1].startswith("i") or free[i2].startswith("i"):
            act = "false"       # an init-asleep tree must not share an island with other trees at load (documented compile error)
        if mocap and rng.random() < 0.2:
            eqs.append('<weld name="e%d" body1="pusher" body2="%s" active="false" solref="0.02 1"/>' % (k, free[i2]))
        elif kind == "weld":
            eqs.append('<weld name="e%d" body1="%s" body2="%s" active="%s" solref="0.02 1"/>' % (k, free[i1], free[i2], act))
        else:
            eqs.append('<connect name="e%d" site1="%s" site2="%s" active="%s" solref="0.02 1"/>' % (k, sites[i1], sites[i2], act))
    if nchain >= 2 and rng.random() < 0.7:
        eqs.append('<joint name="ej" joint1="cj0_0" joint2="cj1_0" polycoef="0 1 0 0 0" active="%s"/>' % ("true" if rng.random() < 0.5 else "false"))
    tend = []
    tsites = [x for x in sites if not x.startswith("is")]
    if len(tsites) >= 2 and rng.random() < 0.5:
        sites = tsites
        i1, i2 = [int(v) for v in rng.choice(len(sites), size=2, replace=False)]
        tend.append('<spatial name="t0" limited="true" range="0 %g"><site site="%s"/><site site="%s"/></spatial>'
                    % (float(rng.uniform(0.15, 1.2)), sites[i1], sites[i2]))
    if tend:
        x.append("<tendon>" + "".join(tend) + "</tendon>")
    if eqs:
        x.append("<equality>" + "".join(eqs) + "</equality>")
    if nchain and rng.random() < 0.3:
        x.append('<actuator><motor joint="cj0_1" gear="0.1"/></actuator>')
    x.append("</mujoco>")
    return "\n".join(x)


def _load_pair(L, c):
    """(m with sleep enabled before mj_makeData, m2 identical with sleep disabled)"""
    if c["kind"] == "corpus":
        path = str(build.REPO / c["path"])
        m, m2 = L.load_xml(path), L.load_xml(path)
    else:
        rng = np.random.default_rng(c["mseed"])
        if c["kind"] == "pile":
            xml = gen_pile(rng)
        else:
            xml, _ = model.gen_profile(rng, c["profile"], option={"sleep_tolerance": float(rng.choice([1e-3, 1e-2, 0.1]))})
        c["_xml"] = xml
        m, m2 = L.load_xml_string(xml), L.load_xml_string(xml)
    for mm in (m, m2):
        if mm.opt["integrator"] == E.mjINT_RK4:
            mm.opt["integrator"] = E.mjINT_EULER
    if c.get("integrator"):
        for mm in (m, m2):
            mm.opt["integrator"] = getattr(E, c["integrator"])
    if c.get("tolerance") is not None:
        for mm in (m, m2):
            mm.opt["sleep_tolerance"] = c["tolerance"]
    m.opt["enableflags"] = int(m.opt["enableflags"]) | E.mjENBL_SLEEP
    m2.opt["enableflags"] = int(m2.opt["enableflags"]) & ~E.mjENBL_SLEEP
    return m, m2


# ---------------------------------------------------------------------------------------------------------------
# events

def _perturb_qpos(rng, m, q, j):
    a, t = int(m["jnt_qposadr"][j]), int(m["jnt_type"][j])
    if t == E.mjJNT_FREE:
        if rng.random() < 0.6:
            q[a:a + 3] += rng.choice([-1, 1], size=3) * rng.uniform(2e-3, 2e-2, size=3)
        else:
            q[a + 3:a + 7] = _rot(q[a + 3:a + 7], rng)
    elif t == E.mjJNT_BALL:
        q[a:a + 4] = _rot(q[a:a + 4], rng)
    else:
        q[a] += float(rng.choice([-1, 1]) * rng.uniform(5e-3, 5e-2))


def _rot(q, rng):
    ang = float(rng.uniform(0.02, 0.2))
    ax = rng.normal(size=3)
    ax /= np.linalg.norm(ax)
    r = np.concatenate([[np.cos(ang / 2)], np.sin(ang / 2) * ax])
    w1, v1, w2, v2 = q[0], q[1:], r[0], r[1:]
    out = np.concatenate([[w1 * w2 - v1 @ v2], w1 * v2 + w2 * v1 + np.cross(v1, v2)])
    return out / np.linalg.norm(out)


def make_event(rng, m, d, T, cyc):
    """Choose an event from the current state of the sleep-enabled run; returns a replayable dict (absolute values)."""
    ta = d["tree_asleep"]
    asleep = np.flatnonzero(ta >= 0)
    awake = np.flatnonzero(ta < 0)
    ntree = T["ntree"]
    kinds = ["qpos", "qvel", "qfrc", "xfrc", "qvel-0", "qfrc-0", "xfrc-0"]
    if m.n("nmocap") and len(asleep):
        kinds += ["mocap", "mocap"]
    if m.n("neq"):
        kinds += ["eq", "eq"]
    if len(asleep) and len(awake):
        kinds += ["drop", "drop"]
    kinds += ["clear"]
    if m.n("nmocap"):
        kinds += ["mocap_move"]
    if m.n("nu"):
        kinds += ["ctrl"]
    k = str(rng.choice(kinds))
    tgt = int(rng.choice(asleep)) if (len(asleep) and rng.random() < 0.8) else int(rng.integers(0, ntree))
    ev = {"kind": k, "tree": tgt, "writes": []}
    di, bi = T["didx"][tgt], T["bodies"][tgt]
    if k == "qpos":
        if not T["joints"][tgt]:
            return None
        j = int(rng.choice(T["joints"][tgt]))
        q = d["qpos"].copy()
        _perturb_qpos(rng, m, q, j)
        idx = np.flatnonzero(q != d["qpos"])
        ev["writes"] = [("qpos", int(i), float(q[i])) for i in idx]
    elif k in ("qvel", "qvel-0", "qfrc", "qfrc-0"):
        i = int(rng.choice(di))
        v = -0.0 if k.endswith("-0") else float(rng.choice([-1, 1]) * np.exp(rng.uniform(np.log(1e-9), np.log(0.5))))
        ev["writes"] = [("qvel" if k.startswith("qvel") else "qfrc_applied", i, v)]
    elif k in ("xfrc", "xfrc-0"):
        b = int(rng.choice(bi))
        v = -0.0 if k.endswith("-0") else float(rng.choice([-1, 1]) * np.exp(rng.uniform(np.log(1e-9), np.log(2.0))))
        ev["writes"] = [("xfrc_applied", b * 6 + int(rng.integers(0, 6)), v)]
    elif k == "clear":
        ev["tree"] = -1
        ev["writes"] = [("qfrc_applied", int(i), 0.0) for i in np.flatnonzero(d["qfrc_applied"].view(np.int64))]
        ev["writes"] += [("xfrc_applied", int(i), 0.0) for i in np.flatnonzero(d["xfrc_applied"].ravel().view(np.int64))]
    elif k == "mocap":
        b = int(rng.choice(T["bodies"][int(rng.choice(asleep))]))
        p = d["xpos"][b] + rng.normal(size=3) * 0.02
        mid = int(rng.integers(0, m.n("nmocap")))
        ev["tree"] = -1
        ev["writes"] = [("mocap_pos", mid * 3 + i, float(p[i])) for i in range(3)]
    elif k == "mocap_move":
        mid = int(rng.integers(0, m.n("nmocap")))
        p = d["mocap_pos"][mid] + rng.normal(size=3) * 0.05
        ev["tree"] = -1
        ev["writes"] = [("mocap_pos", mid * 3 + i, float(p[i])) for i in range(3)]
    elif k == "ctrl":
        ev["tree"] = -1
        ev["writes"] = [("ctrl", int(i), float(rng.normal() * 0.5)) for i in range(m.n("nu"))]
    elif k == "eq":
        i = int(rng.integers(0, m.n("neq")))
        ev["tree"] = -1
        ev["writes"] = [("eq_active", i, int(1 - d["eq_active"][i]))]
    elif k == "drop":
        # teleport an awake free body just above a sleeping body
        cand = [t for t in awake if T["joints"][t] and m["jnt_type"][T["joints"][t][0]] == E.mjJNT_FREE]
        if not cand:
            return None
        t = int(rng.choice(cand))
        b = int(rng.choice(T["bodies"][int(rng.choice(asleep))]))
        a = int(m["jnt_qposadr"][T["joints"][t][0]])
        p = d["xpos"][b] + np.array([0, 0, float(rng.uniform(0.05, 0.2))]) + rng.normal(size=3) * 0.01
        ev["tree"] = t
        ev["writes"] = [("qpos", a + i, float(p[i])) for i in range(3)]
    if not ev["writes"]:
        return None
    return ev


def apply_event(d, ev):
    for name, i, v in ev["writes"]:
        d[name].ravel()[i] = v


def event_hits(ev, T, m):
    """set of trees whose qpos/qvel/applied forces are touched with a changed/non-zero-byte value"""
    hit = set()
    for name, i, v in ev["writes"]:
        if name == "qpos":
            for t in range(T["ntree"]):
                if i in T["qidx"][t]:
                    hit.add(t)
        elif name in ("qvel", "qfrc_applied"):
            if np.float64(v).tobytes() != np.float64(0.0).tobytes():
                hit.add(int(T["dof_tree"][i]))
        elif name == "xfrc_applied":
            if np.float64(v).tobytes() != np.float64(0.0).tobytes():
                t = int(T["body_tree"][i // 6])
                if t >= 0:
                    hit.add(t)
    return hit


def flex_split_sleep_abort(m, d, msg):
    """(suffix, evidence) if the trapped engine error is the known mechanism 'vertex trees of one flex sleep separately, the flex
    is then treated as one unit' (findings/C18-flex-vertices-sleep-separately-then-abort.md), else (None, reason).

    Required, all on the failing mjData (audit B1: the former test 'model has a flex and the message mentions sleeping' also
    relabelled missed wake-ups between rigid bodies of flex-bearing scenes):
      1. the message is flex-named: 'mj_nc: contact N involves sleeping flex F', or 'mj_wakeCollision: contact between sleeping
         bodies A and B' where A or B is a vertex/node body of a flex F ('involves sleeping geom' is never this finding);
      2. the dynamic vertex (node) trees of THAT flex have mixed sleep states (some tree_asleep >= 0, some < 0);
      3. nothing active couples those trees: no stiffness coupling (rigid, dim < 2, or no bending and zero stiffness - the
         conditions of unionConstraintTrees) and every flex equality (edge / vertex / strain) of F is inactive in eq_active or
         absent. With an active coupling a mixed state would be a partially woken island - a different violation."""
    try:
        nflex = m.n("nflex")
        vadr, vnum, vbody = m["flex_vertadr"], m["flex_vertnum"], m["flex_vertbodyid"]
        interp = m["flex_interp"]
        nadr, nnum, nbody = m["flex_nodeadr"], m["flex_nodenum"], m["flex_nodebodyid"]

        def bodies(f):
            if int(interp[f]):
                return [int(b) for b in nbody[int(nadr[f]):int(nadr[f]) + int(nnum[f])]]
            return [int(b) for b in vbody[int(vadr[f]):int(vadr[f]) + int(vnum[f])]]

        mm = re.match(r"\s*mj_nc: contact \d+ involves sleeping flex (\d+)\s*$", msg)
        if mm:
            f, suffix = int(mm.group(1)), "contact-involves-sleeping-flex"
        else:
            mm = re.match(r"\s*mj_wakeCollision: contact between sleeping bodies (\d+) and (\d+)\s*$", msg)
            if not mm:
                return None, "message does not name a flex or two sleeping bodies"
            pair = {int(mm.group(1)), int(mm.group(2))}
            fs = [f for f in range(nflex) if pair & set(bodies(f))]
            if len(fs) != 1:
                return None, "bodies %s belong to %d flexes" % (sorted(pair), len(fs))
            f, suffix = fs[0], "contact-between-sleeping-bodies"
        if not 0 <= f < nflex:
            return None, "flex id out of range"
        tid = m["body_treeid"]
        trees = sorted(set(int(tid[b]) for b in bodies(f) if int(tid[b]) >= 0))
        ta = d["tree_asleep"]
        asleep = [t for t in trees if int(ta[t]) >= 0]
        awake = [t for t in trees if int(ta[t]) < 0]
        if not asleep or not awake:
            return None, "flex %d trees %s do not have mixed sleep states" % (f, trees)
        stiff = False
        if not int(m["flex_rigid"][f]) and int(m["flex_dim"][f]) >= 2:
            sadr = int(m["flex_stiffnessadr"][f])
            if int(m["flex_bendingadr"][f]) >= 0 or (sadr >= 0 and float(m["flex_stiffness"].ravel()[sadr]) != 0):
                stiff = True
        if stiff:
            return None, "flex %d has active stiffness coupling: mixed sleep states are a partially woken island" % f
        et, o1 = m["eq_type"], m["eq_obj1id"]
        act = d["eq_active"]
        for e in range(m.n("neq")):
            if int(et[e]) in (int(E.mjEQ_FLEX), int(E.mjEQ_FLEXVERT), int(E.mjEQ_FLEXSTRAIN)) and int(o1[e]) == f and int(act[e]):
                return None, "flex %d has an active flex equality %d: mixed sleep states are a partially woken island" % (f, e)
        return suffix, "flex %d: vertex trees asleep %s awake %s, no active stiffness or flex-equality coupling" % (f, asleep, awake)
    except Exception as ex:                                   # evidence not obtainable => not confirmed
        return None, "confirmation failed: %r" % (ex,)


# ---------------------------------------------------------------------------------------------------------------
# worker

def _sync_query(L, m2, d, dq):
    for k in ("qpos", "qvel", "act", "mocap_pos", "mocap_quat", "eq_active", "ctrl"):
        if d[k].size:
            dq[k][...] = d[k]
    dq.set_s("time", d.s("time"))
    L.call("mj_fwdPosition", m2, dq, ret=None)


def worker(c):
    P = core.Part()
    L = drv.Lib("rel")
    try:
        m, m2 = _load_pair(L, c)
    except drv.MjError:
        P.count("model_rejected")
        return P.result()
    name = c.get("path") or ("gen:%s:%d" % (c.get("profile", c["kind"]), c["mseed"]))
    rng = np.random.default_rng(c["seed"])
    nflex = m.n("nflex")
    if m.n("neq") and ((m["eq_type"] == E.mjEQ_TENDON) & (m["eq_active0"] != 0)).any():
        P.count("skipped_designed_error_tendon_equality")
        P.case(nontrivial=False)
        return P.result()
    T = tree_tables(m)
    ntree = T["ntree"]
    if ntree == 0:
        P.count("skipped_no_trees")
        return P.result()
    tol = float(m.opt["sleep_tolerance"])
    kAwake = -(1 + E.mjMINAWAKE)
    mode = c["mode"]                       # split | step | forward
    try:
        d = m.make_data()
        dn = m2.make_data()                # twin history with sleeping disabled
        dq = m2.make_data()                # query data for the coupling oracle
    except drv.MjError as e:
        P.count("makedata_rejected")
        return P.result()
    optkey = "%s|tol%g|%s" % (int(m.opt["integrator"]), tol, mode)
    witness = {"model": name, "xml": c.get("_xml"), "case": {k: v for k, v in c.items() if not k.startswith("_")}}
    events_log = []
    hit_kinds = set()
    islands_off = bool(int(m.opt["disableflags"]) & E.mjDSBL_ISLAND)

    def viol(sig, step, **info):
        w = dict(witness)
        w.update({"step": step, "events": events_log[-8:], "info": info, "tree_asleep": d["tree_asleep"].tolist()})
        P.violation(sig, w)

    def engine_error(e, step):
        s = str(e)
        if DESIGNED in s:
            P.count("skipped_designed_error_tendon_equality")
            return
        known, why = flex_split_sleep_abort(m, d, s) if nflex else (None, "no flex in the model")
        if known:
            # known finding findings/C18-flex-vertices-sleep-separately-then-abort.md (one root cause, two abort sites), confirmed on
            # the failing mjData: the message names a flex (directly, or through a vertex body of it), the vertex trees of THAT flex
            # have mixed sleep states and nothing active couples them
            P.count("flex_split_sleep_abort_confirmed")
            viol("flex:engine-aborts:" + known, step, error=s[:300], mechanism_check=why)
        elif "involves sleeping" in s:
            # engine_core_constraint.c mj_nc "SHOULD NOT OCCUR": a contact with a tree that is still asleep reached
            # constraint construction, i.e. the tree touched an awake tree and was not woken
            viol("not-woken:engine-aborts-contact-involves-sleeping-" + ("flex" if "sleeping flex" in s else "geom"), step, error=s[:300],
                 known_mechanism_check=why)
        elif s.startswith(SLEEP_ERR_FUNCS):
            viol("engine-reported-sleep-inconsistency", step, error=s[:300], known_mechanism_check=why)
        else:
            P.count("engine_error_skipped")
            P.count("engine_error:" + s.split(":")[0][:40])

    def check_cycles(ta, step, where):
        cyc, prob = walk_cycles(ta)
        if ((ta < 0) & (ta < kAwake)).any():
            viol("tree_asleep:awake-counter-out-of-range", step, where=where)
            return None
        if prob:
            viol("tree_asleep:" + prob, step, where=where)
            return None
        for t in np.flatnonzero(ta >= 0):
            r = L.call("mj_sleepCycle", np.ascontiguousarray(ta, dtype=np.int32), ntree, int(t))
            if r != cyc[t]:
                viol("mj_sleepCycle-disagrees-with-walker", step, where=where, tree=int(t), engine=r, walker=int(cyc[t]))
                return None
        pol_bad = np.flatnonzero((ta >= 0) & T["never"])
        if len(pol_bad):
            viol("asleep-despite-never-policy", step, where=where, tree=int(pol_bad[0]))
            return None
        return cyc

    twin_on = nflex == 0
    ever_asleep = False
    prefix_steps = 0
    any_sleep = False
    c_ref = np.full(ntree, kAwake, dtype=np.int64)      # most-awake-possible countdown (lower bound of the engine's)
    c_hi = np.full(ntree, kAwake, dtype=np.int64)       # least-awake-possible countdown (upper bound): a tree woken by a
    #                                                     coupling inherits its partner's counter, which may be -1
    ta0 = d["tree_asleep"].copy()
    cyc0 = check_cycles(ta0, -1, "init")
    if cyc0 is None:
        return P.result()
    c_ref[ta0 >= 0] = 0
    # initial state of the upper-bound automaton is the observed one (mj_makeData runs one mj_sleep sweep when some
    # trees are initialised asleep, so the other trees may start at kAwake+1)
    c_hi = np.where(ta0 < 0, np.maximum(ta0, kAwake), 0).astype(np.int64)
    if ((ta0 < 0) & (ta0 > kAwake)).any():
        P.count("initial_counter_above_kAwake")
    if (ta0 >= 0).any():
        ever_asleep = True
        any_sleep = True
        P.count("histories_with_init_asleep")
    nsteps = c["nsteps"]
    ok = True
    for step in range(nsteps):
        # ---------------- events ---------------------------------------------------------------------------------
        must_wake = set()        # trees whose whole former cycle must be awake after the position stage
        user_hit = set()
        ev = None
        if rng.random() < c["pevent"]:
            try:
                ev = make_event(rng, m, d, T, cyc0)
            except (ValueError, IndexError):
                ev = None
        if ev is not None:
            hits = event_hits(ev, T, m)
            apply_event(d, ev)
            if twin_on and not ever_asleep:
                apply_event(dn, ev)
            events_log.append({"step": step, **ev})
            P.count("event_" + ev["kind"])
            for t in hits:
                user_hit.add(t)
                if ta0[t] >= 0:
                    must_wake.update(int(x) for x in np.flatnonzero(cyc0 == cyc0[t]))
                    hit_kinds.add(ev["kind"])
                    P.count("user_event_on_sleeping_tree:" + ev["kind"])
        q0, v0 = d["qpos"].copy(), d["qvel"].copy()
        awake_before = set(int(t) for t in np.flatnonzero(ta0 < 0)) | must_wake
        # ---------------- position stage -----------------------------------------------------------------------------
        ta1 = None
        try:
            if mode == "split":
                L.call("mj_step1", m, d, ret=None)
            elif mode == "forward":
                d.forward()
            if mode in ("split", "forward"):
                ta1 = d["tree_asleep"].copy()
                q1, v1 = d["qpos"].copy(), d["qvel"].copy()
        except drv.MjError as e:
            engine_error(e, step)
            ok = False
            break
        if ta1 is not None:
            cyc1 = check_cycles(ta1, step, "after-position-stage")
            if cyc1 is None:
                ok = False
                break
            still = [t for t in must_wake if ta1[t] >= 0]
            if still:
                viol("not-woken:user-" + ev["kind"].replace("-0", "-negzero"), step, trees=still, cycle=sorted(must_wake))
                ok = False
                break
            # coupling oracle (sleep-disabled twin model at the same state)
            if nflex == 0 and (ta1 >= 0).any():
                try:
                    _sync_query(L, m2, d, dq)
                    rows = coupling_rows(L, m2, dq, T)
                except drv.MjError as e:
                    P.count("coupling_oracle_error")
                    rows = []
                P.count("coupling_oracle_evaluations")
                for kind, a, b, moc in rows:
                    sa = a >= 0 and ta1[a] >= 0
                    sb = b >= 0 and ta1[b] >= 0
                    if not (sa or sb):
                        continue
                    if moc:
                        viol("not-woken:%s-with-mocap-body" % kind, step, trees=[a, b])
                        ok = False
                        break
                    if a < 0 or b < 0:
                        continue                      # static partner: documented as skipped
                    if sa and sb:
                        if kind == "equality" and cyc1[a] != cyc1[b]:
                            viol("not-woken:equality-between-sleeping-islands", step, trees=[a, b])
                            ok = False
                            break
                        continue
                    other = b if sa else a
                    if other in awake_before:
                        viol("not-woken:%s-with-awake-tree" % kind, step, trees=[a, b], asleep=a if sa else b)
                        ok = False
                        break
                    P.count("tolerated_chain_wake_pending")
                if not ok:
                    break
            # frozen between S0 and S1
            for t in np.flatnonzero((ta0 >= 0) & (ta1 >= 0)):
                if t in user_hit:
                    continue
                if q1[T["qidx"][t]].tobytes() != q0[T["qidx"][t]].tobytes() or (v1[T["didx"][t]] != 0).any():
                    viol("sleeping-tree-not-frozen:position-stage", step, tree=int(t))
                    ok = False
                    break
            if not ok:
                break
            woke = np.flatnonzero((ta0 >= 0) & (ta1 < 0))
            if len(woke):
                P.count("wake_transitions", len(woke))
            c_ref[(ta0 >= 0) & (ta1 < 0)] = kAwake
            for t in np.flatnonzero((ta0 >= 0) & (ta1 < 0)):
                c_hi[t] = kAwake if int(t) in must_wake else -1
        # ---------------- rest of the step ----------------------------------------------------------------------
        quiet = quiet_trees(m, d, T, tol)          # qvel and applied forces as seen by mj_sleep (before advance)
        try:
            if mode == "split":
                L.call("mj_step2", m, d, ret=None)
            else:
                d.step()
            if twin_on and not ever_asleep:
                if mode == "split":
                    L.call("mj_step1", m2, dn, ret=None)
                    L.call("mj_step2", m2, dn, ret=None)
                elif mode == "forward":
                    dn.forward()
                    dn.step()
                else:
                    dn.step()
        except drv.MjError as e:
            engine_error(e, step)
            ok = False
            break
        nbad = int(d.sv("warning")["number"][[E.mjWARN_BADQPOS, E.mjWARN_BADQVEL, E.mjWARN_BADQACC]].sum())
        if nbad:
            P.count("skipped_history_autoreset")       # divergence: mj_resetData rewrote the state mid-history
            break
        ta2 = d["tree_asleep"].copy()
        q2, v2 = d["qpos"].copy(), d["qvel"].copy()
        cyc2 = check_cycles(ta2, step, "after-step")
        if cyc2 is None:
            ok = False
            break
        if ta1 is None:
            # no mid-step observation: user events must have woken the former cycle by the end of the step
            still = [t for t in must_wake if ta2[t] >= 0]
            if still:
                viol("not-woken:user-" + ev["kind"].replace("-0", "-negzero"), step, trees=still, cycle=sorted(must_wake))
                ok = False
                break
            c_ref[(ta0 >= 0) & (ta2 < 0)] = kAwake
            c_hi[(ta0 >= 0) & (ta2 < 0)] = -1
        mid = ta1 if ta1 is not None else ta0
        # frozen: asleep before, (mid,) after, same cycle membership, not touched by the user
        for t in np.flatnonzero((ta0 >= 0) & (mid >= 0) & (ta2 >= 0)):
            if t in user_hit or t in must_wake:
                continue
            if not np.array_equal(cyc0 == cyc0[t], cyc2 == cyc2[t]):
                continue        # woken and re-slept inside a larger island (possible when woken by a ready-to-sleep tree)
            P.count("frozen_tree_steps")
            if q2[T["qidx"][t]].tobytes() != q0[T["qidx"][t]].tobytes():
                viol("sleeping-tree-not-frozen:qpos-changed", step, tree=int(t))
                ok = False
                break
            if (v2[T["didx"][t]] != 0).any() or (v0[T["didx"][t]] != 0).any():
                viol("sleeping-tree-not-frozen:qvel-nonzero", step, tree=int(t))
                ok = False
                break
        if not ok:
            break
        # newly asleep
        new = np.flatnonzero((mid < 0) & (ta2 >= 0))
        if len(new):
            any_sleep = True
            P.count("sleep_transitions", len(new))
            for t in new:
                if (v2[T["didx"][t]] != 0).any():
                    viol("newly-asleep-tree-with-nonzero-qvel", step, tree=int(t))
                    ok = False
                    break
                if not quiet[t]:
                    viol("slept-while-not-ready:velocity-or-applied-force", step, tree=int(t))
                    ok = False
                    break
            if not ok:
                break
        # islands sleep as a whole: a constraint row never couples a newly sleeping tree with a tree outside its cycle
        if (len(new) or True) and d.s("nefc") and nflex == 0 and not islands_off:
            J, S = ref.dense_J(d, m, L)
            groups = [g for g in ref.row_trees(J, T["dof_tree"]) if len(g)]
            # upper bound of the coupling (structural incidence): a tree is only required to fall asleep when every
            # tree it MAY be coupled with is ready
            groups_may = [g for g in ref.may_groups(m, d, S, E) if len(g)]
            if len(new):
                for g in groups:
                    gs = set(int(x) for x in g)
                    if gs & set(int(x) for x in new):
                        cy = set(int(cyc2[x]) for x in gs)
                        if len(cy) != 1 or -1 in cy:
                            viol("island-partially-asleep", step, row_trees=sorted(gs))
                            ok = False
                            break
                if not ok:
                    break
        else:
            groups = groups_may = []
        # documented countdown: lower bound c_ref, and "all trees of an island ready => put to sleep"
        if not islands_off and not (d.s("nefc") and d.s("nisland") == 0):
            awake_mid = mid < 0
            upd = c_ref.copy()
            upd[awake_mid & quiet] = np.minimum(upd[awake_mid & quiet] + 1, -1)
            upd[awake_mid & ~quiet] = kAwake
            c_ref = upd
            upd = c_hi.copy()
            upd[awake_mid & quiet] = np.minimum(upd[awake_mid & quiet] + 1, -1)
            upd[awake_mid & ~quiet] = kAwake
            c_hi = upd
            comp = ref.components(ntree, groups_may) if nflex == 0 else None
            if comp is not None:
                for t in np.flatnonzero(awake_mid):
                    mates = np.flatnonzero(comp == comp[t]) if comp[t] >= 0 else np.array([t])
                    if (c_ref[mates] == -1).all() and awake_mid[mates].all() and ta2[t] < 0:
                        viol("ready-island-not-put-to-sleep", step, tree=int(t), island=[int(x) for x in mates])
                        ok = False
                        break
                if not ok:
                    break
            low = np.flatnonzero((ta2 < 0) & (ta2 < c_ref))
            if nflex and len(low):
                # the countdown reference treats every kinematic tree on its own; the vertex trees of a flex are coupled through the
                # flex (edge constraints / passive elasticity) in a way the reference's grouping does not model (it is switched off for
                # flex models two lines above as well): observed, not judged
                P.count("flex_model_countdown_below_reference_not_judged")
                low = []
            if len(low):
                viol("awake-counter-below-documented-countdown", step, tree=int(low[0]), engine=int(ta2[low[0]]), ref=int(c_ref[low[0]]))
                ok = False
                break
            high = np.flatnonzero((ta2 < 0) & awake_mid & (ta2 > c_hi))
            if len(high):
                viol("awake-counter-above-documented-countdown", step, tree=int(high[0]), engine=int(ta2[high[0]]), ref=int(c_hi[high[0]]))
                ok = False
                break
            early = np.flatnonzero((ta2 >= 0) & awake_mid & (c_hi < -1))
            if len(early):
                viol("slept-before-mjMINAWAKE-quiet-steps", step, tree=int(early[0]), ref=int(c_hi[early[0]]))
                ok = False
                break
        c_ref[ta2 >= 0] = 0
        c_hi[ta2 >= 0] = 0
        # twin clause
        if (ta2 >= 0).any() or (mid >= 0).any():
            ever_asleep = True
        if twin_on and not ever_asleep:
            prefix_steps += 1
            if step < 30 or step % 4 == 0:
                o1, o2 = common.outputs(d), common.outputs(dn)
                fd = common.first_diff(o1, o2, skip=BOOKKEEPING)
                P.count("twin_full_comparisons")
                if fd is not None:
                    fld = fd["field"].split("[")[0]
                    viol("sleep-enabled-differs-while-all-awake:%s" % ("state" if fld in ("qpos", "qvel", "act", "s.time") else "output"),
                         step, diff=fd)
                    ok = False
                    break
        ta0, cyc0 = ta2, cyc2
    nontriv = any_sleep or bool(hit_kinds) or prefix_steps >= 20
    P.case(key="%s|%s|%s" % (name, optkey, "+".join(sorted(hit_kinds))), nontrivial=nontriv,
           sample={"model": name, "mode": mode, "tolerance": tol, "steps": nsteps, "events_on_sleeping": sorted(hit_kinds),
                   "any_sleep": any_sleep, "twin_prefix_steps": prefix_steps})
    P.count("histories")
    P.count("steps", step + 1)
    P.count("twin_prefix_steps", prefix_steps)
    if any_sleep:
        P.count("histories_with_sleep")
    if hit_kinds:
        P.count("histories_with_event_on_sleeping_tree")
    P.count("mode_" + mode)
    for x in (d, dn, dq):
        x.free()
    m.free()
    m2.free()
    return P.result()


def cases(ctx):
    cs = []
    rng = ctx.rng
    modes = ["split", "split", "forward", "step"]
    corp = corpus.loadable()
    sleepers = [c for c in corp if c["sleep"]]
    for c in sleepers:
        if c["nv"] > ctx.pick(120, 700):
            continue
        for rep in range(ctx.pick(4, 8)):
            cs.append({"kind": "corpus", "path": c["path"], "seed": int(rng.integers(0, 2 ** 31)), "mode": modes[rep % 4],
                       "nsteps": ctx.pick(300, 1000), "pevent": 0.03,
                       "integrator": str(rng.choice(["mjINT_EULER", "mjINT_IMPLICITFAST", "mjINT_IMPLICIT"])) if rep else None,
                       "tolerance": float(rng.choice([1e-3, 1e-2, 0.1])) if rep else None})
    for i in range(ctx.pick(600, 2400)):
        cs.append({"kind": "pile", "mseed": int(rng.integers(0, 2 ** 31)), "seed": int(rng.integers(0, 2 ** 31)),
                   "mode": modes[i % 4], "nsteps": ctx.pick(400, 800), "pevent": float(rng.choice([0.01, 0.03, 0.08]))})
    # generic models: mostly exercises the twin clause and the invariants under arbitrary features
    others = [c for c in corp if not c["sleep"] and c["nflex"] == 0 and 0 < c["nv"] <= 60]
    idx = rng.permutation(len(others))[:ctx.pick(80, 150)]
    for i in idx:
        cs.append({"kind": "corpus", "path": others[int(i)]["path"], "seed": int(rng.integers(0, 2 ** 31)), "mode": modes[int(i) % 4],
                   "nsteps": ctx.pick(120, 400), "pevent": 0.03, "tolerance": float(rng.choice([1e-3, 0.05]))})
    for i in range(ctx.pick(200, 800)):
        cs.append({"kind": "gen", "profile": ["rich", "contact"][i % 2], "mseed": int(rng.integers(0, 2 ** 31)),
                   "seed": int(rng.integers(0, 2 ** 31)), "mode": modes[i % 4], "nsteps": ctx.pick(150, 400), "pevent": 0.03})
    return cs


def run(ctx):
    build.ensure("rel")
    assert ref.selftest()
    cs = cases(ctx)
    res = par.run("vf.props.c18", "worker", cs, nproc=16, timeout=ctx.pick(600, 1800))
    for c, r in zip(cs, res):
        if r is None:
            ctx.inconclusive("worker returned nothing")
        elif "crash" in r:
            ctx.count("worker_crash")
            ctx.inconclusive("worker crashed/timed out: %s: %s" % (c.get("path", c["kind"]), r["crash"][-300:]))
        elif "exception" in r:
            ctx.count("harness_exception")
            ctx.inconclusive("harness exception in worker: " + r["exception"] + r.get("trace", "")[-800:])
        else:
            ctx.merge(r)
    ctx.min_nontrivial = ctx.pick(500, 2000)


def replay(ctx, path):
    rec = json.load(open(path))
    ctx.merge(worker(rec["detail"]["case"]))
    ctx.min_nontrivial = 0
