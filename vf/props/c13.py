"""C13 Contacts report true geometry (primitive pairs vs closed-form references; mj_geomDistance symmetric and consistent)."""
import json
import math

import numpy as np

from .. import build, core, drv, par
from ..mjconst import E
from ..ref import convex as cx
from ..ref import mechanisms as mech
from ..ref import primdist

LEVEL = "exploration"
RULE = ("reference-model oracle on two-geom scenes: a case = (type pair, sizes over 3 decades, margins/gaps in 0..0.1, body variant "
        "free-free | static-free | mocap-free | explicit <pair>, geom order, optional geom offset in its body) x relative poses "
        "(separated / inside margin / touching / shallow / deep / centre-inside / coincident; random and axis-aligned, parallel, "
        "face-face, edge-edge orientations). After mj_forward every contact is checked for unit normal, orthonormal frame, "
        "dist <= margin+gap; for pairs with a closed form (vf/ref/primdist.py) the deepest contact is compared with the true signed "
        "distance, its normal must realise that distance along geom1->geom2 (separation along the reported normal, computed with "
        "the reference support functions), and the position must lie between the two surfaces; mj_geomDistance is called in both "
        "argument orders and compared with itself, with the contact and with the reference. distinct = (pair, variant, pose class, "
        "orientation class, regime); non-trivial = at least one contact or a finite geom distance was produced")
ASSUMPTIONS = [
    "geom world poses (geom_xpos/geom_xmat after mj_forward) are taken from the engine: the property is about the colliders given the "
    "poses, kinematics is another property's subject",
    "doc computation/index.rst 'margin and gap': contacts are *detected* at distance <= margin+gap (inactive between margin and "
    "margin+gap), so 'no larger than the pair's margin' is checked as dist <= margin+gap (gap is 0 in most cases); geom margins/gaps add up",
    "multi-contact manifolds (plane-capsule/cylinder/box, parallel capsules, capsule-box, box-box): every contact is checked locally (unit "
    "normal, frame, dist <= margin+gap, it does not claim to be deeper than the geometry along its own normal), the deepest one against "
    "the true distance",
    "'position lies between the two surfaces' is accepted in either reading: the point is on the same side of both surfaces within "
    "|dist| (inside both when penetrating, outside both and on the shortest segment when separated), or pos -/+ normal*dist/2 are "
    "surface points of geom1/geom2 (mjContact.pos: 'midpoint between geoms')",
    "exactly symmetric configurations (coincident centres, point on a medial axis, parallel capsules) have no unique normal: any "
    "normal that realises the true distance is accepted; tolerances are 1e-9*(sum of extents + centre distance) for closed-form "
    "colliders (1e-6 for capsule-box: up to 1e-7 observed when the capsule is parallel to a box edge within 1e-6 rad)",
    "box-box: the contact collider (mjc_BoxBox) is exact only up to its multi-contact construction; contact distance and "
    "mj_geomDistance (native GJK/EPA for box-box) are compared with rtol 1e-3*size / 10*ccd_tolerance as in the design note, plus 5% of "
    "the depth when penetrating (the collider deliberately prefers a face axis whose depth is within 5% of the best edge-edge axis)",
    "conditioning terms scaled to the operands: plane-cylinder r*2e-15/sin(angle between axis and normal) (the rim point is obtained by "
    "normalising axis*<n,axis>-n), capsule-capsule 4e-16*length/sin(angle between the axes) (2x2 system of the nearest points)",
    "sphere centre exactly on the axis segment of a capsule / on the axis of a cylinder (measure zero): the radial direction is "
    "undefined and the colliders fall back to cross(z1,z2) or (1,0,0); only unit length is required there (counted)",
    "pairs without a closed form here (ellipsoid/cylinder against non-plane, capsule-cylinder) get the universal contact invariants and "
    "the mj_geomDistance symmetry/agreement checks only; their distances are C15's subject",
    "known open findings (findings/C13-*.md, findings/C15-*.md) do not switch any comparison off: every comparison is made in every pose; a "
    "violation is relabelled with a listed mechanism only if (i) the failed comparison is in that mechanism's explicit list (LISTED, "
    "mirrored by known_findings.json) and (ii) the mechanism is CONFIRMED for that violation from the engine's own output "
    "(vf/ref/mechanisms.py): the wrong value equals the value of the re-implemented defective formula (capsule-capsule parallel "
    "branch behind |det| < mjMINVAL; capsule-box: exact sphere-box contact of a sphere on the capsule axis while the axis segment "
    "meets the box; box-box: gap along one of the 15 axes = largest separating-axis gap < distance; plane-capsule: frame = (normal; "
    "(1,0,0); cross)), or the engine's own branch condition holds with its constants and a counterfactual engine run is right "
    "(box-box face substitution: normal = face axis, best axis = edge-cross axis within 0.99 of it, face gap inside the code's 5 % "
    "window, dist = along-axis surface gap; capsule-box: D^2 >= margin + 2*sizes and mj_geomDistance with a larger distmax returns the truth; sub-0.2mm capsule-box: "
    "skipped edge pair with det < mjMINVAL and the same pose scaled x1000 has no violation), or (native GJK) centres closer than "
    "ccd_tolerance and distance exactly 0 / true distance within 2*ccd_tolerance of zero (of the margin, for the inflated contact "
    "path) and the failed comparison is contact-vs-mj_geomDistance or argument-order symmetry. Anything else is a VIOLATION",
    "libccd and qhull are absent in this build: mjDSBL_NATIVECCD is never set; mesh geoms are not used by this check",
    "the design's 'global monitor in the driver for every workload of the framework' is not installed (vf/drv.py is a core file); the "
    "universal invariants are asserted on every contact produced by this check's own workloads",
]

T = {"plane": cx.PLANE, "sphere": cx.SPHERE, "capsule": cx.CAPSULE, "ellipsoid": cx.ELLIPSOID, "cylinder": cx.CYLINDER, "box": cx.BOX,
     "mesh": cx.MESH}
NSIZE = {"plane": 3, "sphere": 1, "capsule": 2, "ellipsoid": 3, "cylinder": 2, "box": 3}
ANALYTIC_PAIRS = [("plane", "sphere"), ("plane", "capsule"), ("plane", "cylinder"), ("plane", "box"), ("plane", "ellipsoid"),
                  ("sphere", "sphere"), ("sphere", "capsule"), ("sphere", "box"), ("sphere", "cylinder"),
                  ("capsule", "capsule"), ("capsule", "box"), ("box", "box")]
OTHER_PAIRS = [("sphere", "ellipsoid"), ("capsule", "cylinder"), ("capsule", "ellipsoid"), ("ellipsoid", "ellipsoid"), ("ellipsoid", "cylinder"),
               ("ellipsoid", "box"), ("cylinder", "cylinder"), ("cylinder", "box")]
POSE_CLASSES = ["far", "margin", "touch", "shallow", "deep", "inside", "coincident"]
ORI_CLASSES = ["random", "aligned", "parallel", "edge", "tilt"]


# ---- small quaternion helpers (w, x, y, z) --------------------------------------------------------------------------------
def qmul(a, b):
    return np.array([a[0] * b[0] - a[1:] @ b[1:], *(a[0] * b[1:] + b[0] * a[1:] + np.cross(a[1:], b[1:]))])


def qconj(q):
    return np.array([q[0], -q[1], -q[2], -q[3]])


def q2mat(q):
    w, x, y, z = q / np.linalg.norm(q)
    return np.array([[1 - 2 * (y * y + z * z), 2 * (x * y - z * w), 2 * (x * z + y * w)],
                     [2 * (x * y + z * w), 1 - 2 * (x * x + z * z), 2 * (y * z - x * w)],
                     [2 * (x * z - y * w), 2 * (y * z + x * w), 1 - 2 * (x * x + y * y)]])


def rand_quat(rng):
    q = rng.normal(size=4)
    return q / np.linalg.norm(q)


def aligned_quat(rng):
    """one of the 24 axis-aligned orientations"""
    q = np.array([1.0, 0, 0, 0])
    for _ in range(3):
        ax = int(rng.integers(0, 3))
        k = int(rng.integers(0, 4))
        h = k * math.pi / 4
        r = np.zeros(4)
        r[0], r[1 + ax] = math.cos(h), math.sin(h)
        q = qmul(q, r)
    return q / np.linalg.norm(q)


def fmt(a):
    return " ".join(repr(float(x)) for x in np.atleast_1d(a))


# ---- scene ------------------------------------------------------------------------------------------------------------------
def geom_xml(name, typ, size, margin, gap, off_pos=None, off_quat=None, extra=""):
    s = '<geom name="%s" type="%s" size="%s" margin="%s" gap="%s"' % (name, typ, fmt(size), repr(float(margin)), repr(float(gap)))
    if off_pos is not None:
        s += ' pos="%s" quat="%s"' % (fmt(off_pos), fmt(off_quat))
    return s + " " + extra + "/>"


def build_xml(c):
    """two bodies b0 (variant: free | static | mocap) and b1 (free); geom k of the case sits on body k"""
    g = c["geoms"]
    var = c["variant"]
    opt = '<option gravity="0 0 0" ccd_tolerance="%s" ccd_iterations="%d"><flag multiccd="%s"/></option>' % (
        repr(float(c.get("ccd_tolerance", 1e-6))), int(c.get("ccd_iterations", 50)), "enable" if c.get("multiccd", True) else "disable")
    asset = ""
    bodies = []
    for k in (0, 1):
        gk = g[k]
        extra = ""
        if gk["type"] == "mesh":
            asset += '<mesh name="m%d" vertex="%s" face="%s"/>' % (k, fmt(np.array(gk["verts"]).ravel()), " ".join(str(int(x)) for x in np.array(gk["faces"]).ravel()))
            extra = 'mesh="m%d" contype="0" conaffinity="0"' % k
            gx = '<geom name="g%d" type="mesh" margin="%s" gap="%s" %s/>' % (k, repr(float(gk["margin"])), repr(float(gk["gap"])), extra)
        else:
            gx = geom_xml("g%d" % k, gk["type"], gk["size"], gk["margin"], gk["gap"], gk.get("off_pos"), gk.get("off_quat"))
        kind = "free" if k == 1 else var
        if kind in ("free", "pair"):
            # explicit inertia: tiny geoms would otherwise be rejected for mass/inertia below mjMINVAL (irrelevant to collision)
            bodies.append('<body name="b%d"><freejoint/><inertial pos="0 0 0" mass="1" diaginertia="1 1 1"/>%s</body>' % (k, gx))
        elif kind == "mocap":
            bodies.append('<body name="b%d" mocap="true">%s</body>' % (k, gx))
        else:   # static: fixed pose from the case
            bodies.append('<body name="b%d" pos="%s" quat="%s">%s</body>' % (k, fmt(c["static_pos"]), fmt(c["static_quat"]), gx))
    contact = ""
    if var == "pair":
        a, b = (0, 1) if not c.get("pair_swap") else (1, 0)
        contact = '<contact><pair geom1="g%d" geom2="g%d" margin="%s" gap="%s"/></contact>' % (a, b, repr(float(c["pair_margin"])), repr(float(c["pair_gap"])))
    order = bodies if not c.get("body_swap") else bodies[::-1]
    return "<mujoco>%s<asset>%s</asset><worldbody>%s</worldbody>%s</mujoco>" % (opt, asset, "".join(order), contact)


class Scene:
    def __init__(self, L, c):
        self.L, self.c = L, c
        self.xml = build_xml(c)
        self.m = L.load_xml_string(self.xml)
        m = self.m
        self.gid = [self._geom_id("g0"), self._geom_id("g1")]
        self.bid = [int(m["geom_bodyid"][g]) for g in self.gid]
        if any(g["type"] == "mesh" for g in c["geoms"]):
            m["geom_contype"][:] = 1
            m["geom_conaffinity"][:] = 1
            for f in ("body_contype", "body_conaffinity"):       # aggregated per body at compile time
                if f in m:
                    m[f][1:] = 1
        self.d = m.make_data()
        self.margin = (c["pair_margin"] if c["variant"] == "pair" else c["geoms"][0]["margin"] + c["geoms"][1]["margin"])
        self.gap = (c["pair_gap"] if c["variant"] == "pair" else c["geoms"][0]["gap"] + c["geoms"][1]["gap"])
        # local geom frames inside their bodies (as compiled)
        self.gpos = [np.array(m["geom_pos"][g]) for g in self.gid]
        self.gquat = [np.array(m["geom_quat"][g]) for g in self.gid]

    def _geom_id(self, name):
        return self.L.call("mj_name2id", self.m, int(E.mjOBJ_GEOM), name)

    def set_geom_pose(self, k, P, q):
        """place geom k at world pose (P, q) through qpos / mocap of its body (static bodies cannot move)"""
        m, d = self.m, self.d
        b = self.bid[k]
        qb = qmul(q, qconj(self.gquat[k]))
        Pb = P - q2mat(qb) @ self.gpos[k]
        ja = int(m["body_jntadr"][b])
        if ja >= 0:
            a = int(m["jnt_qposadr"][ja])
            d["qpos"][a:a + 3] = Pb
            d["qpos"][a + 3:a + 7] = qb
        elif int(m["body_mocapid"][b]) >= 0:
            i = int(m["body_mocapid"][b])
            d["mocap_pos"][i] = Pb
            d["mocap_quat"][i] = qb
        else:
            raise ValueError("static body")

    def movable(self, k):
        b = self.bid[k]
        return int(self.m["body_jntadr"][b]) >= 0 or int(self.m["body_mocapid"][b]) >= 0

    def shape(self, k, from_engine=True, P=None, q=None):
        """reference Shape of geom k; pose read back from the engine after mj_forward, or a planned pose (P, q)"""
        m, d = self.m, self.d
        g = self.gid[k]
        gk = self.c["geoms"][k]
        if from_engine:
            P, R = np.array(d["geom_xpos"][g]), np.array(d["geom_xmat"][g]).reshape(3, 3)
        else:
            R = q2mat(q)
        if gk["type"] == "mesh":
            mid = int(m["geom_dataid"][g])
            va, vn = int(m["mesh_vertadr"][mid]), int(m["mesh_vertnum"][mid])
            V = np.array(m["mesh_vert"].reshape(-1, 3)[va:va + vn], dtype=float)
            return cx.Shape(cx.MESH, [0, 0, 0], P, R, V)
        return cx.Shape(T[gk["type"]], np.array(m["geom_size"][g]), P, R)


def observe(S, distmax, want_fromto=True):
    """mj_forward, contacts, mj_geomDistance in both orders"""
    L, m, d = S.L, S.m, S.d
    d.forward()
    con = d.contacts()
    out = {"ncon": len(con), "con": [dict(dist=float(k["dist"]), pos=np.array(k["pos"]), frame=np.array(k["frame"]).reshape(3, 3),
                                          geom=[int(k["geom"][0]), int(k["geom"][1])], includemargin=float(k["includemargin"]),
                                          exclude=int(k["exclude"])) for k in con]}
    g0, g1 = S.gid
    ft01, ft10 = np.zeros(6), np.zeros(6)
    out["gd01"] = L.call("mj_geomDistance", m, d, g0, g1, float(distmax), ft01, ret="f64")
    out["gd10"] = L.call("mj_geomDistance", m, d, g1, g0, float(distmax), ft10, ret="f64")
    out["ft01"], out["ft10"] = ft01, ft10
    return out


# ---- case generation ----------------------------------------------------------------------------------------------------------
def rand_size(rng, typ, scale, aspect=4.0):
    n = NSIZE[typ]
    if typ == "plane":
        return [1.0, 1.0, 0.1]
    s = scale * np.exp(rng.uniform(-math.log(aspect), 0, size=n))
    s[int(rng.integers(0, n))] = scale
    return [float(x) for x in s]


def make_case(rng, pair, idx, nposes, scale_decades=3.0):
    t0, t1 = pair
    if rng.random() < 0.5 and t0 != "plane":
        t0, t1 = t1, t0                      # which geom sits on body 0 (the one that may be static/mocap)
    scale = float(10 ** rng.uniform(-scale_decades, 0))
    rel = float(10 ** rng.uniform(-1, 1)) if rng.random() < 0.5 else 1.0
    geoms = []
    mclass = int(rng.integers(0, 4))
    for k, t in enumerate((t0, t1)):
        margin = [0.0, 0.0, float(rng.uniform(0, 0.05)), float(rng.uniform(0, 0.05) * scale)][mclass] if k == 0 or rng.random() < 0.7 else 0.0
        gap = float(rng.uniform(0, 0.02) * (scale if mclass == 3 else 1)) if (mclass >= 2 and rng.random() < 0.3) else 0.0
        gk = {"type": t, "size": rand_size(rng, t, scale * (rel if k == 1 else 1.0), aspect=float(rng.choice([1.5, 4.0, 20.0]))),
              "margin": margin, "gap": gap}
        if t != "plane" and rng.random() < 0.3:
            gk["off_pos"] = [float(x) for x in rng.normal(size=3) * scale]
            gk["off_quat"] = [float(x) for x in rand_quat(rng)]
        geoms.append(gk)
    if t0 == "plane":
        variant = str(rng.choice(["static", "mocap"]))
    else:
        variant = str(rng.choice(["free", "free", "static", "mocap", "pair"]))
    c = {"geoms": geoms, "variant": variant, "body_swap": bool(rng.random() < 0.5), "scale": scale,
         "static_pos": [float(x) for x in rng.normal(size=3) * 0.3], "static_quat": [float(x) for x in rand_quat(rng)],
         "pair_margin": float(rng.choice([0.0, rng.uniform(0, 0.1), rng.uniform(0, 0.1) * scale])), "pair_gap": float(rng.choice([0.0, rng.uniform(0, 0.02) * scale])),
         "pair_swap": bool(rng.random() < 0.5), "seed": int(rng.integers(0, 2 ** 31)), "nposes": nposes, "idx": idx,
         "pair": "%s-%s" % pair}
    if pair in OTHER_PAIRS or pair == ("box", "box"):
        c["ccd_iterations"] = 500          # the iteration limit is C15's subject
    if pair in OTHER_PAIRS:
        for gk in geoms:                   # EPA is capped at 1000 iterations: margin >> size does not converge (C15's subject)
            gk["margin"] = min(gk["margin"], 0.05 * scale)
            gk["gap"] = min(gk["gap"], 0.02 * scale)
        c["pair_margin"] = min(c["pair_margin"], 0.1 * scale)
    return c


def plan_pose(rng, S, pclass, oclass):
    """world poses (P0,q0,P1,q1) for the two geoms realising a pose class; body 0 may be immovable (static)"""
    c = S.c
    scale = c["scale"]
    if S.movable(0):
        P0 = rng.normal(size=3) * rng.choice([0.0, 0.3, 3.0]) * max(scale, 0.05)
        q0 = rand_quat(rng) if oclass != "aligned" or rng.random() < 0.5 else aligned_quat(rng)
    else:
        A = S.shape(0)
        P0, q0 = A.pos, None
    if q0 is None:
        A0 = S.shape(0)
        R0 = A0.R
    else:
        A0 = S.shape(0, False, P0, q0)
        R0 = A0.R
    # orientation of geom 1 relative to geom 0
    if oclass == "random":
        q1 = rand_quat(rng)
        R1 = q2mat(q1)
    else:
        if oclass == "aligned":
            rel = aligned_quat(rng)
        elif oclass == "parallel":
            a = rng.uniform(0, 2 * math.pi)
            rel = np.array([math.cos(a / 2), 0, 0, math.sin(a / 2)])       # rotation about the common z axis
            if rng.random() < 0.5:
                rel = qmul(np.array([0, 1.0, 0, 0]), rel)                   # or anti-parallel
        elif oclass == "edge":
            rel = qmul(aligned_quat(rng), np.array([math.cos(math.pi / 8), math.sin(math.pi / 8), 0, 0]))
        else:   # tilt: almost aligned/parallel
            e = rng.normal(size=3) * 10 ** rng.uniform(-9, -2)
            rel = qmul(aligned_quat(rng) if rng.random() < 0.5 else np.array([1.0, 0, 0, 0]), np.array([1.0, *(e / 2)]))
            rel /= np.linalg.norm(rel)
        # q1 = q0 * rel, with q0 recovered from R0 when body 0 is static
        q0e = mat2quat(R0)
        q1 = qmul(q0e, rel)
        R1 = q2mat(q1)
    B0 = S.shape(1, False, np.zeros(3), q1)
    t0 = c["geoms"][0]["type"]
    mg = S.margin + S.gap
    L = min(A0.minsize() if t0 != "plane" else 1e9, B0.minsize())
    Lx = (A0.extent() if t0 != "plane" else 0.0) + B0.extent()
    delta = {"far": mg + Lx * 10 ** rng.uniform(-3, 0.5), "margin": mg * rng.uniform(0, 1) if mg > 0 else L * 10 ** rng.uniform(-9, -5),
             "touch": L * 10 ** rng.uniform(-12, -6) * rng.choice([-1, 1]), "shallow": -L * 10 ** rng.uniform(-5, -1),
             "deep": -L * rng.uniform(0.1, 1.5), "inside": 0.0, "coincident": 0.0}[pclass]
    if t0 == "plane":
        n = R0[:, 2]
        lat = R0[:, 0] * rng.normal() + R0[:, 1] * rng.normal()
        if pclass in ("inside", "coincident"):
            delta = -B0.extent() * rng.uniform(0, 2)
        P1 = P0 + lat * max(scale, 0.05) * 3 + n * (B0.h(-n) + delta)
        return P0, q0, P1, q1
    if pclass == "coincident":
        return P0, q0, P0.copy(), q1
    if pclass == "inside":
        # centre of geom 1 somewhere inside geom 0 (or vice versa)
        v = rng.normal(size=3)
        v *= rng.uniform(0, 1) ** (1 / 3) / np.linalg.norm(v)
        loc = v * 0.9 * (np.resize(A0.size, 3) if A0.kind in (cx.BOX, cx.ELLIPSOID) else A0.minsize())
        if rng.random() < 0.3:
            loc[int(rng.integers(0, 3))] = 0.0           # on a symmetry plane
        return P0, q0, P0 + R0 @ loc, q1
    if oclass == "random" or rng.random() < 0.4:
        u = rng.normal(size=3)
    else:
        # along a local axis / edge / corner direction of geom 0
        u = R0 @ np.array(rng.choice([-1, 0, 1], size=3), dtype=float)
        if not u.any():
            u = R0[:, 2]
    u /= np.linalg.norm(u)
    Ac = cx.Shape(A0.kind, A0.size, np.zeros(3), R0, A0.verts)
    w0 = Ac.h(u) + B0.h(-u)
    P1 = P0 + u * (w0 + delta)
    if oclass in ("parallel", "edge", "aligned") and rng.random() < 0.5:
        # slide sideways so that features overlap partially
        tdir = np.cross(u, R0[:, int(rng.integers(0, 3))])
        if np.linalg.norm(tdir) > 1e-6:
            P1 = P1 + tdir / np.linalg.norm(tdir) * rng.uniform(-1, 1) * Lx * 0.5
    return P0, q0, P1, q1


def mat2quat(R):
    """quaternion of a rotation matrix (largest-component branch)"""
    K = np.array([[R[0, 0] + R[1, 1] + R[2, 2], R[2, 1] - R[1, 2], R[0, 2] - R[2, 0], R[1, 0] - R[0, 1]],
                  [R[2, 1] - R[1, 2], R[0, 0] - R[1, 1] - R[2, 2], R[0, 1] + R[1, 0], R[0, 2] + R[2, 0]],
                  [R[0, 2] - R[2, 0], R[0, 1] + R[1, 0], R[1, 1] - R[0, 0] - R[2, 2], R[1, 2] + R[2, 1]],
                  [R[1, 0] - R[0, 1], R[0, 2] + R[2, 0], R[1, 2] + R[2, 1], R[2, 2] - R[0, 0] - R[1, 1]]])
    w, v = np.linalg.eigh(K)
    q = v[:, -1]
    return q / np.linalg.norm(q) * (1 if q[0] >= 0 else -1)


# ---- checks ---------------------------------------------------------------------------------------------------------------------
def universal_checks(P, S, obs, scale, viol, A=None, B=None):
    """invariants of every contact; returns list of contacts in canonical order"""
    mg = S.margin + S.gap
    for i, k in enumerate(obs["con"]):
        F = k["frame"]
        n = F[0]
        P.count("contacts_checked")
        e = abs(float(n @ n) - 1)
        P.note_max("normal_norm_err", e)
        if not np.isfinite(F).all() or not np.isfinite(k["dist"]) or not np.isfinite(k["pos"]).all():
            viol("contact-not-finite", contact=i)
            continue
        if e > 1e-9:
            viol("contact-normal-not-unit", contact=i, norm2=float(n @ n))
        e = float(np.abs(F @ F.T - np.eye(3)).max())
        P.note_max("frame_orthonormality_err", e)
        if e > 1e-9:
            # listed mechanism (findings/C13-plane-capsule-frame-not-orthonormal.md): plane-capsule hands the capsule axis to
            # mju_makeFrame as tangent; when it is parallel to the normal the projected tangent vanishes and mju_normalize3
            # substitutes (1,0,0).  Confirmed only if the axis IS parallel to the plane normal and the frame is exactly
            # (plane normal; (1,0,0); their cross product), i.e. nothing but the missing re-orthogonalisation is wrong
            # (second facet: the axis is ALMOST parallel, angle theta < 1e-6: the projected tangent keeps ~1e-16 of rounding and is
            # normalised, <normal, tangent> ~ 1e-16/theta; confirmed when that scalar product, bounded by 1e-15/theta, is the only defect)
            along = (A is not None and A.kind == cx.PLANE and B.kind == cx.CAPSULE and abs(abs(float(A.R[:, 2] @ B.axis)) - 1) < 1e-12
                     and (mech.frame_is_x_fallback(F, A.R[:, 2]) or mech.frame_is_projected_near_parallel_tangent(F, A.R[:, 2], B.axis)))
            viol(("plane-capsule-axis-along-normal:" if along else "") + "contact-frame-not-orthonormal", contact=i, err=e, frame=F)
        if k["dist"] > mg + 1e-12 * max(scale, mg):
            viol("contact-dist-exceeds-margin", contact=i, dist=k["dist"], margin=S.margin, gap=S.gap)
        if set(k["geom"]) != set(S.gid):
            viol("contact-geom-ids-wrong", contact=i, geom=k["geom"])
        if abs(k["includemargin"] - S.margin) > 1e-15 + 1e-12 * abs(S.margin):
            viol("contact-includemargin-differs-from-pair-margin", contact=i, includemargin=k["includemargin"], margin=S.margin)


def between_surfaces(A, B, k, tol):
    """is contact position between the two surfaces (either accepted reading)?  returns (ok, diagnostics)"""
    d, n, pos = k["dist"], k["frame"][0], k["pos"]
    sa, sb = A.sd_point(pos), B.sd_point(pos)
    if d > 0:
        weak = sa >= -tol and sb >= -tol and sa + sb <= d + 2 * tol
    else:
        weak = sa <= tol and sb <= tol and sa >= d - tol and sb >= d - tol
    if weak:
        return True, {"sdA": sa, "sdB": sb}
    p1, p2 = pos - n * d / 2, pos + n * d / 2
    s1, s2 = A.sd_point(p1), B.sd_point(p2)
    return (abs(s1) <= tol and abs(s2) <= tol), {"sdA": sa, "sdB": sb, "sdA_p1": s1, "sdB_p2": s2}


def canonical(S, obs):
    """(kA, kB): indices (0/1) of the case geoms playing geom[0] / geom[1] of the contacts (engine order)"""
    if obs["con"]:
        g = obs["con"][0]["geom"]
        return S.gid.index(g[0]), S.gid.index(g[1])
    ta, tb = T[S.c["geoms"][0]["type"]], T[S.c["geoms"][1]["type"]]
    if ta != tb:
        return (0, 1) if ta < tb else (1, 0)
    return (0, 1) if S.gid[0] < S.gid[1] else (1, 0)


# ---- listed mechanisms: a violation is relabelled only after the mechanism has been CONFIRMED for that very violation ------------------
# mechanism -> check names (first component of the generic signature) that the confirmation test of the mechanism covers.  These
# lists mirror the open C13 entries of known_findings.json one to one; everything else keeps its generic signature = VIOLATION.
_CONTACT_CHECKS = ("contact-dist-differs-from-true-distance", "contact-normal-does-not-realise-distance",
                   "contact-normal-differs-from-true-normal", "contact-pos-not-between-surfaces")
LISTED = {
    "capsule-capsule-parallel-branch:nested-spans": ("geomDistance-not-symmetric", "geomDistance-differs-from-true-distance",
                                                     "geomDistance-differs-from-contact-dist") + _CONTACT_CHECKS,
    "capsule-capsule-parallel-branch:nonparallel-axes": ("geomDistance-not-symmetric", "geomDistance-differs-from-true-distance",
                                                         "geomDistance-differs-from-contact-dist", "geomDistance-fromto-not-reversed-on-swap") + _CONTACT_CHECKS,
    "capsule-box-segment-meets-box": ("no-contact-although-distance-below-margin", "geomDistance-differs-from-true-distance",
                                      "geomDistance-differs-from-contact-dist", "contact-deeper-than-geometry-along-its-normal",
                                      "contact-normal-points-from-geom2-to-geom1") + _CONTACT_CHECKS,
    "capsule-box-far-initial-bestdist": ("no-contact-although-distance-below-margin", "geomDistance-differs-from-true-distance",
                                         "geomDistance-differs-from-contact-dist"),
    "capsule-box-small-absolute-threshold": ("no-contact-although-distance-below-margin", "geomDistance-differs-from-true-distance"),
    "box-box-separated-vertex-features": ("no-contact-although-distance-below-margin", "contact-dist-differs-from-true-distance",
                                          "geomDistance-differs-from-contact-dist", "contact-normal-does-not-realise-distance",
                                          "contact-pos-not-between-surfaces"),
    "box-box-separated:face-axis-preferred-within-5pct": ("contact-normal-does-not-realise-distance",),
    "box-box-face-axis-separated-no-contact-at-any-margin": ("no-contact-although-distance-below-margin",),
    "ccd-coincident-centres": ("geomDistance-differs-from-true-distance", "geomDistance-differs-from-contact-dist"),
    "ccd-touching-within-tolerance": ("geomDistance-differs-from-contact-dist", "geomDistance-not-symmetric"),
}


def ccd_coincident_centres(A, B, tol):
    """GJK starts from the difference of the geom centres and stops at once when it is shorter than its tolerance
    (findings/C15-gjk-coincident-centres.md)"""
    return float(np.linalg.norm(A.pos - B.pos)) <= tol


def scaled_twin_ok(S, K, distmax):
    """counterfactual for absolute-threshold mechanisms: the same two geoms in the same relative pose, every length multiplied by K.
    True iff the engine is right (no violation of any kind, listed or not) on the scaled twin"""
    c2 = json.loads(json.dumps(S.c))
    for gk in c2["geoms"]:
        if gk["type"] != "plane":
            gk["size"] = [float(x) * K for x in gk["size"]]
        gk["margin"], gk["gap"] = gk["margin"] * K, gk["gap"] * K
        if gk.get("off_pos") is not None:
            gk["off_pos"] = [float(x) * K for x in gk["off_pos"]]
    for f in ("static_pos",):
        c2[f] = [float(x) * K for x in c2[f]]
    c2["pair_margin"], c2["pair_gap"], c2["scale"] = c2["pair_margin"] * K, c2["pair_gap"] * K, c2["scale"] * K
    try:
        S2 = Scene(S.L, c2)
        S2.d.forward()
        for k in (0, 1):
            X = S.shape(k)
            if S2.movable(k):
                S2.set_geom_pose(k, X.pos * K, mat2quat(X.R))
        obs2 = observe(S2, distmax * K)
        sink2 = []
        check_pose(core.Part(), S2, obs2, distmax * K, "twin", {}, sink=sink2, allow_twin=False)
    except drv.MjError:
        return False
    # the twin must really be the same configuration (static bodies cannot be moved: their pose is scaled through the case)
    for k in (0, 1):
        X, X2 = S.shape(k), S2.shape(k)
        if float(np.abs(X2.pos - X.pos * K).max()) > 1e-9 * K * (1 + float(np.abs(X.pos).max())) or float(np.abs(X2.R - X.R).max()) > 1e-9:
            return False
    return not sink2


def build_mechanisms(P, S, A, B, obs, ref, distmax, mg, scale, ext, tolc, tolg, con, gdA, gdB, ftA, ftB, allow_twin=True):
    """-> list of (mechanism prefix, test) for this pose; test(check_name) -> bool runs the confirmation of that mechanism for that
    check from the engine's own output (results cached).  Region counters `poses_<mechanism>` count poses that meet the
    structural precondition of a mechanism (not relabelled violations)."""
    out = []
    cache = {}

    def once(key, fn):
        if key not in cache:
            cache[key] = bool(fn())
        return cache[key]
    pair = (A.kind, B.kind)
    c = S.c
    ccd_tol = float(c.get("ccd_tolerance", 1e-6))
    isbox = pair == (cx.BOX, cx.BOX)

    # -- capsule-capsule: findings/C13-capsule-capsule-parallel-branch.md
    if pair == (cx.CAPSULE, cx.CAPSULE):
        a1, a2 = A.axis * A.size[1], B.axis * B.size[1]
        if abs(mech.capsule_det(a1, a2)) < float(E.mjMINVAL):           # the engine's (absolute) branch condition
            st = float(np.linalg.norm(np.cross(A.axis, B.axis)))

            def nested(X, Y):
                cc = float(Y.size[1])
                ts = [float((X.pos + sg * X.axis * X.size[1] - Y.pos) @ Y.axis) for sg in (1, -1)]
                return min(ts) < -cc * (1 + 1e-12) and max(ts) > cc * (1 + 1e-12)
            facet = "nonparallel-axes" if st > 1e-9 else ("nested-spans" if (nested(A, B) or nested(B, A)) else None)
            if facet:
                name = "capsule-capsule-parallel-branch:" + facet
                P.count("poses_" + name)
                tl = 1e-12 * scale
                rA, rB = float(A.size[0]), float(B.size[0])
                okc = lambda: once("cc_c", lambda: mech.contacts_equal(con, mech.capsule_parallel_branch(A.pos, a1, rA, B.pos, a2, rB, mg, A.axis, B.axis), tl, scale, rA))
                okab = lambda: once("cc_ab", lambda: mech.geomdist_equal(gdA, mech.capsule_parallel_branch(A.pos, a1, rA, B.pos, a2, rB, distmax, A.axis, B.axis), distmax, tl))
                okba = lambda: once("cc_ba", lambda: mech.geomdist_equal(gdB, mech.capsule_parallel_branch(B.pos, a2, rB, A.pos, a1, rA, distmax, B.axis, A.axis), distmax, tl))
                okft = lambda: once("cc_ft", lambda: mech.geomdist_equal(gdA, mech.capsule_parallel_branch(A.pos, a1, rA, B.pos, a2, rB, distmax, A.axis, B.axis), distmax, tl, ftA, scale, rA)
                                    and mech.geomdist_equal(gdB, mech.capsule_parallel_branch(B.pos, a2, rB, A.pos, a1, rA, distmax, B.axis, A.axis), distmax, tl, ftB, scale, rB))

                def test(chk):
                    # the engine's value(s) that entered the failed comparison must be exactly what the parallel-branch formula yields
                    if chk == "geomDistance-not-symmetric":
                        return okab() and okba()
                    if chk == "geomDistance-fromto-not-reversed-on-swap":
                        return okft()           # both witness segments are those of the branch's end-point candidates
                    if chk == "geomDistance-differs-from-true-distance":
                        return okab()
                    if chk == "geomDistance-differs-from-contact-dist":
                        return okab() and okc()
                    return okc()
                out.append((name, test))

    # -- capsule-box: three findings
    if pair == (cx.CAPSULE, cx.BOX):
        D, _ = primdist._seg_box_dist(B.local(A.pos), (A.axis * A.size[1]) @ B.R, B.size[:3])
        tl = max(1e-9 * scale, 1e-12)
        if D <= 1e-12 * B.extent():
            # findings/C13-capsule-box-segment-meets-box.md: the routine ends in mjraw_SphereBox at one or two points of the axis; it
            # has no candidate for a segment that meets the box.  Confirmed when every contact IS the exact contact of such a sphere
            # (only the choice of the axis point is wrong) / nothing was found and both end-cap spheres are out of range
            P.count("poses_capsule-box-segment-meets-box")
            ends = lambda: min(mech.endpoint_sphere_dists(A, B))
            okc = lambda: once("cb_c", lambda: bool(con) and all(mech.axis_sphere_contact(A, B, k["dist"], k["frame"][0], k["pos"], tl) for k in con))
            oknc = lambda: once("cb_nc", lambda: (not con) and ends() >= mg - tl)

            def okg_():
                if gdA >= distmax - tl:
                    return ends() >= distmax - tl
                if abs(gdA) <= 1e-6 * scale:
                    return False                       # witness direction not recoverable from fromto
                return mech.axis_sphere_contact(A, B, gdA, (ftA[3:] - ftA[:3]) / gdA, 0.5 * (ftA[3:] + ftA[:3]), tl)
            okg = lambda: once("cb_g", okg_)

            def test(chk):
                if chk == "no-contact-although-distance-below-margin":
                    return oknc()
                if chk == "geomDistance-differs-from-true-distance":
                    return okg()
                if chk == "geomDistance-differs-from-contact-dist":
                    return okg() and okc()
                return okc()
            out.append(("capsule-box-segment-meets-box", test))
        else:
            init = mech.capsule_box_initial_bestdist(A, B, 0.0)
            far_c, far_g = D * D >= mg + init, D * D >= distmax + init
            if far_c or far_g:
                # findings/C13-capsule-box-far-initial-bestdist.md: every candidate's SQUARED distance is >= D^2 and is compared with the
                # LENGTH margin + 2*(sizes).  Confirmed when that inequality holds for the margin of the failing path, the engine found
                # nothing there, and mj_geomDistance with a distmax large enough for D^2 < distmax + 2*(sizes) returns the true distance
                P.count("poses_capsule-box-far-initial-bestdist")

                def cf_():
                    ft = np.zeros(6)
                    g = S.L.call("mj_geomDistance", S.m, S.d, S.gid[0], S.gid[1], float(2 * D * D + 1.0), ft, ret="f64")
                    return abs(g - ref["dist"]) <= tolg
                cf = lambda: once("far_cf", cf_)

                def test(chk):
                    if chk == "no-contact-although-distance-below-margin":
                        return far_c and not con and cf()
                    return far_g and gdA >= distmax - tl and cf()
                out.append(("capsule-box-far-initial-bestdist", test))
            dets, sin2 = mech.capsule_box_edge_dets(A, B)
            skipped = (np.abs(dets) < float(E.mjMINVAL)) & (sin2 > 1e-12)
            if skipped.any() and allow_twin:
                # same write-up as capsule-capsule (absolute det threshold): a segment/edge pair is skipped when
                # size_j^2*halflength^2*sin^2 < mjMINVAL although the axes are not parallel; needs geoms below ~0.2 mm.  Confirmed when
                # the engine found nothing and is right on the same pose with all lengths x1000 (no threshold is met there)
                P.count("poses_capsule-box-small-absolute-threshold")
                twin = lambda: once("twin", lambda: scaled_twin_ok(S, 1000.0, distmax))

                def test(chk):
                    if chk == "no-contact-although-distance-below-margin":
                        return not con and twin()
                    return gdA >= distmax - tl and twin()
                out.append(("capsule-box-small-absolute-threshold", test))

    # -- box-box inside the margin: findings/C13-box-box-separated-vertex-features.md
    if isbox and ref["dist"] > 0 and ref.get("sat_sep", ref["dist"]) < ref["dist"] - 1e-9 * scale:
        # nearest features are vertex-vertex / vertex-edge: the largest separating-axis gap is smaller than the Euclidean distance.
        # Confirmed when the deepest contact's normal is one of the 15 axes, the gap along it is the largest separating-axis gap and the
        # contact distance is that gap or the surface-to-surface distance along that axis at the clipped contact point (what a SAT
        # routine reports); for 'no contact': GJK (mj_geomDistance) does see the true distance
        P.count("poses_box-box-separated-vertex-features")
        td, sat = ref["dist"], ref["sat_sep"]
        tl = max(1e-9 * scale, 1e-12)

        def okc_():
            if not con:
                return False
            k0 = con[int(np.argmin([k["dist"] for k in con]))]
            return mech.box_contact_is_sat_gap(A, B, k0["dist"], k0["frame"][0], k0["pos"], sat, tl)
        okc = lambda: once("bb_c", okc_)
        okg = lambda: abs(gdA - min(td, distmax)) <= tolg

        def test(chk):
            if chk == "no-contact-although-distance-below-margin":
                return not con and okg()
            if chk == "geomDistance-differs-from-contact-dist":
                return okc() and okg()
            return okc()
        out.append(("box-box-separated-vertex-features", test))

    # -- box-box separated, largest separating-axis gap == Euclidean distance (face features), yet mjc_BoxBox builds no manifold whatever
    # the margin: findings/C13-box-box-face-separated-no-contact-at-any-margin.md.  Confirmed per pose: no contact, GJK (mj_geomDistance)
    # sees the true distance, the narrow-phase routine called directly with a margin of max(1, 20*(margin+gap)) still returns 0, and
    # the same routine returns contacts when the second box is turned by 1e-5 rad (degenerate pose, not a missing margin band)
    if isbox and ref["dist"] > 0 and not con and ref.get("sat_sep", -math.inf) >= ref["dist"] - 1e-9 * scale:
        def anymargin_():
            import ctypes as C
            f = S.L.lib.mjc_BoxBox
            f.restype = C.c_int
            f.argtypes = [C.c_void_p, C.c_void_p, C.c_void_p, C.c_int, C.c_int, C.c_double]
            buf = (C.c_double * 4096)()
            if not (f(S.m.ptr, S.d.ptr, buf, int(S.gid[0]), int(S.gid[1]), float(max(1.0, 20 * mg))) == 0
                    and abs(gdA - min(ref["dist"], distmax)) <= tolg):
                return False
            # ... and it is a DEGENERACY of the pose, not a missing margin band: with the second box turned by 1e-5 rad (its geom_xmat
            # edited in place for one direct call, then restored) the routine does return contacts at the pair's own margin
            xm = S.d["geom_xmat"]
            saved = np.array(xm).copy()
            try:
                g = int(S.gid[1])
                Rg = saved.reshape(-1, 3, 3)[g]
                w = np.array([1.0, 1.0, 1.0]) / math.sqrt(3.0) * 1e-5
                K = np.array([[0, -w[2], w[1]], [w[2], 0, -w[0]], [-w[1], w[0], 0]])
                xm.reshape(-1, 9)[g, :] = (Rg @ (np.eye(3) + K)).ravel()
                return f(S.m.ptr, S.d.ptr, buf, int(S.gid[0]), int(S.gid[1]), float(S.margin)) > 0
            finally:
                xm.reshape(-1, 9)[:, :] = saved.reshape(-1, 9)
        P.count("poses_box-box-face-axis-separated-no-contact")
        out.append(("box-box-face-axis-separated-no-contact-at-any-margin", lambda chk: once("bb_anymargin", anymargin_)))

    # -- box-box separated inside the margin, face substitution: findings/C13-box-box-separated-vertex-features.md (second mechanism)
    if isbox and 0 < ref["dist"] < mg and con:
        # mjc_BoxBox reports a FACE axis instead of the best (edge-cross) axis when the face gap is within 5 % of the best gap and the
        # axes are within ~8 degrees.  For separated boxes the closest direction is unique, so this is an error of up to ~5 % in the
        # normal / dist.  Confirmed from the engine's output: normal = a face axis, best axis = an edge-cross axis within 0.99 of it,
        # gap(normal) inside the code's 5 % window below the best gap, contact dist = along-that-axis surface gap
        def okf_():
            k0 = con[int(np.argmin([k["dist"] for k in con]))]
            ok, _, _ = mech.box_face_axis_preferred(A, B, k0["dist"], k0["frame"][0], k0["pos"], max(1e-9 * scale, 1e-12))
            if ok:
                P.count("poses_box-box-separated:face-axis-preferred-within-5pct")
            return ok
        out.append(("box-box-separated:face-axis-preferred-within-5pct", lambda chk: once("bb_face", okf_)))

    # -- pairs whose mj_geomDistance (box-box) or contacts as well (pairs without analytic collider) come from the native GJK/EPA
    if (isbox or ref is None) and A.kind != cx.PLANE:
        if ccd_coincident_centres(A, B, max(ccd_tol, 1e-15)):
            # findings/C15-gjk-coincident-centres.md: confirmed when the centres coincide within the GJK tolerance AND the engine
            # returned |centre1 - centre2| (0 up to rounding) in both orders: the value of the first-iteration exit
            P.count("poses_ccd-coincident-centres")
            cd = float(np.linalg.norm(A.pos - B.pos))       # gjk() returns the norm of its initial guess centre1 - centre2
            out.append(("ccd-coincident-centres", lambda chk: abs(gdA - cd) <= 1e-15 + 1e-12 * cd and abs(gdB - cd) <= 1e-15 + 1e-12 * cd))
        # findings/C15-epa-from-touching-simplex.md (the defect belongs to C15; here it can only show as an inconsistency between the
        # margin-inflated contact path and the un-inflated distance path, or between the two argument orders).  Eager: decided for
        # every pose of these pairs from the reference alone, before any comparison
        band = 2 * ccd_tol
        if isbox:
            lo = hi = ref["dist"]
        else:
            r_ = cx.signed_distance(A, B)
            lo, hi = r_["lower"], (r_["upper"] if (r_["separated"] or r_["exact"]) else r_["lower"])
        touch_gd = lo >= -band and hi <= band
        touch_c = (not isbox) and mg > 0 and lo >= mg - band and hi <= mg + band
        if touch_gd or touch_c:
            P.count("poses_ccd-touching-within-tolerance")
            out.append(("ccd-touching-within-tolerance", lambda chk: touch_gd if chk == "geomDistance-not-symmetric" else (touch_gd or touch_c)))
    return out


def check_pose(P, S, obs, distmax, tag, witness, tol_contact=None, tol_gd=None, sink=None, allow_twin=True):
    """all C13 checks for one observed pose; returns regime string; violations go to `sink` (list) when given"""
    c = S.c
    mechs = []

    def viol(sig, **kw):
        chk = sig.split(":")[0]
        if not sig.startswith("plane-capsule-axis"):
            for name, test in mechs:
                if chk in LISTED[name] and test(chk):
                    sig = name + ":" + sig
                    break
        det = dict(witness, **{k: (v.tolist() if isinstance(v, np.ndarray) else v) for k, v in kw.items()})
        if sink is not None:
            sink.append((sig, det))
        else:
            P.violation(sig, det)
    kA, kB = canonical(S, obs)
    A, B = S.shape(kA), S.shape(kB)
    ext = (A.extent() if A.kind != cx.PLANE else 0.0) + B.extent()
    scale = ext + float(np.linalg.norm(A.pos - B.pos)) if A.kind != cx.PLANE else ext + abs(A.sd_point(B.pos))
    mg = S.margin + S.gap
    universal_checks(P, S, obs, scale, viol, A, B)
    pairname = cx.NAMES[A.kind] + "-" + cx.NAMES[B.kind]
    ref = primdist.analytic(A, B)
    isbox = (A.kind, B.kind) == (cx.BOX, cx.BOX)
    ccd_tol = float(c.get("ccd_tolerance", 1e-6))
    tolc = tol_contact if tol_contact is not None else (1e-9 * scale if not isbox else max(1e-3 * ext, 10 * ccd_tol))
    if isbox and ref["dist"] < 0:
        tolc = max(tolc, 0.05 * abs(ref["dist"]))       # mjc_BoxBox prefers a face axis within 5% of the best edge-edge axis
    tolg = tol_gd if tol_gd is not None else (1e-9 * scale if not isbox else max(1e-6 * ext, 10 * ccd_tol))
    if (A.kind, B.kind) == (cx.CAPSULE, cx.BOX) and tol_contact is None:
        # legacy routine: exact to ~1e-7 in general position; when the capsule is nearly parallel to a box edge (angle < 0.015 rad)
        # its segment/edge 2x2 systems degrade and the nearest pair is only approximately located (observed up to 3e-6*scale)
        near_par = float(np.abs(B.R.T @ A.axis).max()) > 1 - 1e-4
        tolc = tolg = (1e-4 if near_par else 1e-6) * scale
    if (A.kind, B.kind) == (cx.PLANE, cx.CYLINDER):
        # the collider forms axis*<n,axis> - n and normalises it: relative rounding eps/sin(angle) on the rim point for nearly
        # parallel disc and plane (conditioning of the formula, scaled to the operands)
        st = float(np.linalg.norm(np.cross(A.R[:, 2], B.axis)))
        if st > 0:
            tolc += B.size[0] * 2e-15 / st
            tolg += B.size[0] * 2e-15 / st
    tolsym = 1e-12 * scale
    if (A.kind, B.kind) == (cx.CAPSULE, cx.CAPSULE):
        # nearly parallel axes: the 2x2 system for the nearest points has condition ~ 1/sin^2(angle); the distance error is
        # eps*length/sin(angle) (conditioning of the textbook formula, scaled to the operands)
        st = float(np.linalg.norm(np.cross(A.axis, B.axis)))
        cterm = 2e-15 * (A.size[1] + B.size[1] + scale) / max(st, 1e-9)
        tolc += cterm
        tolg += cterm
        tolsym += cterm
    con = obs["con"]
    regime = "none"
    gdA, gdB = (obs["gd01"], obs["gd10"]) if kA == 0 else (obs["gd10"], obs["gd01"])
    ftA = obs["ft01"] if kA == 0 else obs["ft10"]
    ftB = obs["ft10"] if kA == 0 else obs["ft01"]

    # ---- mj_geomDistance: symmetric in its two geoms
    if not (np.isfinite(gdA) and np.isfinite(gdB)):
        viol("geomDistance-not-finite:" + pairname, gd=[gdA, gdB])
        return regime
    # listed mechanisms whose structural precondition this pose meets; each violation below is tested against them individually
    mechs.extend(build_mechanisms(P, S, A, B, obs, ref, distmax, mg, scale, ext, tolc, tolg, con, gdA, gdB, ftA, ftB, allow_twin=allow_twin))
    P.note_max("geomdist_asym_rel", abs(gdA - gdB) / max(scale, 1e-300))
    if abs(gdA - gdB) > (tolsym if (ref is not None and not isbox) else 10 * ccd_tol + 1e-6 * ext):
        viol("geomDistance-not-symmetric:" + pairname, gd_ab=gdA, gd_ba=gdB, distmax=distmax)
    elif gdA < distmax and gdB < distmax and ref is not None and ref["n"] is not None and ref["ncond"] > 1e-6 * ext:
        e = max(float(np.abs(ftA[:3] - ftB[3:]).max()), float(np.abs(ftA[3:] - ftB[:3]).max()))
        if e > (1e-9 * scale if (ref is not None and not isbox) else None or 1e30):
            viol("geomDistance-fromto-not-reversed-on-swap:" + pairname, ft_ab=ftA, ft_ba=ftB)
    if gdA > distmax:
        viol("geomDistance-exceeds-distmax:" + pairname, gd=gdA, distmax=distmax)

    # ---- contact <-> mj_geomDistance
    dmin = min((k["dist"] for k in con), default=None)
    if dmin is not None:
        regime = "pen" if dmin < 0 else "sep"
        if dmin < distmax - tolg:
            e = abs(dmin - gdA)
            P.note_max("contact_vs_geomdist_rel:" + ("boxbox" if isbox else "other"), e / max(ext, 1e-300))
            # box-box: different algorithms (mjc_BoxBox vs GJK/EPA)
            lim = tolc if isbox else (tolsym if ref is not None else 10 * ccd_tol + 1e-6 * ext)
            if e > lim:
                viol("geomDistance-differs-from-contact-dist:" + pairname, contact=dmin, gd=gdA, distmax=distmax, tol=lim)
            else:
                P.count("geomdist_agrees_with_contact")

    if ref is None:
        P.count("poses_without_closed_form")
        return regime + ":noref"

    # ---- closed-form pairs
    td = ref["dist"]
    regime = ("pen" if td < 0 else "sep") + (":contact" if con else ":nocontact")
    # contact must exist inside margin+gap, must not exist beyond
    if not con and td < mg - tolc:
        viol("no-contact-although-distance-below-margin:" + pairname, true=td, margin=S.margin, gap=S.gap)
    # mj_geomDistance against the truth
    want = min(td, distmax)
    e = abs(gdA - want)
    P.note_max("geomdist_vs_ref_rel:" + ("boxbox" if isbox else "closedform"), e / max(ext, 1e-300))
    if e > tolg and not (abs(td - distmax) <= tolg):
        viol("geomDistance-differs-from-true-distance:" + pairname, gd=gdA, true=td, distmax=distmax, tol=tolg)
    if not con:
        return regime
    # deepest contact against the truth
    i0 = int(np.argmin([k["dist"] for k in con]))
    k0 = con[i0]
    e = abs(k0["dist"] - td)
    P.note_max("contact_dist_vs_ref_rel:" + ("boxbox" if isbox else "closedform"), e / max(ext, 1e-300))
    if e > tolc:
        viol("contact-dist-differs-from-true-distance:" + pairname, dist=k0["dist"], true=td, tol=tolc, ncon=len(con))
    # normal points from geom1 to geom2 and realises the distance
    n = k0["frame"][0]
    sepn = cx.sep(A, B, n) if A.kind != cx.PLANE else (-B.h(-n) - float(n @ A.pos) if float(n @ A.R[:, 2]) > 1 - 1e-9 else -np.inf)
    P.note_max("normal_realises_dist_defect_rel", (td - sepn) / max(ext, 1e-300))
    core_coincident = (A.kind in (cx.SPHERE, cx.CAPSULE) and B.kind in (cx.SPHERE, cx.CAPSULE, cx.CYLINDER) and ref["ncond"] <= 1e-12 * ext
                       and ref.get("degenerate_axis", True))
    if core_coincident:
        P.count("skipped_normal_check_coincident_cores")
    # the normal of sphere/capsule pairs is (p2-p1)/D: direction error ~ (rounding of the nearest points)/D, first order in the
    # separation along it (conditioning, scaled to the operands)
    toln = max(tolc, 1e-9 * scale)
    if A.kind in (cx.SPHERE, cx.CAPSULE) and B.kind in (cx.SPHERE, cx.CAPSULE) and ref["ncond"] > 0:
        toln += ext * (4e-16 * scale + 10 * (tolc - 1e-9 * scale)) / ref["ncond"]
    if core_coincident:
        pass
    elif sepn < td - toln:
        flipped = (cx.sep(A, B, -n) if A.kind != cx.PLANE else (0.0 if float(n @ A.R[:, 2]) < -1 + 1e-9 else -np.inf)) >= td - toln
        viol("contact-normal-%s:%s" % ("points-from-geom2-to-geom1" if flipped else "does-not-realise-distance", pairname), normal=n, sep_along_normal=sepn, true=td,
             ref_normal=ref["n"])
    elif ref["n"] is not None and ref["ncond"] > 1e-5 * ext and not isbox:
        ang = float(np.linalg.norm(n - ref["n"]))
        P.note_max("normal_vs_ref", ang * ref["ncond"] / max(ext, 1e-300))
        if ang * ref["ncond"] > 1e-7 * ext:
            viol("contact-normal-differs-from-true-normal:" + pairname, normal=n, ref_normal=ref["n"], ncond=ref["ncond"])
    # every contact: not deeper than the geometry along its own normal, position between the surfaces
    for i, k in enumerate(con):
        ni = k["frame"][0]
        if A.kind == cx.PLANE:
            si = -B.h(-ni) - float(ni @ A.pos) if float(ni @ A.R[:, 2]) > 1 - 1e-9 else None
        else:
            si = cx.sep(A, B, ni)
        if si is not None and k["dist"] < si - max(tolc, 1e-9 * scale):
            viol("contact-deeper-than-geometry-along-its-normal:" + pairname, contact=i, dist=k["dist"], sep_along_normal=si)
        if i == i0 and not core_coincident:
            ok, diag = between_surfaces(A, B, k, max(tolc, 1e-9 * scale))
            P.count("positions_checked")
            if not ok:
                viol("contact-pos-not-between-surfaces:" + pairname, contact=i, deepest=bool(i == i0), dist=k["dist"], pos=k["pos"], normal=ni, **diag)
    if len(con) > 1:
        P.count("poses_multicontact")
    return regime


# ---- worker -----------------------------------------------------------------------------------------------------------------------
def run_case(c, P, poses=None):
    L = drv.Lib("rel")
    try:
        S = Scene(L, c)
    except drv.MjError as e:
        P.count("model_rejected")
        P.count("model_rejected:" + str(e)[:50])
        return
    P.count("models")
    P.count("models_variant_" + c["variant"])
    rng = np.random.default_rng(c["seed"])
    S.d.forward()
    for j in range(c["nposes"]):
        pseed = int(rng.integers(0, 2 ** 31))
        if poses is not None and j not in poses:
            continue
        r = np.random.default_rng(pseed)
        pclass = POSE_CLASSES[int(r.integers(0, len(POSE_CLASSES)))] if r.random() < 0.9 else "margin"
        oclass = ORI_CLASSES[int(r.integers(0, len(ORI_CLASSES)))]
        P0, q0, P1, q1 = plan_pose(r, S, pclass, oclass)
        if q0 is not None:
            S.set_geom_pose(0, P0, q0)
        S.set_geom_pose(1, P1, q1)
        ext = c["scale"]
        distmax = float(r.choice([S.margin + S.gap, 10.0, ext * 10 ** r.uniform(-2, 1), 0.0]))
        witness = {"case": c, "pose": j, "pclass": pclass, "oclass": oclass, "xml": S.xml, "qpos": None, "distmax": distmax}
        try:
            obs = observe(S, distmax)
        except drv.MjError as e:
            P.count("engine_error")
            P.violation("engine-error-in-collision:" + str(e).split(":")[0][:40], dict(witness, error=str(e)))
            S.d = S.m.make_data()
            continue
        witness["qpos"] = np.array(S.d["qpos"]).tolist()
        witness["mocap"] = [np.array(S.d["mocap_pos"]).tolist(), np.array(S.d["mocap_quat"]).tolist()]
        sink = []
        regime = check_pose(P, S, obs, distmax, c["pair"], witness, sink=sink)
        ccd_pair = tuple(c["pair"].split("-")) in OTHER_PAIRS or c["pair"] == "box-box"
        if sink and ccd_pair and any(not sg.startswith("ccd-coincident") for sg, _ in sink):
            # a mismatch that disappears with a 10x larger iteration limit is the documented effect of ccd_iterations (C15's subject)
            old = int(S.m.opt["ccd_iterations"])
            S.m.opt["ccd_iterations"] = 10 * old
            sink2 = []
            check_pose(core.Part(), S, observe(S, distmax), distmax, c["pair"], witness, sink=sink2)
            S.m.opt["ccd_iterations"] = old
            if not sink2:
                P.count("skipped_iteration_limited")
                sink = []
            else:
                sink = sink2
        for sg, det in sink:
            P.violation(sg, det)
        P.count("poses")
        P.count("pair:" + c["pair"])
        P.count("regime:" + regime)
        P.note_max("ncon_max", obs["ncon"])
        nontrivial = obs["ncon"] > 0 or obs["gd01"] < distmax
        P.case(key="%s|%s|%s|%s|%s" % (c["pair"], c["variant"], pclass, oclass, regime), nontrivial=nontrivial,
               sample={"pair": c["pair"], "variant": c["variant"], "pclass": pclass, "oclass": oclass, "ncon": obs["ncon"],
                       "dist": obs["con"][0]["dist"] if obs["ncon"] else None, "geomdist": obs["gd01"]})


def worker(c):
    P = core.Part()
    for cc in c["batch"]:
        run_case(cc, P)
    return P.result()


def cases(ctx):
    rng = ctx.rng
    nposes = 10
    ncase = ctx.pick(260, 6400)
    out = []
    for i in range(ncase):
        if i % 8 == 7:
            pair = OTHER_PAIRS[(i // 8) % len(OTHER_PAIRS)]
        else:
            pair = ANALYTIC_PAIRS[i % len(ANALYTIC_PAIRS)]
        out.append(make_case(rng, pair, i, nposes))
    return out


def collect(ctx, batches, res):
    for b, r in zip(batches, res):
        if r is None:
            ctx.inconclusive("worker returned nothing")
        elif "crash" in r:
            ctx.count("worker_crash")
            ctx.inconclusive("worker crashed: %s" % r["crash"][-300:])
        elif "exception" in r:
            ctx.count("harness_exception")
            ctx.count("harness_exception:" + str(r["exception"])[:100] + "|" + r.get("trace", "")[-260:].replace("\n", " / "))
            ctx.inconclusive("harness exception in worker: " + r["exception"] + " " + r.get("trace", "")[-800:])
        else:
            ctx.merge(r)


def run_batches(ctx, module, cs, per=8, nproc=16, timeout=900):
    batches = [{"batch": cs[i:i + per]} for i in range(0, len(cs), per)]
    # a few rounds so that a mutant run stops early once a violation is in
    nround = 4
    for k in range(nround):
        part = batches[k::nround]
        res = par.run(module, "worker", part, nproc=nproc, timeout=timeout)
        collect(ctx, part, res)
        if ctx.violations:
            ctx.count("rounds_not_run_after_violation", nround - 1 - k)
            return False
    return True


def run(ctx):
    build.ensure("rel")
    ctx.extra["reference_self_test"] = {"primdist": {k: float(v) for k, v in primdist.self_test(n=70).items()},
                                        "convex": {k: float(v) for k, v in cx.self_test(n=36).items()},
                                        "mechanisms": {k: float(v) for k, v in mech.self_test().items()}}
    bad = [k for k, v in ctx.extra["reference_self_test"]["primdist"].items() if v > 1e-9]
    bad += [k for k, v in ctx.extra["reference_self_test"]["mechanisms"].items() if v > 1e-6]
    if bad:
        ctx.inconclusive("reference self test failed: %s" % bad)
        return
    cs = cases(ctx)
    run_batches(ctx, "vf.props.c13", cs)
    ctx.min_nontrivial = ctx.pick(300, 1500)
    if ctx.counters.get("skipped_iteration_limited", 0) > 0.02 * max(1, ctx.counters.get("poses", 0)) and not ctx.violations:
        ctx.inconclusive("too many poses skipped as iteration limited (%d)" % ctx.counters.get("skipped_iteration_limited", 0))
    if ctx.counters.get("model_rejected", 0) > 0.02 * len(cs):
        ctx.inconclusive("too many generated models rejected (%d)" % ctx.counters.get("model_rejected", 0))


def replay(ctx, path):
    rec = json.load(open(path))
    det = rec["detail"]
    P = core.Part()
    run_case(det["case"], P, poses={det["pose"]})
    ctx.merge(P.result())
    ctx.min_nontrivial = 0
