"""C06 Inertia, bias force and inverse dynamics are mutually consistent."""
import json
import xml.etree.ElementTree as ET

import numpy as np

from .. import build, core, drv, par
from ..gen import corpus, model
from ..mjconst import E
from ..ref import rbd

LEVEL = "exploration"
RULE = ("reference-model oracle: for a (generated kinematic tree | corpus model) x random configuration/velocity/acceleration the "
        "engine's sparse inertia (mj_fullM, mj_mulM, qLD/qLDiagInv, mj_solveM, mj_solveM2, mj_mulM2), qfrc_bias and mj_rne are "
        "compared with an independent numpy rigid-body model (vf/ref/rbd.py: own forward kinematics, M = sum_b J_b' I_b J_b + "
        "armature + sum_t a_t J_t' J_t, textbook Newton-Euler in world coordinates). distinct = (model, configuration index, "
        "flavour); non-trivial = nv>0 and at least one non-diagonal inertia row or rotational dof")
ASSUMPTIONS = [
    "mj_rne is the rigid-body Newton-Euler recursion: rotor (joint/actuator) armature and tendon armature are not rigid bodies, so "
    "mj_rne(flg_acc=1) is compared with (M - armature terms)*a + rne(0); with no armature in the model this is literally M*a + qfrc_bias "
    "(doc XMLreference joint/armature: 'Additional inertia associated with movement of the joint that is not due to body mass')",
    "tendon-armature terms use the engine's own ten_J (its derivative consistency is checked under C07) and a central finite "
    "difference of ten_J along qvel for the documented bias term c = m J Jdot' qvel (doc XMLreference tendon/armature)",
    "tolerances are 1e-9 relative, scaled elementwise by sqrt(M_ii M_jj) (inertia) or by the magnitude of the summed terms (forces); "
    "mj_solveM round trips are scaled by cond(M)",
    "sleeping is disabled (a sleeping tree keeps stale rows by design); models with flexes or without dofs are skipped and counted",
]

RTOL = 1e-9


# ---- model cases ---------------------------------------------------------------------------------------------------
SHAPES = [dict(nbody=(1, 5), ntree=(1, 2)), dict(nbody=(3, 12), ntree=(1, 4)), dict(nbody=(8, 22), ntree=(1, 3)),
          dict(nbody=(14, 30), ntree=(2, 5), maxdepth=12)]


def gen_case_xml(c):
    """deterministic XML for a generated case dict (profile, mseed, shape, variant flags)"""
    rng = np.random.default_rng(c["mseed"])
    over = dict(SHAPES[c["shape"]])
    over.update(tendons=3, tendon_armature=0.6 if c.get("tarm") else 0.0, armature=c.get("parm", 0.4), explicit_inertial=0.3,
                multi_joint=0.3, fixed_child=0.12, free=c.get("pfree", 0.4), ball=c.get("pball", 0.2), slide=0.2,
                mocap=0.2, static_geoms=0.2, cameras=0.3, tendon_wrap=0.0)
    over.update(c.get("over", {}))
    xml, tags = model.gen_profile(rng, c["profile"], **over)
    if c.get("actarm"):
        root = ET.fromstring(xml)
        act = root.find("actuator")
        if act is not None:
            for a in act:
                if ("joint" in a.attrib or "jointinparent" in a.attrib or "tendon" in a.attrib) and rng.random() < 0.7:
                    a.set("armature", repr(float(np.exp(rng.uniform(np.log(1e-3), np.log(0.3))))))
            xml = ET.tostring(root, encoding="unicode")
    return xml


def load_case(L, c):
    if c["kind"] == "corpus":
        return L.load_xml(str(build.REPO / c["path"]))
    xml = c.get("xml") or gen_case_xml(c)
    c["_xml"] = xml
    return L.load_xml_string(xml)


def case_name(c):
    return c.get("path") or "gen:%s:%d:%d:%d%d" % (c["profile"], c["mseed"], c["shape"], int(bool(c.get("tarm"))), int(bool(c.get("actarm"))))


TREE_FIELDS = ["body_parentid", "body_pos", "body_quat", "body_ipos", "body_iquat", "body_mass", "body_inertia", "body_jntadr",
               "body_jntnum", "body_mocapid", "jnt_type", "jnt_qposadr", "jnt_dofadr", "jnt_pos", "jnt_axis", "qpos0"]


def make_tree(m):
    A = {k: m[k] for k in TREE_FIELDS}
    for k in ("nbody", "nv", "nq", "njnt"):
        A[k] = m.n(k)
    return rbd.Tree(A)


def random_qpos(rng, m, T, spread=1.0):
    """random configuration respecting joint structure, built with the reference integrator from qpos0"""
    nv = m.n("nv")
    v = rng.normal(size=nv) * spread
    jt, da = m["jnt_type"], m["jnt_dofadr"]
    for j in range(m.n("njnt")):
        if jt[j] == E.mjJNT_SLIDE:
            v[da[j]] *= 0.2
        elif jt[j] == E.mjJNT_FREE:
            v[da[j]:da[j] + 3] *= 0.3
            v[da[j] + 3:da[j] + 6] *= 1.5
        elif jt[j] == E.mjJNT_BALL:
            v[da[j]:da[j] + 3] *= 1.5
    return T.integrate_pos(np.array(m["qpos0"]), v, 1.0)


def prepare_model(m, rng, P=None):
    """disable sleeping, randomise gravity; returns gravity actually in effect"""
    m.opt["enableflags"] = int(m.opt["enableflags"]) & ~int(E.mjENBL_SLEEP)
    if rng.random() < 0.7:
        m.opt["gravity"][:] = rng.normal(size=3) * 6
    g = np.array(m.opt["gravity"])
    if int(m.opt["disableflags"]) & int(E.mjDSBL_GRAVITY):
        g = np.zeros(3)
    return g


def set_mocap(rng, m, d):
    nm = m.n("nmocap")
    if nm:
        d["mocap_pos"][:] = np.array(d["mocap_pos"]) + rng.normal(size=(nm, 3)) * 0.3
        q = rng.normal(size=(nm, 4))
        d["mocap_quat"][:] = q / np.linalg.norm(q, axis=1, keepdims=True)


def armature_terms(m):
    """(per-dof armature incl. actuator contributions, per-tendon armature incl. actuator contributions) from the model
    constants, following the documentation (actuator armature is scaled by gear^2 and summed over actuators)"""
    nv, nt = m.n("nv"), m.n("ntendon")
    arm = np.array(m["dof_armature"], dtype=float).copy()
    tarm = np.array(m["tendon_armature"], dtype=float).copy() if nt else np.zeros(0)
    na = m.n("nactuator") if "nactuator" in m.sizes() else m.n("nu")
    if na and "actuator_armature" in m:
        aa = m["actuator_armature"]
        gear = m["actuator_gear"].reshape(-1, 6)
        outadr = m["actuator_outadr"] if "actuator_outadr" in m else np.arange(na)
        trntype, trnid = m["actuator_trntype"], m["actuator_trnid"].reshape(-1, 2)
        dof_jnt = m["dof_jntid"]
        for k in range(na):
            if aa[k] == 0:
                continue
            val = aa[k] * gear[outadr[k], 0] ** 2
            if trntype[k] in (E.mjTRN_JOINT, E.mjTRN_JOINTINPARENT):
                arm[dof_jnt == trnid[k, 0]] += val
            elif trntype[k] == E.mjTRN_TENDON:
                tarm[trnid[k, 0]] += val
    return arm, tarm


def dense_ten_J(m, d):
    nt, nv = m.n("ntendon"), m.n("nv")
    J = np.zeros((nt, nv))
    if nt == 0:
        return J
    if "ten_J_rownnz" in m:
        nnz, adr, col = m["ten_J_rownnz"], m["ten_J_rowadr"], m["ten_J_colind"]
    else:
        nnz, adr, col = d["ten_J_rownnz"], d["ten_J_rowadr"], d["ten_J_colind"]
    tj = d["ten_J"].ravel()
    if tj.size == nt * nv and "ten_J_rownnz" not in m and "ten_J_rownnz" not in d.fields():
        return np.array(tj).reshape(nt, nv)
    for t in range(nt):
        for k in range(adr[t], adr[t] + nnz[t]):
            J[t, col[k]] += tj[k]
    return J


def fwd_pos_vel(L, m, d):
    L.call("mj_fwdPosition", m, d, ret=None)
    L.call("mj_fwdVelocity", m, d, ret=None)


def sparse_LD(m, d):
    """(L, D, Msparse_dense_lower) rebuilt from the CSR arrays exactly as documented in mjdata.h/mjmodel.h:
    row i holds the ancestors of dof i in increasing order, the diagonal element last"""
    nv = m.n("nv")
    nnz, adr, col = m["M_rownnz"], m["M_rowadr"], m["M_colind"]
    qLD, Msp = d["qLD"], d["M"]
    Lm = np.eye(nv)
    D = np.zeros(nv)
    Ml = np.zeros((nv, nv))
    for i in range(nv):
        a, n = adr[i], nnz[i]
        cols = col[a:a + n]
        Ml[i, cols] = Msp[a:a + n]
        D[i] = qLD[a + n - 1]
        Lm[i, cols[:-1]] = qLD[a:a + n - 1]
    return Lm, D, Ml


# ---- the comparison for one configuration -------------------------------------------------------------------------------
def check_config(L, m, d, d2, T, rng, grav, P, name, witness):
    nv = m.n("nv")
    viol = lambda sig, **kw: P.violation(sig, dict(witness, **{k: (v.tolist() if isinstance(v, np.ndarray) else v) for k, v in kw.items()}))
    qpos, qvel = np.array(d["qpos"]), np.array(d["qvel"])
    K = T.fk(qpos, d["mocap_pos"] if m.n("nmocap") else None, d["mocap_quat"] if m.n("nmocap") else None)
    arm, tarm = armature_terms(m)
    JT = dense_ten_J(m, d)

    # ---- reference inertia
    Mrig = T.mass_matrix(K)
    Mten = (JT.T * tarm) @ JT if len(tarm) else np.zeros((nv, nv))
    Mref = Mrig + np.diag(arm) + Mten
    dg = np.sqrt(np.maximum(np.diag(Mref), 0))
    scaleM = np.outer(dg, dg) + 1e-300
    # rounding scale of the reference itself (world-origin representation)
    Mdense = np.zeros((nv, nv))
    L.call("mj_fullM", m, d, Mdense, ret=None)
    asym = np.abs(Mdense - Mdense.T).max() if nv else 0.0
    if asym != 0:
        viol("fullM-not-symmetric", asym=float(asym))
    # dof pairs on a common ancestor chain: the only entries the tree-structured sparse M can represent
    related = np.zeros((nv, nv), dtype=bool)
    for i in range(nv):
        ch = [c for c in T.chain[T.dof_body[i]] if c <= i]
        related[i, ch] = True
        related[ch, i] = True
    err = np.abs(Mdense - Mref) / scaleM
    P.note_max("relerr_M_vs_ref", (err * related).max())
    bad = ~np.isfinite(Mdense) | (err > RTOL * 50)
    if (bad & related).any():
        e2 = np.where(related, err, -1)
        i, j = np.unravel_index(np.nanargmax(e2), err.shape)
        kind = "diag" if i == j else "offdiag"
        has = "tendon-armature" if (len(tarm) and tarm.any()) else ("armature" if arm.any() else "rigid")
        viol("M-differs-from-sum-JtIJ:%s:%s" % (kind, has), i=int(i), j=int(j), engine=float(Mdense[i, j]), ref=float(Mref[i, j]),
             relerr=float(err[i, j]), jnt_type_i=int(m["jnt_type"][m["dof_jntid"][i]]))
    if (bad & ~related).any():
        e2 = np.where(~related, err, -1)
        i, j = np.unravel_index(np.nanargmax(e2), err.shape)
        if Mdense[i, j] == 0 and Mrig[i, j] == 0 and Mten[i, j] != 0:
            # the tendon couples dofs of different branches / trees; the CSR pattern of M has no slot for the entry
            P.count("configs_tendon_armature_across_branches")
            viol("tendon-armature-coupling-across-branches-dropped-from-M", i=int(i), j=int(j), engine=float(Mdense[i, j]),
                 documented=float(Mref[i, j]), relerr=float(err[i, j]), same_tree=bool(m["dof_treeid"][i] == m["dof_treeid"][j]))
        else:
            viol("M-nonzero-between-unrelated-dofs", i=int(i), j=int(j), engine=float(Mdense[i, j]), ref=float(Mref[i, j]))
    Mten_rep = np.where(related, Mten, 0.0)     # the part of the tendon term the engine's M can hold
    w = np.linalg.eigvalsh((Mdense + Mdense.T) / 2)
    # redundant dofs (e.g. two parallel slide joints in one body) make the *documented* inertia itself singular: the
    # reference decides this, independently of the engine; such mechanisms have no factorisation to check
    dref = np.sqrt(np.maximum(np.diag(Mref), 1e-300))
    wref = np.linalg.eigvalsh(Mref / np.outer(dref, dref))
    singular_ref = wref.min() <= 1e-10 * wref.max()
    if singular_ref:
        P.count("skipped_factorisation_checks_redundant_dofs")
        cond = np.inf
    else:
        P.note_max("cond_M", w.max() / max(w.min(), 1e-300))
        if w.min() <= 0:
            viol("M-not-positive-definite", min_eig=float(w.min()))
            return
        cond = w.max() / w.min()

    # ---- sparsity structure = dof ancestor chains (or the dof alone for compile-time 'simple' dofs)
    nnz, adr, col = m["M_rownnz"], m["M_rowadr"], m["M_colind"]
    simple = m["dof_simplenum"]
    for i in range(nv):
        cols = list(col[adr[i]:adr[i] + nnz[i]])
        ch = T.chain[T.dof_body[i]]
        want = [c for c in ch if c <= i]
        if cols != want and not (simple[i] and cols == [i]):
            viol("M-sparsity-row-not-ancestor-chain", dof=i, cols=[int(x) for x in cols], want=[int(x) for x in want])
            break
    if nv and int(adr[-1] + nnz[-1]) != m.n("nC"):
        viol("M-sparsity-nC-mismatch", nC=m.n("nC"), last=int(adr[-1] + nnz[-1]))

    if not singular_ref:
        # ---- stored factorisation reconstructs M
        Lm, D, Ml = sparse_LD(m, d)
        Mrec = Lm.T @ (D[:, None] * Lm)
        err = np.abs(Mrec - Mdense) / scaleM
        P.note_max("relerr_LDL", err.max())
        if not np.isfinite(Mrec).all() or err.max() > RTOL * max(1.0, min(cond, 1e4)):
            i, j = np.unravel_index(np.nanargmax(err), err.shape)
            viol("LtDL-differs-from-M", i=int(i), j=int(j), rec=float(Mrec[i, j]), M=float(Mdense[i, j]), relerr=float(err[i, j]), cond=float(cond))
        e = np.abs(D * np.array(d["qLDiagInv"]) - 1).max() if nv else 0
        if e > 1e-12:
            viol("qLDiagInv-not-inverse-of-D", err=float(e))

    # ---- products and solves
    x = rng.normal(size=nv)
    y = np.zeros(nv)
    L.call("mj_mulM", m, d, y, x, ret=None)
    ref = Mdense @ x
    sc = np.abs(Mdense) @ np.abs(x) + 1e-300
    e = (np.abs(y - ref) / sc).max()
    P.note_max("relerr_mulM", e)
    if not np.isfinite(y).all() or e > RTOL:
        i = int(np.nanargmax(np.abs(y - ref) / sc))
        viol("mulM-differs-from-dense-product", dof=i, engine=float(y[i]), ref=float(ref[i]), x=x)
    if not singular_ref:
        P.count("configs_solve_checked" if cond < 1e13 else "skipped_solve_checks_illconditioned_M")
        x2 = np.zeros(nv)
        L.call("mj_solveM", m, d, x2, y, 1, ret=None)
        e = np.abs(x2 - x).max() / (np.abs(x).max() + 1e-300)
        P.note_max("relerr_solveM_roundtrip_over_cond", e / cond)
        if not np.isfinite(x2).all() or e > 1e-12 * cond + RTOL:
            viol("solveM-does-not-invert-mulM", relerr=float(e), cond=float(cond), x=x)
        res = np.abs(Mdense @ x2 - y) / (np.abs(Mdense) @ np.abs(x2) + np.abs(y) + 1e-300)
        if res.max() > 1e-9:
            viol("solveM-residual", relres=float(res.max()), x=x)
        # several right-hand sides at once
        nrhs = 3
        Y = rng.normal(size=(nrhs, nv))
        X = np.zeros((nrhs, nv))
        L.call("mj_solveM", m, d, X, np.ascontiguousarray(Y), nrhs, ret=None)
        try:
            Xref = np.linalg.solve(Mdense, Y.T).T
        except np.linalg.LinAlgError:
            Xref = np.linalg.lstsq(Mdense, Y.T, rcond=None)[0].T
            cond = max(cond, 1e16)
        e = np.abs(X - Xref).max() / (np.abs(Xref).max() + 1e-300)
        if not np.isfinite(X).all() or e > 1e-12 * cond + RTOL:
            viol("solveM-multi-rhs-differs-from-dense-solve", relerr=float(e), cond=float(cond))
        # half solve and square-root product (consumers of qLD)
        sq = np.sqrt(np.array(d["qLDiagInv"]))
        xh = np.zeros(nv)
        L.call("mj_solveM2", m, d, xh, np.ascontiguousarray(Y[0]), sq, 1, ret=None)
        want = Y[0] @ Xref[0]
        if abs(xh @ xh - want) > (1e-12 * cond + RTOL) * abs(want):
            viol("solveM2-norm-differs-from-y-Minv-y", got=float(xh @ xh), want=float(want), cond=float(cond))
        xm = np.zeros(nv)
        L.call("mj_mulM2", m, d, xm, x, ret=None)
        want = x @ Mdense @ x
        if abs(xm @ xm - want) > 1e-9 * abs(want):
            viol("mulM2-norm-differs-from-x-M-x", got=float(xm @ xm), want=float(want))

    # ---- bias force
    zero = np.zeros(nv)
    c_ref, sc_c = T.rne(K, qvel, zero, grav, return_scale=True)
    sc_c = sc_c + 1e-9      # magnitude of the terms that are summed (rounding scale)
    c_ten = np.zeros(nv)
    tol_ten = np.zeros(nv)
    if len(tarm) and tarm.any():
        eps = 1e-6
        Jd = []
        for s in (+1, -1):
            q2 = np.array(qpos)
            L.call("mj_integratePos", m, q2, qvel, float(s * eps), ret=None)
            d2["qpos"][:] = q2
            if m.n("nmocap"):
                d2["mocap_pos"][:] = d["mocap_pos"]
                d2["mocap_quat"][:] = d["mocap_quat"]
            L.call("mj_fwdPosition", m, d2, ret=None)
            Jd.append(dense_ten_J(m, d2))
        Jdotv = (Jd[0] - Jd[1]) @ qvel / (2 * eps)
        c_ten = JT.T @ (tarm * Jdotv)
        tol_ten = np.abs(JT).T @ (tarm * (np.abs(Jdotv) * 1e-5 + 1e-7 * (1 + np.abs(qvel).max() ** 2)))
        P.count("configs_with_tendon_armature_bias")
    bias = np.array(d["qfrc_bias"])
    e = np.abs(bias - (c_ref + c_ten))
    tol = RTOL * 10 * sc_c + tol_ten
    P.note_max("relerr_bias_vs_ref", (e / (sc_c + tol_ten * 1e9)).max())
    if not np.isfinite(bias).all() or (e > tol).any():
        i = int(np.nanargmax(e / tol))
        viol("qfrc_bias-differs-from-reference-RNE:%s" % ("tendon-armature" if c_ten.any() else "rigid"), dof=i, engine=float(bias[i]),
             ref=float(c_ref[i] + c_ten[i]), tol=float(tol[i]), jnt_type=int(m["jnt_type"][m["dof_jntid"][i]]))
    # engine RNE at zero acceleration is the rigid part of the bias
    r0 = np.zeros(nv)
    L.call("mj_rne", m, d, 0, r0, ret=None)
    tb = np.zeros(nv)
    L.call("mj_tendonBias", m, d, tb, ret=None)
    e = np.abs(bias - (r0 + tb))
    if (e > RTOL * sc_c).any():
        viol("qfrc_bias-differs-from-mj_rne0-plus-tendonBias", err=float(e.max()))

    # ---- Newton-Euler with acceleration
    a = rng.normal(size=nv) * 3
    d["qacc"][:] = a
    r1 = np.zeros(nv)
    L.call("mj_rne", m, d, 1, r1, ret=None)
    t_ref, sc_a = T.rne(K, qvel, a, grav, return_scale=True)
    sc_a = sc_a + np.abs(Mref) @ np.abs(a) + sc_c
    e = np.abs(r1 - t_ref)
    P.note_max("relerr_rne1_vs_ref", (e / sc_a).max())
    if not np.isfinite(r1).all() or (e > RTOL * 10 * sc_a).any():
        i = int(np.nanargmax(e / sc_a))
        viol("mj_rne-with-acc-differs-from-reference-RNE", dof=i, engine=float(r1[i]), ref=float(t_ref[i]), a=a)
    # M a + bias with the engine's own quantities (statement form)
    Ma = np.zeros(nv)
    L.call("mj_mulM", m, d, Ma, a, ret=None)
    lhs = Ma - arm * a - Mten_rep @ a + (bias - tb)
    e = np.abs(r1 - lhs)
    P.note_max("relerr_rne1_vs_Ma_plus_bias", (e / sc_a).max())
    if (e > RTOL * 10 * sc_a).any():
        i = int(np.nanargmax(e / sc_a))
        viol("mj_rne-with-acc-differs-from-M-a-plus-bias", dof=i, rne=float(r1[i]), Ma_plus_bias=float(lhs[i]), a=a,
             has_armature=bool(arm.any() or (len(tarm) and tarm.any())))
    if not arm.any() and not (len(tarm) and tarm.any()):
        P.count("configs_literal_M_a_plus_bias")
    P.count("configs")
    nontriv = bool((nnz > 1).any() or (m["jnt_type"] != E.mjJNT_SLIDE).any())
    return nontriv


def worker(c):
    P = core.Part()
    L = drv.Lib(c.get("flavour", "rel"))
    try:
        m = load_case(L, c)
    except drv.MjError as e:
        P.count("model_rejected")
        P.count("model_rejected:" + str(e)[:60])
        return P.result()
    name = case_name(c)
    nv = m.n("nv")
    if nv == 0 or m.n("nflex") > 0 or nv > c.get("nvmax", 400):
        P.count("skipped_nv0" if nv == 0 else ("skipped_flex" if m.n("nflex") else "skipped_large"))
        P.case(nontrivial=False)
        m.free()
        return P.result()
    rng = np.random.default_rng(c["seed"])
    grav = prepare_model(m, rng)
    T = make_tree(m)
    d = m.make_data()
    d2 = m.make_data()
    P.count("models")
    P.count("models_" + c["kind"])
    P.note_max("nv", nv)
    if (m["M_rownnz"] > 1).any():
        P.count("models_with_offdiagonal_rows")
    if m["dof_simplenum"].any():
        P.count("models_with_simple_dofs")
    arm, tarm = armature_terms(m)
    if arm.any():
        P.count("models_with_joint_armature")
    if len(tarm) and tarm.any():
        P.count("models_with_tendon_armature")
    if "actuator_armature" in m and m["actuator_armature"].any():
        P.count("models_with_actuator_armature")
    for jt, nm in ((E.mjJNT_FREE, "free"), (E.mjJNT_BALL, "ball"), (E.mjJNT_SLIDE, "slide"), (E.mjJNT_HINGE, "hinge")):
        if (m["jnt_type"] == jt).any():
            P.count("models_with_" + nm)
    for k in range(c["nconf"]):
        cseed = int(rng.integers(0, 2 ** 31))
        r = np.random.default_rng(cseed)
        witness = {"model": name, "xml": c.get("_xml"), "flavour": c.get("flavour", "rel"), "config": k,
                   "case": {kk: vv for kk, vv in c.items() if not kk.startswith("_")}}
        try:
            d.reset()
            if k == 0 and c["kind"] == "corpus":
                q = np.array(m["qpos0"]) if m.n("nkey") == 0 or r.random() < 0.5 else np.array(m["key_qpos"].reshape(-1, m.n("nq"))[0])
            else:
                q = random_qpos(r, m, T, spread=c.get("spread", 1.0))
            d["qpos"][:] = q
            d["qvel"][:] = r.normal(size=nv) * r.choice([0.3, 2.0])
            set_mocap(r, m, d)
            fwd_pos_vel(L, m, d)
            nontriv = check_config(L, m, d, d2, T, r, grav, P, name, witness)
        except drv.MjError as e:
            P.count("engine_error_skipped")
            P.count("engine_error:" + str(e).split(":")[0][:40])
            P.case(nontrivial=False)
            d = m.make_data()
            d2 = m.make_data()
            continue
        P.case(key="%s|%d|%s" % (name, k, c.get("flavour", "rel")), nontrivial=bool(nontriv),
               sample={"model": name, "nv": nv, "config": k, "flavour": c.get("flavour", "rel")})
    d.free()
    d2.free()
    m.free()
    return P.result()


def cases(ctx, nconf_q=3, nconf_t=5, ngen_q=130, ngen_t=1700, nvmax_q=130, nvmax_t=400):
    cs = []
    rng = ctx.rng
    corp = [c for c in corpus.loadable() if c["nv"] > 0 and c["nflex"] == 0]
    for c in corp:
        if c["nv"] > ctx.pick(nvmax_q, nvmax_t):
            continue
        cs.append({"kind": "corpus", "path": c["path"], "seed": int(rng.integers(0, 2 ** 31)),
                   "nconf": ctx.pick(2, 4) if c["nv"] < 60 else ctx.pick(1, 2), "nvmax": ctx.pick(nvmax_q, nvmax_t)})
    for i in range(ctx.pick(ngen_q, ngen_t)):
        cs.append({"kind": "gen", "profile": ["kin", "smooth"][i % 2], "mseed": int(rng.integers(0, 2 ** 31)), "shape": int(i // 2 % len(SHAPES)),
                   "tarm": i % 3 != 0 and i % 4 != 2, "actarm": i % 4 == 1, "pball": [0.1, 0.3, 0.6][i % 3], "pfree": [0.2, 0.5, 0.9][(i // 3) % 3],
                   "parm": 0.0 if i % 4 == 2 else [0.2, 0.5, 0.9][(i // 5) % 3], "seed": int(rng.integers(0, 2 ** 31)), "nconf": ctx.pick(nconf_q, nconf_t)})
    return cs


def _collect(ctx, cs, res):
    for c, r in zip(cs, res):
        if r is None:
            ctx.inconclusive("worker returned nothing")
        elif "crash" in r:
            ctx.count("worker_crash")
            ctx.inconclusive("worker crashed on %s: %s" % (case_name(c), r["crash"][-300:]))
        elif "exception" in r:
            ctx.count("harness_exception")
            ctx.inconclusive("harness exception in worker: " + r["exception"] + " " + r.get("trace", "")[-600:])
        else:
            ctx.merge(r)


def run_batched(ctx, module, cs, nbatch=4):
    """run the cases in a few batches (interleaved, so every batch has the full mix); stop once a batch has produced a
    violation - the verdict is already decided and mutant sweeps stay cheap. The unchanged tree always runs every batch."""
    for k in range(nbatch):
        part = cs[k::nbatch]
        res = par.run(module, "worker", part, nproc=16, timeout=ctx.pick(300, 900))
        _collect(ctx, part, res)
        if ctx.violations:
            ctx.count("batches_not_run_after_violation", nbatch - 1 - k)
            return False
    return True


def run(ctx):
    build.ensure("rel")
    build.ensure("scalar")
    ctx.extra["reference_self_test"] = {k: float(v) for k, v in rbd.self_test().items()}
    cs = cases(ctx)
    if not run_batched(ctx, "vf.props.c06", cs):
        return
    # scalar flavour (no platform SIMD in the sparse kernels) on a subsample
    idx = ctx.rng.permutation(len(cs))[:ctx.pick(60, 500)]
    cs2 = [dict(cs[int(i)], flavour="scalar", nconf=1) for i in idx]
    res2 = par.run("vf.props.c06", "worker", cs2, nproc=16, timeout=ctx.pick(300, 900))
    _collect(ctx, cs2, res2)
    skipped = sum(v for k, v in ctx.counters.items() if k.startswith("engine_error_skipped"))
    if skipped > 0.1 * max(1, ctx.counters.get("configs", 0)):
        ctx.inconclusive("too many configurations skipped on engine errors (%d)" % skipped)
    ctx.min_nontrivial = ctx.pick(400, 6000)


def replay(ctx, path):
    rec = json.load(open(path))
    c = rec["detail"]["case"]
    if rec["detail"].get("xml") and c["kind"] == "gen":
        c["xml"] = rec["detail"]["xml"]
    ctx.merge(worker(c))
    ctx.min_nontrivial = 1
