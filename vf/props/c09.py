"""C09 Forward and inverse dynamics agree."""
import json

import numpy as np

from .. import build, core, drv, par
from ..gen import corpus
from ..mjconst import E
from ..ref import efcrows, rbd
from . import c11

LEVEL = "exploration"
RULE = ("twin-data oracle over (scene x state x configuration): scenes as in C11 (generated articulated models forced to carry equalities, "
        "dof/tendon frictionloss, joint/tendon limits, condim 1/3/4/6; heaps of free bodies with per-geom friction, margin/gap, adhesion; "
        "corpus models), random ctrl/qfrc_applied/xfrc_applied; configuration = {Newton, CG} with tolerance 0 and 200 iterations x "
        "{pyramidal, elliptic} x {dense, sparse} x islands on/off x impratio x {Euler, implicit, implicitfast} x eulerdamp/diagexact. "
        "mj_forward on d1; the harness itself decides convergence (|M qacc - qfrc_smooth - qfrc_constraint| <= 1e-9 of the summed magnitudes; "
        "with tolerance 0 the solvers never stop early, so solver_niter carries no information); the integration state and qacc are copied into a fresh d2, mj_inverse(d2), and qfrc_inverse is compared "
        "with qfrc_applied + qfrc_actuator + sum_b J_b' xfrc_applied_b where J_b is the COM Jacobian of an independent numpy kinematics "
        "model (vf/ref/rbd.py); efc_force of d2 is compared with d1; mj_compareFwdInv on d1 must report discrepancies below tolerance and "
        "restore the forward results; then d1 is advanced by mj_Euler / mj_implicit, (v+ - v)/h is given to mj_inverse on a fresh d3 with "
        "mjENBL_INVDISCRETE and the same two comparisons are made. distinct = (scene, state, configuration); non-trivial = converged "
        "case with nefc > 0")
ASSUMPTIONS = [
    "only converged forward solves are compared (statement precondition); unconverged cases are counted and must stay below 20 %",
    "comparison tolerance 1e-6 relative to the elementwise sum of magnitudes of all terms of the equation of motion (design: solver tolerance); "
    "the discrete-time comparison adds the first-order bound of the rounding of (v+ - v)/h and of the residual M^-1(M qacc - qfrc_smooth - "
    "qfrc_constraint) of the converged solve (<= 1e-9 relative by the precondition), both amplified by M and J' D J",
    "rows whose efc_state differs between the forward and the inverse evaluation (argument on a zone boundary / cone apex) are compared through "
    "qfrc_constraint only (doc Reduced primal problem: s() is once-continuously-differentiable, so the force is continuous but the zone label is not)",
    "cases whose inverse is numerically undefined are skipped and counted: doc Dual problem 'in the limit R -> 0 corresponding to hard constraints the "
    "inverse is no longer defined' - decided by the harness from efc_D: 8 eps (|J||qacc| + |aref|) D mapped by |J|' exceeds the tolerance",
    "noslip is off: doc Algorithms/NoSlip 'this cascade of optimization steps no longer solves a single well-defined optimization problem'",
    "RK4 is excluded from the discrete-time part (doc invdiscrete: 'for all integrators other than RK4')",
    "xfrc_applied acts at the body centre of mass (doc mjData.xfrc_applied: 'Cartesian force/torque applied at body center of mass'); the reference "
    "Jacobian is rbd.Tree.point_jac at its own forward-kinematics COM; if the reference kinematics cannot represent the tree (never for generated "
    "scenes) mj_jac at xipos is used and counted",
    "sleeping disabled; flex models skipped; mjcb callbacks unset",
]

RTOL = 1e-6
STALE_SIG = "invdiscrete-implicit-inverse-reads-actuator_force-act_dot-left-by-forward-pass"
CONV = 1e-9
TREE_FIELDS = ["body_parentid", "body_pos", "body_quat", "body_ipos", "body_iquat", "body_mass", "body_inertia", "body_jntadr",
               "body_jntnum", "body_mocapid", "jnt_type", "jnt_qposadr", "jnt_dofadr", "jnt_pos", "jnt_axis", "qpos0"]
INTEGRATORS = ["mjINT_EULER", "mjINT_IMPLICIT", "mjINT_IMPLICITFAST"]


def make_tree(m):
    A = {k: m[k] for k in TREE_FIELDS}
    for k in ("nbody", "nv", "nq", "njnt"):
        A[k] = m.n(k)
    return rbd.Tree(A)


def xfrc_generalized(L, m, d, T, P):
    """sum_b J_b(com)' [f_b; t_b] with the reference Jacobian; returns (vector, magnitude scale)"""
    nv, nb = m.n("nv"), m.n("nbody")
    x = np.array(d["xfrc_applied"]).reshape(nb, 6)
    out, sc = np.zeros(nv), np.zeros(nv)
    act = [b for b in range(1, nb) if x[b].any()]
    if not act:
        return out, sc
    K = None
    if T is not None:
        try:
            nm = m.n("nmocap")
            K = T.fk(np.array(d["qpos"]), d["mocap_pos"] if nm else None, d["mocap_quat"] if nm else None)
        except Exception:
            K = None
    for b in act:
        if K is not None:
            jp, jr = T.point_jac(K, b, K.xipos[b])
            P.count("xfrc_terms_reference_jacobian")
        else:
            jp, jr = np.zeros((3, nv)), np.zeros((3, nv))
            L.call("mj_jac", m, d, jp, jr, np.array(d["xipos"].reshape(nb, 3)[b]), b, ret=None)
            P.count("xfrc_terms_mj_jac_fallback")
        out += jp.T @ x[b, :3] + jr.T @ x[b, 3:]
        sc += np.abs(jp).T @ np.abs(x[b, :3]) + np.abs(jr).T @ np.abs(x[b, 3:])
    return out, sc


def random_config(rng, k):
    o = {"solver": "mjSOL_NEWTON" if (k % 4 != 3) else "mjSOL_CG", "cone": c11.CONES[k % 2],
         "jacobian": ["mjJAC_DENSE", "mjJAC_SPARSE"][(k // 2) % 2], "iterations": 200, "noslip": 0, "tolerance": 0.0,
         "integrator": INTEGRATORS[int(rng.integers(0, 3))]}
    o["flags"] = [fl for fl, p in (("noisland", 0.4), ("nowarmstart", 0.2), ("diagexact", 0.15), ("noeulerdamp", 0.15), ("noconstraint", 0.12)) if rng.random() < p]
    if rng.random() < 0.3:
        o["impratio"] = float(np.exp(rng.uniform(np.log(0.3), np.log(30))))
    if rng.random() < 0.3:
        o["timestep"] = float(rng.choice([0.0005, 0.001, 0.004, 0.01]))
    return o


def apply_config(m, o, base):
    c11.apply_config(m, o, base)
    m.opt["integrator"] = getattr(E, o["integrator"])
    m.opt["ls_iterations"] = 100
    m.opt["ls_tolerance"] = 1e-6
    if "noeulerdamp" in o["flags"]:
        m.opt["disableflags"] = int(m.opt["disableflags"]) | int(E.mjDSBL_EULERDAMP)
    if "noconstraint" in o["flags"]:
        # a configuration without any constraint row, interleaved with constrained ones on the same mjData (dirty-twin comparison)
        m.opt["disableflags"] = int(m.opt["disableflags"]) | int(E.mjDSBL_CONSTRAINT)
    if "timestep" in o:
        m.opt["timestep"] = o["timestep"]
    m.opt["enableflags"] = int(m.opt["enableflags"]) & ~int(E.mjENBL_INVDISCRETE) & ~int(E.mjENBL_FWDINV)


def config_key(o):
    return "%s/%s/%s/%s/%s%s" % (o["solver"][6:], o["cone"][7:10], o["jacobian"][6:9], o["integrator"][6:], "+".join(o["flags"]) or "-",
                                 "/imp" if "impratio" in o else "")


def forward_terms(L, m, d, P, T):
    """everything the comparisons need from the forward twin"""
    nv = m.n("nv")
    F = {}
    for k in ("qacc", "qvel", "qfrc_applied", "qfrc_actuator", "qfrc_bias", "qfrc_passive", "qfrc_smooth", "qfrc_constraint", "actuator_force", "act_dot"):
        F[k] = np.array(d[k])
    nefc = d.s("nefc")
    F["nefc"] = nefc
    af = d.arena_fields()
    for k in ("efc_force", "efc_state", "efc_D", "efc_type", "efc_id", "efc_aref"):
        F[k] = np.array(d.arena(k, af)).ravel()[:nefc]
    F["J"] = efcrows.dense_J(L, m, d, af)[0] if nefc else np.zeros((0, nv))
    M = np.zeros((nv, nv))
    L.call("mj_fullM", m, d, M, ret=None)
    F["M"] = M
    F["xfrc"], xsc = xfrc_generalized(L, m, d, T, P)
    F["expected"] = F["qfrc_applied"] + F["qfrc_actuator"] + F["xfrc"]
    F["scale"] = (np.abs(M) @ np.abs(F["qacc"]) + np.abs(F["qfrc_bias"]) + np.abs(F["qfrc_passive"]) + np.abs(F["J"]).T @ np.abs(F["efc_force"])
                  + np.abs(F["qfrc_applied"]) + np.abs(F["qfrc_actuator"]) + xsc + 1e-12)
    F["scale"] = F["scale"] + 1e-6 * F["scale"].max()      # rounding of large cancelling terms propagated along the tree
    # the engine's own J' xfrc must agree with the reference one: qfrc_smooth = passive - bias + applied + actuator + J'xfrc
    F["xfrc_engine"] = F["qfrc_smooth"] - (F["qfrc_passive"] - F["qfrc_bias"] + F["qfrc_applied"] + F["qfrc_actuator"])
    F["grad"] = M @ F["qacc"] - F["qfrc_smooth"] - F["qfrc_constraint"]
    # first-order effect of rounding in jar = J qacc - aref on the analytic inverse force -D jar, mapped to joint space
    jar_mag = np.abs(F["J"]) @ np.abs(F["qacc"]) + np.abs(F["efc_aref"])
    F["round_f"] = np.abs(F["J"]).T @ (F["efc_D"] * (8 * np.finfo(float).eps * jar_mag))
    return F


def compare_inverse(m, d2, F, P, viol, label, extra_tol=None, round_tol=None):
    """qfrc_inverse / efc_force / qfrc_constraint of the inverse twin against the forward terms"""
    tol = RTOL * F["scale"] + (extra_tol if extra_tol is not None else 0.0) + (round_tol if round_tol is not None else 0.0)
    qi = np.array(d2["qfrc_inverse"])
    e = np.abs(qi - F["expected"])
    P.note_max("relerr_qfrc_inverse_%s" % label, float((e / F["scale"]).max(initial=0)))
    if not np.isfinite(qi).all() or (e > tol).any():
        i = int(np.nanargmax(e / tol))
        viol("qfrc_inverse-differs-from-applied-plus-actuator-plus-JTxfrc:%s" % label, dof=i, inverse=float(qi[i]), expected=float(F["expected"][i]),
             tol=float(tol[i]), applied=float(F["qfrc_applied"][i]), actuator=float(F["qfrc_actuator"][i]), xfrc=float(F["xfrc"][i]),
             jnt_type=int(m["jnt_type"][m["dof_jntid"][i]]))
        return False
    nefc = F["nefc"]
    if d2.s("nefc") != nefc:
        viol("inverse-builds-different-number-of-constraints:%s" % label, forward=nefc, inverse=d2.s("nefc"))
        return False
    qc = np.array(d2["qfrc_constraint"])
    e = np.abs(qc - F["qfrc_constraint"])
    if (e > tol).any():
        i = int(np.nanargmax(e / tol))
        viol("inverse-qfrc_constraint-differs-from-forward:%s" % label, dof=i, inverse=float(qc[i]), forward=float(F["qfrc_constraint"][i]), tol=float(tol[i]))
        return False
    if nefc:
        af = d2.arena_fields()
        f2 = np.array(d2.arena("efc_force", af)).ravel()[:nefc]
        s2 = np.array(d2.arena("efc_state", af)).ravel()[:nefc]
        same = s2 == F["efc_state"]
        P.count("efc_rows_compared", int(same.sum()))
        P.count("efc_rows_state_differs_compared_via_qfrc_constraint", int((~same).sum()))
        fsc = np.abs(F["efc_force"]).max(initial=0) + 1e-12
        ftol = RTOL * fsc
        if extra_tol is not None:
            ftol = ftol + F["efc_D"] * (np.abs(F["J"]) @ F["delta_a"]) * 4
        e = np.where(same, np.abs(f2 - F["efc_force"]), 0.0)
        P.note_max("relerr_efc_force_%s" % label, float((e / fsc).max(initial=0)))
        if not np.isfinite(f2).all() or (e > ftol).any():
            i = int(np.nanargmax(e / ftol))
            viol("inverse-efc_force-differs-from-forward:%s" % label, row=i, inverse=float(f2[i]), forward=float(F["efc_force"][i]), type=int(F["efc_type"][i]),
                 state=int(s2[i]), scale=float(fsc))
            return False
    return True


def check_case(L, m, d1, d2, T, state, o, P, witness, dirty=None):
    """returns (converged, nefc)"""
    sig = int(E.mjSTATE_INTEGRATION)
    nv = m.n("nv")
    viol = lambda s, **kw: P.violation(s, dict(witness, **kw))
    d1.set_state(state, sig)
    L.clear_messages()
    d1.forward()
    F = forward_terms(L, m, d1, P, T)
    nefc = F["nefc"]
    if not np.isfinite(F["qacc"]).all():
        P.count("skipped_nonfinite_qacc")
        return False, nefc
    # reference J'xfrc against the engine's smooth force (keeps the expected value honest before it is used)
    e = np.abs(F["xfrc_engine"] - F["xfrc"])
    if (e > 1e-9 * F["scale"]).any():
        i = int(np.argmax(e / F["scale"]))
        viol("qfrc_smooth-xfrc_applied-term-differs-from-reference-COM-jacobian", dof=i, engine=float(F["xfrc_engine"][i]), ref=float(F["xfrc"][i]))
        return False, nefc
    niter = np.array(d1["solver_niter"])
    g = np.abs(F["grad"]) / F["scale"]
    P.note_max("gradient_rel_all", float(g.max(initial=0)))
    P.note_max("solver_niter", float(niter.max(initial=0)))
    if g.max(initial=0) > CONV:
        P.count("skipped_not_converged")
        P.count("skipped_not_converged_%s_%s" % (o["solver"][6:], o["cone"][7:10]))
        return False, nefc
    if (F["round_f"] > RTOL * F["scale"]).any():
        # doc Dual problem: "in the limit R -> 0 corresponding to hard constraints the inverse is no longer defined": with efc_D = 1/R
        # near 1/mjMINVAL the rounding of jar alone moves the inverse force by more than the comparison tolerance
        P.count("skipped_inverse_ill_conditioned_R_near_zero")
        return False, nefc
    P.count("converged")
    if nefc:
        P.count("converged_with_constraints")
    for t, nm in ((E.mjCNSTR_EQUALITY, "equality"), (E.mjCNSTR_FRICTION_DOF, "frictionloss_dof"), (E.mjCNSTR_FRICTION_TENDON, "frictionloss_tendon"),
                  (E.mjCNSTR_LIMIT_JOINT, "limit_joint"), (E.mjCNSTR_LIMIT_TENDON, "limit_tendon"), (E.mjCNSTR_CONTACT_FRICTIONLESS, "frictionless"),
                  (E.mjCNSTR_CONTACT_PYRAMIDAL, "pyramidal"), (E.mjCNSTR_CONTACT_ELLIPTIC, "elliptic")):
        n = int(((F["efc_type"] == int(t)) & (F["efc_force"] != 0)).sum())
        if n:
            P.count("active_rows_" + nm, n)
    if F["xfrc"].any():
        P.count("cases_with_xfrc")
    if F["qfrc_actuator"].any():
        P.count("cases_with_actuation")
    if (F["efc_state"] == int(E.mjCNSTRSTATE_CONE)).any():
        P.count("cases_with_elliptic_middle_zone")

    # ---- continuous-time inverse on a fresh twin
    d2.reset()
    d2.set_state(state, sig)
    d2["qacc"][:] = F["qacc"]
    L.call("mj_inverse", m, d2, ret=None)
    if not compare_inverse(m, d2, F, P, viol, "continuous", extra_tol=None, round_tol=F["round_f"]):
        return True, nefc
    # ---- the same inverse on a data that is never reset and has computed other (constrained) states before: mj_inverse is a function
    # of the state, the inputs and qacc only, so the result must equal the reset twin's bit for bit (stale forces must not leak in)
    if dirty is not None:
        dirty.set_state(state, sig)
        dirty["qacc"][:] = F["qacc"]
        L.call("mj_inverse", m, dirty, ret=None)
        P.count("dirty_twin_inverses")
        if nefc == 0:
            P.count("dirty_twin_inverses_without_constraints")
        for fld in ("qfrc_inverse", "qfrc_constraint"):
            if np.array(dirty[fld]).tobytes() != np.array(d2[fld]).tobytes():
                viol("inverse-on-used-data-differs-from-inverse-on-reset-data:" + fld, nefc=nefc,
                     used=np.array(dirty[fld]).tolist()[:12], reset=np.array(d2[fld]).tolist()[:12])
                return True, nefc

    # ---- built-in comparison
    before = (np.array(d1["qfrc_constraint"]), np.array(d1.arena("efc_force")).ravel()[:nefc].copy(), np.array(d1["qacc"]))
    L.call("mj_compareFwdInv", m, d1, ret=None)
    fi = np.array(d1["solver_fwdinv"])
    nsc = float(np.linalg.norm(F["scale"]))
    P.note_max("solver_fwdinv_rel", float(fi.max() / nsc))
    if not np.isfinite(fi).all() or fi.max() > RTOL * nsc:
        viol("solver_fwdinv-large-after-converged-solve", fwdinv=fi.tolist(), scale=nsc)
        return True, nefc
    after = (np.array(d1["qfrc_constraint"]), np.array(d1.arena("efc_force")).ravel()[:nefc].copy(), np.array(d1["qacc"]))
    if any(a.tobytes() != b.tobytes() for a, b in zip(before, after)):
        viol("mj_compareFwdInv-does-not-restore-forward-results")
        return True, nefc

    # ---- discrete-time inverse
    h = float(m.opt["timestep"])
    v0 = F["qvel"]
    integ = o["integrator"]
    L.call("mj_Euler" if integ == "mjINT_EULER" else "mj_implicit", m, d1, ret=None)
    v1 = np.array(d1["qvel"])
    if not np.isfinite(v1).all():
        P.count("skipped_discrete_nonfinite")
        return True, nefc
    a_disc = (v1 - v0) / h
    F["delta_a"] = 4 * np.finfo(float).eps * (np.abs(v0) + np.abs(v1)) / h
    # the integrators advance with M^-1(qfrc_smooth + qfrc_constraint) = qacc - M^-1 grad: the (tiny, bounded by CONV) residual of the
    # converged solve re-enters the discrete inverse as an acceleration perturbation that stiff constraints amplify by J' D J
    try:
        F["delta_a"] = F["delta_a"] + np.abs(np.linalg.solve(F["M"], F["grad"]))
    except np.linalg.LinAlgError:
        P.count("skipped_discrete_singular_M")
        return True, nefc
    extra = F["round_f"] + np.abs(F["M"]) @ F["delta_a"] * 4 + np.abs(F["J"]).T @ (F["efc_D"] * (np.abs(F["J"]) @ F["delta_a"])) * 4
    if (extra > RTOL * F["scale"]).any():
        # the bound on what rounding / the solver residual can do to the discrete inverse exceeds the comparison tolerance itself:
        # the case cannot decide anything at 1e-6 (stiff constraints on light bodies, CG residuals); counted, not compared
        P.count("skipped_discrete_perturbation_bound_exceeds_tolerance")
        return True, nefc
    if np.abs(a_disc - F["qacc"]).max(initial=0) > 1e-9 * (np.abs(F["qacc"]).max(initial=0) + 1e-9):
        P.count("discrete_acc_differs_from_continuous")
    d2.reset()
    d2.set_state(state, sig)
    d2["qacc"][:] = a_disc
    m.opt["enableflags"] = int(m.opt["enableflags"]) | int(E.mjENBL_INVDISCRETE)
    try:
        L.call("mj_inverse", m, d2, ret=None)
    finally:
        m.opt["enableflags"] = int(m.opt["enableflags"]) & ~int(E.mjENBL_INVDISCRETE)
    if (np.array(d2["qacc"]) != a_disc).any():
        viol("mj_inverse-invdiscrete-does-not-restore-qacc:%s" % integ[6:])
        return True, nefc
    P.count("discrete_cases_" + integ[6:])
    pending = []
    if compare_inverse(m, d2, F, P, lambda s_, **kw: pending.append((s_, kw)), "discrete-" + integ[6:], extra_tol=extra):
        return True, nefc
    # triage of a failed discrete comparison: mj_discreteAcc (implicit integrators) calls mjd_smooth_vel, whose actuator term reads
    # actuator_force (force-range saturation) and act_dot (actearly); both are outputs of mj_fwdActuation, which the inverse pipeline
    # never runs. If handing the forward pass' values to the twin repairs the comparison, that mechanism is the cause.
    d2.reset()
    d2.set_state(state, sig)
    d2["qacc"][:] = a_disc
    d2["actuator_force"][:] = F["actuator_force"]
    if m.n("na"):
        d2["act_dot"][:] = F["act_dot"]
    m.opt["enableflags"] = int(m.opt["enableflags"]) | int(E.mjENBL_INVDISCRETE)
    try:
        L.call("mj_inverse", m, d2, ret=None)
    finally:
        m.opt["enableflags"] = int(m.opt["enableflags"]) & ~int(E.mjENBL_INVDISCRETE)
    again = []
    if integ != "mjINT_EULER" and compare_inverse(m, d2, F, P, lambda s_, **kw: again.append((s_, kw)), "discrete-retry-" + integ[6:], extra_tol=extra):
        P.count("discrete_cases_repaired_by_forward_actuator_outputs")
        viol(STALE_SIG, first_failure=pending[0][0], actuator_force_forward=F["actuator_force"].tolist(),
             forcelimited=np.array(m["actuator_forcelimited"]).tolist(), forcerange=np.array(m["actuator_forcerange"]).tolist(),
             actearly=np.array(m["actuator_actearly"]).tolist(), **{k: v for k, v in pending[0][1].items()})
    else:
        for s_, kw in pending:
            viol(s_, **kw)
    return True, nefc


def worker(c):
    P = core.Part()
    L = drv.Lib(c.get("flavour", "rel"))
    try:
        m = c11.load_scene(L, c)
    except drv.MjError as e:
        P.count("model_rejected")
        P.count("model_rejected:" + str(e)[:50])
        return P.result()
    name = c11.scene_name(c)
    nv = m.n("nv")
    if nv == 0 or m.n("nflex") > 0:
        P.count("skipped_nv0" if nv == 0 else "skipped_flex")
        m.free()
        return P.result()
    m.opt["enableflags"] = int(m.opt["enableflags"]) & ~int(E.mjENBL_SLEEP)
    base = c11.default_options(m)
    rng = np.random.default_rng(c["seed"])
    try:
        T = make_tree(m)
    except Exception:
        T = None
        P.count("scenes_without_reference_tree")
    d1, d2 = m.make_data(), m.make_data()
    d3 = m.make_data()     # never reset: carries the results of earlier cases (see the dirty-twin comparison in check_case)
    P.count("scenes")
    P.count("scenes_" + c["kind"])
    sig = int(E.mjSTATE_INTEGRATION)
    for s in range(c["nstate"]):
        sseed = int(rng.integers(0, 2 ** 31))
        if c.get("only_state") is not None and s != c["only_state"]:
            continue
        r = np.random.default_rng(sseed)
        c11.restore_options(m, base)
        if not c11.init_state(L, m, d1, r, c, P):
            d1.free()
            d1 = m.make_data()
            continue
        c11.random_inputs(r, m, d1, scale=float(r.choice([0.3, 1.0, 5.0])))
        state = d1.get_state(sig)
        P.count("states")
        for k in range(c["nconf"]):
            cseed = int(r.integers(0, 2 ** 31))
            if c.get("only_conf") is not None and k != c["only_conf"]:
                continue
            rc = np.random.default_rng(cseed)
            o = random_config(rc, k)
            apply_config(m, o, base)
            witness = {"scene": name, "xml": c.get("_xml"), "state": s, "conf": k, "config": o,
                       "case": dict({kk: vv for kk, vv in c.items() if not kk.startswith("_")}, only_state=s, only_conf=k)}
            try:
                conv, nefc = check_case(L, m, d1, d2, T, state, o, P, witness, dirty=d3)
            except drv.MjError as e:
                P.count("engine_error_skipped")
                P.count("engine_error:" + str(e).split(":")[0][:40])
                P.case(nontrivial=False)
                d1, d2 = m.make_data(), m.make_data()
                d3 = m.make_data()
                continue
            P.count("cases")
            P.note_max("nefc", nefc)
            P.case(key="%s|%d|%s" % (name, s, config_key(o)), nontrivial=bool(conv and nefc > 0),
                   sample={"scene": name, "state": s, "config": config_key(o), "nefc": nefc, "converged": bool(conv)})
        if any(v["signature"] != STALE_SIG for v in P.violations) and c.get("stop_on_violation", True):
            break
    c11.restore_options(m, base)
    d1.free()
    d2.free()
    m.free()
    return P.result()


def cases(ctx, ngen, npile, ncorpus, nstate, nconf):
    rng = ctx.rng
    cs = []
    for i in range(ngen):
        cs.append({"kind": "gen", "profile": ["contact", "rich"][i % 2], "mseed": int(rng.integers(0, 2 ** 31)), "seed": int(rng.integers(0, 2 ** 31)),
                   "adhesion": i % 5 == 3, "nstate": nstate, "nconf": nconf, "settle": (0, 6), "tarm": 0.4, "actdamp": i % 2 == 0,
                   "over": {"actuators": 0.7} if i % 2 == 0 else {}})
    for i in range(npile):
        cs.append({"kind": "pile", "mseed": int(rng.integers(0, 2 ** 31)), "seed": int(rng.integers(0, 2 ** 31)),
                   "condim": ["mix", 1, 3, 4, 6, "mix"][i % 6], "adhesion": i % 3 == 1, "floss": i % 4 == 2, "nclusters": int(rng.integers(1, 3)),
                   "per": int(rng.integers(2, 5)), "nstate": max(1, nstate // 2), "nconf": nconf, "settle": (5, 60)})
    corp = [x for x in corpus.loadable() if 0 < x["nv"] <= 60 and x["nflex"] == 0]
    for j in rng.permutation(len(corp))[:ncorpus]:
        cs.append({"kind": "corpus", "path": corp[int(j)]["path"], "seed": int(rng.integers(0, 2 ** 31)), "nstate": max(1, nstate // 2),
                   "nconf": nconf, "settle": (1, 30)})
    return cs


def run(ctx):
    build.ensure("rel")
    ctx.extra["reference_self_test"] = {k: float(v) for k, v in rbd.self_test().items()}
    cs = cases(ctx, ngen=ctx.pick(60, 500), npile=ctx.pick(30, 250), ncorpus=ctx.pick(16, 80), nstate=ctx.pick(2, 3), nconf=ctx.pick(4, 8))
    c11.run_batched(ctx, "vf.props.c09", cs)
    n = max(1, ctx.counters.get("cases", 0))
    if ctx.counters.get("engine_error_skipped", 0) > 0.1 * n:
        ctx.inconclusive("too many cases skipped on engine errors (%d of %d)" % (ctx.counters.get("engine_error_skipped", 0), n))
    if ctx.counters.get("skipped_inverse_ill_conditioned_R_near_zero", 0) > 0.1 * n:
        ctx.inconclusive("more than 10 %% of the cases have a numerically undefined inverse (%d of %d)" % (ctx.counters["skipped_inverse_ill_conditioned_R_near_zero"], n))
    if ctx.counters.get("skipped_not_converged", 0) > 0.2 * n:
        ctx.inconclusive("more than 20 %% of the cases did not converge (%d of %d)" % (ctx.counters.get("skipped_not_converged", 0), n))
    nd = sum(ctx.counters.get("discrete_cases_" + k, 0) for k in ("EULER", "IMPLICIT", "IMPLICITFAST"))
    if ctx.counters.get("skipped_discrete_perturbation_bound_exceeds_tolerance", 0) > nd:
        ctx.inconclusive("more discrete-time cases skipped (perturbation bound above tolerance) than compared")
    for need in ("active_rows_equality", "active_rows_frictionloss_dof", "active_rows_frictionloss_tendon", "active_rows_limit_joint",
                 "active_rows_limit_tendon", "active_rows_frictionless", "active_rows_pyramidal", "active_rows_elliptic", "cases_with_xfrc",
                 "cases_with_actuation", "cases_with_elliptic_middle_zone", "discrete_cases_EULER", "discrete_cases_IMPLICIT",
                 "discrete_cases_IMPLICITFAST", "discrete_acc_differs_from_continuous"):
        if not ctx.violations and ctx.counters.get(need, 0) == 0:
            ctx.inconclusive("workload never produced: " + need)
    ctx.min_nontrivial = ctx.pick(300, 5000)


def replay(ctx, path):
    rec = json.load(open(path))
    c = rec["detail"]["case"]
    if rec["detail"].get("xml") and c["kind"] != "corpus":
        c["xml"] = rec["detail"]["xml"]
    c["stop_on_violation"] = False
    ctx.merge(worker(c))
    ctx.min_nontrivial = 1
