"""C11 Constraint forces are admissible."""
import json
import xml.etree.ElementTree as ET

import numpy as np

from .. import build, common, core, drv, par
from ..gen import corpus, model, piles
from ..mjconst import E
from ..ref import efcrows

LEVEL = "exploration"
RULE = ("runtime monitor over (scene x state x solver configuration): scenes are generated articulated models (profiles "
        "contact/rich forced to carry equalities, dof and tendon frictionloss, joint and tendon limits, mixed condim), heaps of free "
        "bodies (vf/gen/piles.py, condim 1/3/4/6 or mixed, per-geom friction, margin/gap, adhesion) and shipped corpus models; a state "
        "is reached by a randomised initial configuration plus a few default steps and random ctrl/qfrc_applied/xfrc_applied; each "
        "state is solved by mj_forward under configurations from {PGS,CG,Newton} x {pyramidal,elliptic} x {dense,sparse} x noslip "
        "{0,n} x iterations {1,2,3,converged} x islands on/off x warmstart on/off/garbage x impratio. After every mj_forward a row "
        "classifier written from the documentation checks the admissible set of every efc row, qfrc_constraint == J' efc_force with a "
        "dense J rebuilt from the arena arrays, and mj_contactForce against an independent E f decoding. distinct = (scene, state "
        "index, configuration); non-trivial = nefc>0 and at least one inequality/cone/friction-loss row")
ASSUMPTIONS = [
    "equality rows are unconstrained in sign (doc Dual problem: 'lambda_E is unconstrained')",
    "tendon friction-loss rows are bounded by tendon_frictionloss, dof rows by dof_frictionloss (doc Friction loss: 'an upper limit on the "
    "absolute value of the force ... can be applied to joints and tendons')",
    "admissibility tolerance eps = 1e-9*max|efc_force| (rounding of the projections), cone test additionally 1e-9 relative",
    "qfrc_constraint vs J'f: 1e-9 relative to sum_i |J_ij||f_i| (different summation orders: islands, sparse)",
    "mj_contactForce reports E f minus contact.adhesion along the normal (doc Adhesion / geom adhesion: 'mj_contactForce reports the net "
    "interface force, whose normal component can be negative under tension'); admissibility is claimed for the solver's cone force efc_force",
    "sleeping disabled; models with flexes skipped; states whose forward pass raises an engine error or produces non-finite qacc "
    "under default options are discarded and counted",
]

SOLVERS = ["mjSOL_PGS", "mjSOL_CG", "mjSOL_NEWTON"]
CONES = ["mjCONE_PYRAMIDAL", "mjCONE_ELLIPTIC"]


# ---- scenes (shared with C09) ------------------------------------------------------------------------------------------
def _decorate_contacts(root, rng, adhesion):
    """per-geom friction / margin / gap / adhesion / solref on a pile scene"""
    for g in root.iter("geom"):
        if rng.random() < 0.5:
            g.set("friction", model.f([np.exp(rng.uniform(np.log(0.05), np.log(2))), np.exp(rng.uniform(np.log(1e-4), np.log(0.05))),
                                       np.exp(rng.uniform(np.log(1e-5), np.log(0.01)))]))
        if rng.random() < 0.3:
            mg = rng.uniform(0, 0.03)
            g.set("margin", model.f(mg))
            if rng.random() < 0.5:
                g.set("gap", model.f(mg * rng.uniform(0, 1)))
        if adhesion and rng.random() < 0.35:
            g.set("adhesion", model.f(np.exp(rng.uniform(np.log(0.05), np.log(5)))))
            if rng.random() < 0.5 and "gap" not in g.attrib:
                g.set("gap", model.f(rng.uniform(0.002, 0.02)))
        if rng.random() < 0.2:
            g.set("solref", model.f([np.exp(rng.uniform(np.log(0.004), np.log(0.05))), rng.uniform(0.3, 1.5)]))
        if rng.random() < 0.15:
            g.set("priority", str(int(rng.integers(0, 3))))


def scene_xml(c):
    """deterministic XML for a case dict"""
    rng = np.random.default_rng(c["mseed"])
    if c["kind"] == "pile":
        cd = c.get("condim", "mix")
        xml = piles.pile_xml(rng, nclusters=int(c.get("nclusters", 2)), per=int(c.get("per", 4)), condim=cd, spacing=c.get("spacing", 1.2),
                             multi_geom=0.3)
        xml = xml.replace('memory="40M"', 'memory="8M"')      # small heaps: keeps mj_resetData / mj_makeData cheap
        root = ET.fromstring(xml)
        _decorate_contacts(root, rng, c.get("adhesion", False))
        if c.get("floss"):
            # documented "non-physical but allowed" friction loss on free joints
            for b in root.iter("body"):
                fj = b.find("freejoint")
                if fj is not None and rng.random() < 0.3:
                    b.remove(fj)
                    b.insert(0, ET.Element("joint", {"type": "free", "frictionloss": model.f(np.exp(rng.uniform(np.log(0.01), np.log(1))))}))
        return ET.tostring(root, encoding="unicode")
    over = dict(nbody=tuple(c.get("nbody", (2, 9))), ntree=tuple(c.get("ntree", (1, 3))), equalities=3, tendons=3, frictionloss=0.5,
                tendon_frictionloss=0.5, limits=0.7, tendon_limit=0.5, condim=0.8, geom_friction=0.5, sensors=0, pair=0.4, eq_inactive=0.05,
                free=c.get("pfree", 0.6), ball=0.2, limit_margin=0.4, geom_margin=0.3, tendon_wrap=0.15, mocap=0.2, static_geoms=0.3,
                tendon_armature=c.get("tarm", 0.15))
    over.update(c.get("over", {}))
    xml, _ = model.gen_profile(rng, c["profile"], **over)
    if c.get("actdamp"):
        # actuator-contributed damping / armature on joint and tendon transmissions (doc XMLreference actuator/general damping, armature)
        root = ET.fromstring(xml)
        act = root.find("actuator")
        for a in (act if act is not None else []):
            if a.tag in ("muscle", "adhesion") or not ("joint" in a.attrib or "tendon" in a.attrib):
                continue
            if rng.random() < 0.6:
                lin = float(np.exp(rng.uniform(np.log(0.01), np.log(3))))
                a.set("damping", model.f([lin, lin * rng.uniform(0, 1) * (rng.random() < 0.4), 0.0]))
            if rng.random() < 0.3:
                a.set("armature", model.f(np.exp(rng.uniform(np.log(1e-3), np.log(0.2)))))
        xml = ET.tostring(root, encoding="unicode")
    if c.get("adhesion"):
        root = ET.fromstring(xml)
        for g in root.find("worldbody").iter("geom"):      # not the <geom> path elements of spatial tendons
            if g.get("contype") != "0" and rng.random() < 0.3:
                g.set("adhesion", model.f(np.exp(rng.uniform(np.log(0.05), np.log(3)))))
        xml = ET.tostring(root, encoding="unicode")
    return xml


def load_scene(L, c):
    if c["kind"] == "corpus":
        return L.load_xml(str(build.REPO / c["path"]))
    xml = c.get("xml") or scene_xml(c)
    c["_xml"] = xml
    return L.load_xml_string(xml)


def scene_name(c):
    if c["kind"] == "corpus":
        return c["path"]
    if c["kind"] == "pile":
        return "pile:%d:%s:%d%d" % (c["mseed"], c.get("condim", "mix"), int(bool(c.get("adhesion"))), int(bool(c.get("floss"))))
    return "gen:%s:%d:%d" % (c["profile"], c["mseed"], int(bool(c.get("adhesion"))))


def default_options(m):
    """snapshot of the option fields the checks modify"""
    return {k: (np.array(m.opt[k]).copy() if isinstance(m.opt[k], np.ndarray) else m.opt[k])
            for k in ("solver", "cone", "jacobian", "iterations", "ls_iterations", "noslip_iterations", "tolerance", "ls_tolerance",
                      "noslip_tolerance", "impratio", "disableflags", "enableflags", "integrator", "timestep")}


def restore_options(m, snap):
    for k, v in snap.items():
        m.opt[k] = v


def init_state(L, m, d, rng, c, P):
    """random configuration near contact + a few default steps; returns False if the state is unusable"""
    d.reset()
    nv = m.n("nv")
    kind = c["kind"]
    if kind == "gen" or (kind == "corpus" and rng.random() < 0.5):
        if kind == "gen":
            common.random_state(rng, m, d, vel_scale=float(rng.choice([0.0, 0.3, 2.0])))
            jt, qa = m["jnt_type"], m["jnt_qposadr"]
            for j in range(m.n("njnt")):
                if jt[j] == E.mjJNT_FREE and rng.random() < 0.8:
                    d["qpos"][qa[j] + 2] = rng.uniform(0.0, 0.3)
        else:
            d["qvel"][:] = rng.normal(size=nv) * 0.3
    elif kind == "corpus" and m.n("nkey") and rng.random() < 0.5:
        L.call("mj_resetDataKeyframe", m, d, int(rng.integers(0, m.n("nkey"))), ret=None)
    nstep = int(rng.integers(*c.get("settle", (0, 6))))
    try:
        L.clear_messages()
        for _ in range(nstep):
            if rng.random() < 0.3:
                common.random_controls(rng, m, d, scale=float(rng.choice([0.3, 1.0])))
            d.step(1)
        d.forward()
    except drv.MjError as e:
        P.count("state_discarded_engine_error")
        return False
    if L.warnings() or not np.isfinite(d["qacc"]).all() or not np.isfinite(d["qpos"]).all() or np.abs(d["qvel"]).max(initial=0) > 1e3:
        P.count("state_discarded_unstable")
        L.clear_messages()
        return False
    return True


def random_inputs(rng, m, d, scale=1.0):
    """ctrl, qfrc_applied and xfrc_applied on several bodies"""
    nu, nv, nb = m.n("nu"), m.n("nv"), m.n("nbody")
    if nu:
        d["ctrl"][:] = rng.normal(size=nu) * scale
    d["qfrc_applied"][:] = rng.normal(size=nv) * scale * (rng.random(nv) < 0.4) if rng.random() < 0.7 else 0.0
    x = d["xfrc_applied"]
    x[:] = 0
    if nb > 1 and rng.random() < 0.7:
        for b in rng.choice(np.arange(1, nb), size=min(nb - 1, int(rng.integers(1, 4))), replace=False):
            x[int(b)] = rng.normal(size=6) * scale * np.array([3, 3, 3, 0.3, 0.3, 0.3])


# ---- solver configurations ---------------------------------------------------------------------------------------------
def random_config(rng, k):
    """k-th configuration for a state: the first six cover solver x cone, the rest is random"""
    o = {}
    o["solver"] = SOLVERS[k % 3] if k < 6 else str(rng.choice(SOLVERS))
    o["cone"] = CONES[(k // 3) % 2] if k < 6 else str(rng.choice(CONES))
    o["jacobian"] = str(rng.choice(["mjJAC_DENSE", "mjJAC_SPARSE"]))
    o["iterations"] = int(rng.choice([1, 2, 3, 100, 100]))
    o["noslip"] = int(rng.choice([0, 0, 1, 3, 10]))
    o["flags"] = [fl for fl, p in (("noisland", 0.4), ("nowarmstart", 0.25), ("diagexact", 0.15)) if rng.random() < p]
    o["warm"] = str(rng.choice(["prev", "prev", "garbage", "zero"]))
    if rng.random() < 0.35:
        o["impratio"] = float(np.exp(rng.uniform(np.log(0.2), np.log(50))))
    if rng.random() < 0.2:
        o["tolerance"] = 0.0
    return o


def apply_config(m, o, base):
    restore_options(m, base)
    opt = m.opt
    opt["solver"] = getattr(E, o["solver"])
    opt["cone"] = getattr(E, o["cone"])
    opt["jacobian"] = getattr(E, o["jacobian"])
    opt["iterations"] = o["iterations"]
    opt["noslip_iterations"] = o.get("noslip", 0)
    dis = int(base["disableflags"])
    en = int(base["enableflags"]) & ~int(E.mjENBL_SLEEP)
    for fl in o.get("flags", []):
        dis |= {"noisland": E.mjDSBL_ISLAND, "nowarmstart": E.mjDSBL_WARMSTART}.get(fl, 0)
        en |= {"diagexact": E.mjENBL_DIAGEXACT}.get(fl, 0)
    opt["disableflags"] = dis
    opt["enableflags"] = en
    if "impratio" in o:
        opt["impratio"] = o["impratio"]
    if "tolerance" in o:
        opt["tolerance"] = o["tolerance"]


def config_key(o):
    return "%s/%s/%s/it%d/ns%d/%s/%s%s" % (o["solver"][6:], o["cone"][7:10], o["jacobian"][6:9], o["iterations"], o.get("noslip", 0),
                                           "+".join(o.get("flags", [])) or "-", o.get("warm", "prev"), "/imp" if "impratio" in o else "")


def qcqp_false_unconstrained(L, m, d, af, nefc, force, i, dim, contact):
    """mechanism confirmation for the known finding 'mju_QCQP reports unconstrained with a point outside the ellipsoid, solveQCQP then
    skips the projection'. The friction sub-problem that the last dual sweep (noslip if enabled, else PGS) solved for the elliptic
    block starting at row i is recovered from the engine's efc_AR / efc_b / efc_R and the final efc_force exactly as
    solNoSlip / solPGS build it (Ac = AR block [- R on the diagonal, clamped at 1e-10 for noslip]; bc = b_t + AR[t,:] f [- R f_t] -
    Ac f_t), and replayed through the engine's own mju_QCQP with the contact's friction vector and the final normal force as radius.
    Confirmed iff mju_QCQP returns 0 ('unconstrained', so solveQCQP does not project) while its result lies OUTSIDE the ellipsoid:
    with val > 0 the only exit of the multiplier iteration at la == 0 is the absolute test 'delta < 1e-10', i.e. the described
    defect. Returns (confirmed, evidence dict)."""
    ev = {}
    try:
        n = dim - 1
        if n != 5:
            return False, {"reason": "not a condim-6 block"}
        noslip = int(m.opt["noslip_iterations"]) > 0
        rows = np.arange(i + 1, i + dim)
        b = np.array(d.arena("efc_b", af)).ravel()[:nefc]
        R = np.array(d.arena("efc_R", af)).ravel()[:nefc]
        raw = np.array(d.arena("efc_AR", af)).ravel()
        ARt = np.zeros((n, nefc))
        if L.call("mj_isSparse", m):
            nnz = np.array(d.arena("efc_AR_rownnz", af)).ravel()
            adr = np.array(d.arena("efc_AR_rowadr", af)).ravel()
            col = np.array(d.arena("efc_AR_colind", af)).ravel()
            for k, r in enumerate(rows):
                a, c = int(adr[r]), int(nnz[r])
                np.add.at(ARt[k], col[a:a + c], raw[a:a + c])
        else:
            for k, r in enumerate(rows):
                ARt[k] = raw[r * nefc:(r + 1) * nefc]
        if not (np.isfinite(ARt).all() and np.isfinite(b).all()):
            return False, {"reason": "efc_AR / efc_b not finite"}
        ft = force[rows]
        Ac = ARt[:, rows].copy()
        res = b[rows] + ARt @ force
        if noslip:
            Ac[np.arange(n), np.arange(n)] = np.maximum(1e-10, np.diag(Ac) - R[rows])
            res = res - R[rows] * ft
        bc = res - Ac @ ft
        mu = np.ascontiguousarray(np.asarray(contact["friction"], dtype=np.float64)[:n])
        r = float(force[i])
        out = np.zeros(5)
        flag = int(L.call("mju_QCQP", out, np.ascontiguousarray(Ac), np.ascontiguousarray(bc), mu, r, n))
        ratio = float(np.sqrt(((out / mu) ** 2).sum()) / r) if r > 0 else float("inf")
        ev = {"last_dual_sweep": "noslip" if noslip else "PGS", "mju_QCQP_return": flag, "replayed_weighted_norm_over_radius": ratio,
              "scaled_matrix_max": float(np.abs(Ac * np.outer(mu, mu)).max()), "radius": r,
              "engine_vs_replayed_tangential_relative_difference": float(np.abs(out - ft).max() / (np.abs(ft).max() + 1e-300))}
        return bool(flag == 0 and np.isfinite(ratio) and ratio > 1 + 1e-6), ev
    except Exception as ex:                                   # evidence not obtainable => not confirmed
        return False, dict(ev, reason="confirmation failed: %r" % (ex,))


# ---- the monitor ----------------------------------------------------------------------------------------------------------
def monitor(L, m, d, P, witness, tag):
    """all C11 observations on the mjData as left by mj_forward; returns (nefc, n_restricted_rows)"""
    nefc, nv = d.s("nefc"), m.n("nv")
    viol = lambda sig, **kw: P.violation(sig, dict(witness, **kw))
    af = d.arena_fields()
    con = np.array(d.contacts())
    ncon = len(con)
    qc = np.array(d["qfrc_constraint"])
    if nefc == 0:
        if np.abs(qc).max(initial=0) != 0:
            viol("qfrc_constraint-nonzero-without-constraints", max=float(np.abs(qc).max()))
        res = np.zeros(6)
        for i in range(ncon):
            L.call("mj_contactForce", m, d, i, res, ret=None)
            if np.abs(res).max() != 0:
                viol("mj_contactForce-nonzero-for-contact-without-rows", contact=i, result=res.tolist())
                break
        return 0, 0
    etype = np.array(d.arena("efc_type", af)).ravel()[:nefc]
    eid = np.array(d.arena("efc_id", af)).ravel()[:nefc]
    force = np.array(d.arena("efc_force", af)).ravel()[:nefc]
    pyramidal = int(m.opt["cone"]) == int(E.mjCONE_PYRAMIDAL)
    blocks, problems = efcrows.classify(etype, eid, d.s("ne"), d.s("nf"), d.s("nl"), con, pyramidal,
                                        dof_frictionloss=m["dof_frictionloss"], tendon_frictionloss=m["tendon_frictionloss"])
    for p in sorted(set(problems)):
        viol("row-layout:" + p, efc_type=etype.tolist(), efc_id=eid.tolist(), ne=d.s("ne"), nf=d.s("nf"), nl=d.s("nl"))
    if problems:
        return nefc, 0
    # the engine's own copy of the bound must be the model's frictionloss
    efl = np.array(d.arena("efc_frictionloss", af)).ravel()[:nefc]
    for b in blocks:
        if b.kind == efcrows.FRICTION and b.bound is not None and efl[b.start] != b.bound:
            viol("efc_frictionloss-differs-from-model-frictionloss", row=b.start, efc=float(efl[b.start]), model=b.bound, type=b.type)
            break
    fmax = float(np.abs(force[np.isfinite(force)]).max(initial=0))
    eps = 1e-9 * fmax
    bad = efcrows.admissibility(blocks, force, con, eps)
    dual = int(m.opt["solver"]) == int(E.mjSOL_PGS) or int(m.opt["noslip_iterations"]) > 0
    seen_sig = set()
    for sig, info in bad:
        if sig.startswith("elliptic-contact-friction-outside-cone"):
            # forces come from the dual path (PGS / noslip: per-contact QCQP + ellipsoid projection) or from the primal state function
            sig = "%s:%s:condim%d" % (sig, "after-dual-qcqp" if dual else "primal-state-function", info["dim"])
            if dual and info["dim"] == 6:
                # known finding findings/C11-qcqp-false-unconstrained-leaves-cone.md: relabel ONLY if the mechanism is confirmed on
                # this very block (replay of the recovered friction sub-problem through the engine's mju_QCQP); otherwise the generic
                # signature above stays (audit B1)
                ok, ev = qcqp_false_unconstrained(L, m, d, af, nefc, force, info["row"], info["dim"], con[info["contact"]])
                info = dict(info, qcqp_replay=ev)
                if ok:
                    sig += ":mju_QCQP-false-unconstrained"
                    P.count("cone_violation_confirmed_as_qcqp_false_unconstrained")
                else:
                    P.count("cone_violation_condim6_dual_mechanism_not_confirmed")
        if sig not in seen_sig and len(seen_sig) < 4:
            seen_sig.add(sig)
            viol(sig, eps=eps, noslip=int(m.opt["noslip_iterations"]), solver=int(m.opt["solver"]), **info)
    kinds = {}
    for b in blocks:
        kinds[b.kind] = kinds.get(b.kind, 0) + 1
        if b.kind in (efcrows.PYRAMID, efcrows.ELLIPTIC):
            P.count("blocks_%s_condim%d" % (b.kind, b.dim))
            if b.kind == efcrows.ELLIPTIC and force[b.start] > eps:
                mu = con[b.id]["friction"][:b.dim - 1]
                tn = np.sqrt(((force[b.start + 1:b.start + b.n] / mu) ** 2).sum())
                P.count("elliptic_on_cone_surface" if tn > force[b.start] * (1 - 1e-6) else "elliptic_inside_cone")
        elif b.kind == efcrows.FRICTION:
            P.count("blocks_frictionloss_%s" % ("dof" if b.type == int(E.mjCNSTR_FRICTION_DOF) else "tendon"))
            if b.bound and abs(force[b.start]) >= b.bound * (1 - 1e-9):
                P.count("frictionloss_rows_saturated")
        else:
            P.count("blocks_" + b.kind)
        if b.kind != efcrows.EQUALITY and (force[b.rows()] != 0).any():
            P.count("restricted_blocks_with_force")
    # ---- qfrc_constraint == J' f
    J, sparse = efcrows.dense_J(L, m, d, af)
    ref = J.T @ force
    sc = np.abs(J).T @ np.abs(force)
    err = np.abs(qc - ref)
    tol = 1e-9 * sc + 1e-300
    P.note_max("relerr_qfrc_constraint_vs_JTf", float((err / (sc + 1e-300)).max(initial=0)))
    if not np.isfinite(qc).all() or (err > tol).any():
        i = int(np.nanargmax(err / tol))
        viol("qfrc_constraint-differs-from-JT-efc_force:%s" % ("sparse" if sparse else "dense"), dof=i, engine=float(qc[i]), ref=float(ref[i]),
             scale=float(sc[i]), noslip=int(m.opt["noslip_iterations"]), solver=int(m.opt["solver"]))
    # ---- mj_contactForce == E f - adhesion
    by_contact = {b.id: b for b in blocks if b.kind in (efcrows.FRICTIONLESS, efcrows.PYRAMID, efcrows.ELLIPTIC)}
    res = np.zeros(6)
    for i in range(ncon):
        res[:] = np.nan
        L.call("mj_contactForce", m, d, i, res, ret=None)
        b = by_contact.get(i)
        if b is None:
            if (res != 0).any():
                viol("mj_contactForce-nonzero-for-contact-without-rows", contact=i, result=res.tolist(), efc_address=int(con[i]["efc_address"]))
                break
            continue
        want, scale = efcrows.contact_wrench(b, force, con[i])
        e = np.abs(res - want)
        if not np.isfinite(res).all() or (e > 1e-12 * (scale.max() + 1e-300)).any():
            k = int(np.nanargmax(e))
            viol("mj_contactForce-differs-from-decoded-efc_force:%s:condim%d" % (b.kind, b.dim), contact=i, component=k, engine=res.tolist(),
                 ref=want.tolist(), block=force[b.rows()].tolist(), friction=con[i]["friction"].tolist(), adhesion=float(con[i]["adhesion"]))
            break
        P.count("contact_forces_decoded")
        if con[i]["adhesion"] != 0:
            P.count("contact_forces_decoded_with_adhesion")
            if res[0] < 0:
                P.count("adhesive_contacts_in_tension")
    # out-of-range ids give zero
    for i in (-1, ncon):
        res[:] = np.nan
        L.call("mj_contactForce", m, d, i, res, ret=None)
        if (res != 0).any():
            viol("mj_contactForce-nonzero-for-invalid-id", id=i, result=res.tolist())
    nres = sum(v for k, v in kinds.items() if k != efcrows.EQUALITY)
    return nefc, nres


def set_warmstart(rng, m, d, how, saved):
    if how == "garbage":
        d["qacc_warmstart"][:] = rng.normal(size=m.n("nv")) * float(rng.choice([1.0, 100.0]))
    elif how == "zero":
        d["qacc_warmstart"][:] = 0
    else:
        d["qacc_warmstart"][:] = saved


def worker(c):
    P = core.Part()
    L = drv.Lib(c.get("flavour", "rel"))
    try:
        m = load_scene(L, c)
    except drv.MjError as e:
        P.count("model_rejected")
        P.count("model_rejected:" + str(e)[:50])
        return P.result()
    name = scene_name(c)
    nv = m.n("nv")
    if nv == 0 or m.n("nflex") > 0:
        P.count("skipped_nv0" if nv == 0 else "skipped_flex")
        m.free()
        return P.result()
    m.opt["enableflags"] = int(m.opt["enableflags"]) & ~int(E.mjENBL_SLEEP)
    base = default_options(m)
    rng = np.random.default_rng(c["seed"])
    d = m.make_data()
    P.count("scenes")
    P.count("scenes_" + c["kind"])
    sig = int(E.mjSTATE_INTEGRATION)
    for s in range(c["nstate"]):
        sseed = int(rng.integers(0, 2 ** 31))
        if c.get("only_state") is not None and s != c["only_state"]:
            continue
        r = np.random.default_rng(sseed)
        restore_options(m, base)
        if not init_state(L, m, d, r, c, P):
            d.free()
            d = m.make_data()
            continue
        random_inputs(r, m, d, scale=float(r.choice([0.3, 1.0, 5.0])))
        state = d.get_state(sig)
        warm = np.array(d["qacc_warmstart"])
        P.count("states")
        for k in range(c["nconf"]):
            cseed = int(r.integers(0, 2 ** 31))
            if c.get("only_conf") is not None and k != c["only_conf"]:
                continue
            rc = np.random.default_rng(cseed)
            o = random_config(rc, k)
            apply_config(m, o, base)
            witness = {"scene": name, "xml": c.get("_xml"), "state": s, "conf": k, "config": o,
                       "case": dict({kk: vv for kk, vv in c.items() if not kk.startswith("_")}, only_state=s, only_conf=k)}
            try:
                d.set_state(state, sig)
                set_warmstart(rc, m, d, o["warm"], warm)
                L.clear_messages()
                d.forward()
                nefc, nres = monitor(L, m, d, P, witness, config_key(o))
            except drv.MjError as e:
                P.count("engine_error_skipped")
                P.count("engine_error:" + str(e).split(":")[0][:40])
                P.case(nontrivial=False)
                d = m.make_data()
                continue
            P.count("forward_calls")
            P.count("solver_%s_%s" % (o["solver"][6:], o["cone"][7:10]))
            if o["iterations"] <= 3:
                P.count("forward_calls_unconverged_budget")
            if o.get("noslip"):
                P.count("forward_calls_with_noslip")
            P.note_max("nefc", nefc)
            P.case(key="%s|%d|%s" % (name, s, config_key(o)), nontrivial=nres > 0,
                   sample={"scene": name, "state": s, "config": config_key(o), "nefc": nefc})
        if P.violations and c.get("stop_on_violation", True):
            break
    restore_options(m, base)
    d.free()
    m.free()
    return P.result()


def cases(ctx, ngen, npile, ncorpus, nstate, nconf):
    rng = ctx.rng
    cs = []
    for i in range(ngen):
        cs.append({"kind": "gen", "profile": ["contact", "rich"][i % 2], "mseed": int(rng.integers(0, 2 ** 31)), "seed": int(rng.integers(0, 2 ** 31)),
                   "adhesion": i % 5 == 3, "nstate": nstate, "nconf": nconf, "settle": (0, 6)})
    for i in range(npile):
        cs.append({"kind": "pile", "mseed": int(rng.integers(0, 2 ** 31)), "seed": int(rng.integers(0, 2 ** 31)),
                   "condim": ["mix", 1, 3, 4, 6, "mix"][i % 6], "adhesion": i % 3 == 1, "floss": i % 4 == 2, "nclusters": int(rng.integers(1, 4)),
                   "per": int(rng.integers(2, 6)), "nstate": max(1, nstate // 2), "nconf": nconf, "settle": (5, 60)})
    corp = [x for x in corpus.loadable() if 0 < x["nv"] <= 80 and x["nflex"] == 0]
    for j in rng.permutation(len(corp))[:ncorpus]:
        cs.append({"kind": "corpus", "path": corp[int(j)]["path"], "seed": int(rng.integers(0, 2 ** 31)), "nstate": max(1, nstate // 2),
                   "nconf": nconf, "settle": (1, 30)})
    return cs


def collect(ctx, cs, res):
    for c, r in zip(cs, res):
        if r is None:
            ctx.inconclusive("worker returned nothing")
        elif "crash" in r:
            ctx.count("worker_crash")
            ctx.inconclusive("worker crashed on %s: %s" % (scene_name(c), r["crash"][-300:]))
        elif "exception" in r:
            ctx.count("harness_exception")
            ctx.inconclusive("harness exception in worker (%s): %s %s" % (scene_name(c), r["exception"], r.get("trace", "")[-600:]))
        else:
            ctx.merge(r)


def run_batched(ctx, module, cs, nbatch=3, nproc=16):
    for k in range(nbatch):
        part = cs[k::nbatch]
        res = par.run(module, "worker", part, nproc=nproc, timeout=ctx.pick(300, 900))
        collect(ctx, part, res)
        if ctx.violations:
            ctx.count("batches_not_run_after_violation", nbatch - 1 - k)
            return False
    return True


def run(ctx):
    build.ensure("rel")
    ctx.extra["reference_self_test"] = efcrows.self_test()
    cs = cases(ctx, ngen=ctx.pick(70, 600), npile=ctx.pick(40, 350), ncorpus=ctx.pick(20, 100), nstate=ctx.pick(2, 4), nconf=ctx.pick(8, 12))
    run_batched(ctx, "vf.props.c11", cs)
    n = max(1, ctx.counters.get("forward_calls", 0))
    skipped = ctx.counters.get("engine_error_skipped", 0)
    if skipped > 0.1 * n:
        ctx.inconclusive("too many forward calls skipped on engine errors (%d of %d)" % (skipped, n))
    for need in ("blocks_frictionloss_dof", "blocks_frictionloss_tendon", "blocks_limit", "blocks_frictionless", "blocks_pyramid_condim3",
                 "blocks_pyramid_condim4", "blocks_pyramid_condim6", "blocks_elliptic_condim3", "blocks_elliptic_condim4", "blocks_elliptic_condim6",
                 "elliptic_on_cone_surface", "frictionloss_rows_saturated", "forward_calls_with_noslip", "forward_calls_unconverged_budget",
                 "contact_forces_decoded_with_adhesion"):
        if not ctx.violations and ctx.counters.get(need, 0) == 0:
            ctx.inconclusive("workload never produced: " + need)
    ctx.min_nontrivial = ctx.pick(500, 8000)


def replay(ctx, path):
    rec = json.load(open(path))
    c = rec["detail"]["case"]
    if rec["detail"].get("xml") and c["kind"] != "corpus":
        c["xml"] = rec["detail"]["xml"]
    c["stop_on_violation"] = False
    ctx.merge(worker(c))
    ctx.min_nontrivial = 1
