"""C10 Constraint solvers return the optimum of the documented problem."""
import json

import numpy as np

from .. import build, core, drv, par
from ..gen import cscenes
from ..mjconst import E
from ..ref import constraint as cref
from ..ref import pgsblock

LEVEL = "exploration"
RULE = ("reference-model oracle: a generated scene (articulated models with equalities / friction loss / limits / contacts, heaps of free "
        "bodies with condim 1,3,4,6; pyramidal or elliptic cone; impratio 0.05..50; widened solimp/friction) is brought into a random "
        "state with active constraints; the documented reduced primal objective 1/2|a-a_s|^2_M + s(J a - aref) is rebuilt from dense M, "
        "efc_J (sparse rows re-densified), efc_aref, efc_R, efc_type/id, friction (vf/ref/constraint.py) and minimised by scipy "
        "(trust-exact Newton from a_s, L-BFGS from a random point, Newton polish; both starts must agree). mj_forward is then run for "
        "Newton / CG / PGS x dense / sparse Jacobian x islands on / off x warmstart {disabled, previous step, garbage, the optimum}, "
        "tolerance 0, iterations 200 / 2000 / 1000+2000, noslip off, and qacc, efc_force and the objective value are compared with the "
        "reference optimum and between island and monolithic solves; runs with iterations 0,1,2,5 are checked for cost(final) <= "
        "min(cost(qacc_warmstart), cost(qacc_smooth)). distinct = (scene, cone, solver, jacobian, island mode, warmstart kind, "
        "iteration budget); non-trivial = nefc > 0 and the reference starts agree. A PGS/elliptic run that mismatches the reference is "
        "analysed block by block (vf/ref/pgsblock.py): the dual A+R, b is rebuilt from M, J, R, a_s, aref; every block's exact optimum "
        "with the other blocks fixed is computed (Brent on the multipliers) and blocks whose optimum lowers the dual cost by <= 1e-13 of the "
        "cost scale are block-optimal and never reported; the mismatch is given the signature of a known finding only if EVERY "
        "non-optimal block is an elliptic block for which one of three mechanisms is confirmed from the engine itself (see ASSUMPTIONS), "
        "otherwise it keeps the generic signature objective-above- / qacc-differs- / efc_force-differs-from-reference-optimum:pgs:elliptic:*")
ASSUMPTIONS = [
    "a primal solver 'has converged' when the certificate the documentation gives, 1/2 g'M^-1 g with g = M qacc - qfrc_smooth - "
    "qfrc_constraint evaluated from the ENGINE's outputs, is below 1e-12 of the cost scale; PGS 'has converged' when efc_force is "
    "stationary (1e-9 relative, whitened) between 1000 and 2000 sweeps. Non-converged runs are counted and skipped; more than 10% "
    "(PGS, documented as first-order: 30%) skipped for a solver makes the run inconclusive",
    "a primal run whose certificate is larger but whose every (island) solve stopped before its iteration budget (line search found no "
    "improvement) also counts as converged and is held to |qacc-a*|_M <= 1e-4 sqrt(2 cost scale), objective excess <= 1e-8 cost scale",
    "tolerances follow the documented bounds cost(a)-cost* <= c := 1/2 g'M^-1 g and 1/2|a-a*|^2_M <= cost(a)-cost*: objective excess <= 2c + 1e-9 "
    "of the cost scale (1/2(|x*|+|a_s|_M)^2 + cost at a_s), |qacc-a*|_M <= 2 sqrt(2c) + 1e-7 (|x*|+|a_s|_M); efc_force against the documented force -grad s at the engine's own qacc 4e-9 of the row's operands (|J||a|+|aref|) plus 1e-9 (|x*|+|a_s|_M), in whitened units force*sqrt(R) (the solvers update J a - aref incrementally, so its roundoff is relative to the iterates, not to the final row value); PGS 1e-4 "
    "(doc: first-order convergence)",
    "noslip is off (doc: 'this cascade of optimization steps no longer solves a single well-defined optimization problem'); sleeping off; "
    "no flex bodies (the implicit effective metric replaces M); efc_force is unique here because R > 0 makes the dual strictly convex",
    "the starting point of a primal solver is the lower-cost one of qacc_warmstart and qacc_smooth (doc Warmstart: 'The lower-cost "
    "initialization is used'); with mjDSBL_WARMSTART it is qacc_smooth",
    "classification of a PGS/elliptic mismatch (it is a violation in every case; only the signature is decided). Block optimality is decided "
    "by the decrease of the dual cost that the exact block optimum achieves (<= 1e-13 cost scale; measured, quick seeds 0..4: converged blocks "
    "<= 1.4e-15, stalled blocks >= 7.3e-11); the whitened KKT residual (f in K, res in K*, res.f = 0; sign conditions for scalar rows) is recorded only. "
    "A non-optimal elliptic block is CONFIRMED as "
    "(a) apex-stall: block force exactly 0, res_n >= 0, res outside K* (res_n < |mu*res_T|) and solPGS' update rule at force < mjMINVAL "
    "(scalar normal step, clamp) returns 0 again; "
    "(b) qcqp-zero-friction-small-det: f_n > 0, one solPGS block update re-executed with the ENGINE's own mju_QCQP2/3/N (called through "
    "ctypes on the block A_TT, b_c, mu, r = f_n built as solPGS builds them) leaves the block where it is (whitened move <= 1e-8 of the "
    "scale; measured <= 7.3e-11), that call returns 0 and exactly zero friction, det / smallest Cholesky pivot of the mu-scaled block "
    "is < 1e-10 although its Jacobi-scaled smallest eigenvalue is > 1e-8, and the exact slice optimum has non-zero friction and a lower slice cost; "
    "(c) qcqp-unconverged-iterate: same fixed-point test (the update either reproduces the force or is undone by costChange's "
    "cost-increase guard), the engine's QCQP output is reproduced to 1e-6 by a re-implementation of the documented iteration (Newton from "
    "la = 0, <= 20 steps, absolute 1e-10 stops) that stopped at a multiplier below the root, so the output lies outside the ellipsoid "
    "(|v/mu| > r (1+1e-6)), and the exact slice optimum has a lower slice cost than the engine's rescaled output. "
    "Signature pgs-elliptic-stationary-point-is-not-the-optimum:<suffix> only if at least one block is confirmed and no non-optimal block is "
    "left unexplained (scalar rows are never explained); solver_niter is recorded because PGS with tolerance 0 can leave through "
    "'improvement < 0' long before its budget",
]

SOLVER = {"newton": "mjSOL_NEWTON", "cg": "mjSOL_CG", "pgs": "mjSOL_PGS"}
TOL_COST = 1e-9
TOL_X = 1e-7
TOL_PGS = 1e-4
CERT = 1e-12
# PGS fixed-point analysis (only executed for a PGS/elliptic run that mismatches the reference)
# a block is block-optimal when its EXACT block optimum lowers the dual cost by <= TOL_BLK_COST * cost scale (a whitened step of
# ~4e-7 of the problem scale; PGS itself is only required to be 1e-9-stationary).  Measured over quick seeds 0..4 (186 mismatching
# PGS/elliptic runs): blocks of converged contacts <= 1.4e-15, stalled blocks >= 7.3e-11 - nothing in between
TOL_BLK_COST = 1e-13
# 'the engine's own block update does not move the block': whitened move <= TOL_BLK_MOVE * (|f sqrt(R)| + x scale) (measured <= 7.3e-11, seeds 0..4)
TOL_BLK_MOVE = 1e-8


def set_flags(m, island, cold):
    fl = int(m.opt["disableflags"]) & ~int(E.mjDSBL_ISLAND) & ~int(E.mjDSBL_WARMSTART)
    if not island:
        fl |= int(E.mjDSBL_ISLAND)
    if cold:
        fl |= int(E.mjDSBL_WARMSTART)
    m.opt["disableflags"] = fl


def configure(m, cfg):
    m.opt["solver"] = getattr(E, SOLVER[cfg["solver"]])
    m.opt["jacobian"] = E.mjJAC_SPARSE if cfg["sparse"] else E.mjJAC_DENSE
    m.opt["iterations"] = int(cfg["iters"])
    m.opt["tolerance"] = 0.0
    m.opt["noslip_iterations"] = 0
    set_flags(m, cfg["island"], cfg["warm"] == "cold")


def cfg_name(cfg):
    return "%s:%s:%s:%s:it%d" % (cfg["solver"], "sparse" if cfg["sparse"] else "dense", "island" if cfg["island"] else "mono", cfg["warm"],
                                 cfg["iters"])


def run_forward(L, m, d, cfg, ws):
    configure(m, cfg)
    if ws is not None:
        d["qacc_warmstart"][:] = ws
    d.forward()
    nefc = d.s("nefc")
    af = d.arena_fields()
    return dict(iters=int(cfg["iters"]), a=np.array(d["qacc"]), f=np.array(d.arena("efc_force", af)[:nefc]), qc=np.array(d["qfrc_constraint"]),
                qs=np.array(d["qfrc_smooth"]), nefc=nefc, nisland=d.s("nisland"), niter=np.array(d.sv("solver_niter")).copy(),
                aref=np.array(d.arena("efc_aref", af)[:nefc]), R=np.array(d.arena("efc_R", af)[:nefc]),
                state=np.array(d.arena("efc_state", af)[:nefc]))


def cone_name(c):
    return "elliptic" if c.get("cone") else "pyramidal"


def worker(c):
    P = core.Part()
    L = drv.Lib("rel")
    L.clear_messages()
    try:
        m, d = cscenes.make(L, c)
    except drv.MjError as e:
        P.count("model_or_state_rejected")
        P.case(nontrivial=False)
        return P.result()
    name = "%s:%d:%d:%s" % (c["kind"], c["mseed"], c["sseed"], cone_name(c))
    cone = cone_name(c)
    rng = np.random.default_rng(c["cseed"])
    nv = m.n("nv")
    witness = {"model": name, "case": {k: v for k, v in c.items() if not k.startswith("_")}, "xml": c.get("_xml")}

    def viol(sig, **kw):
        det = dict(witness)
        det.update({k: (v.tolist() if isinstance(v, np.ndarray) else v) for k, v in kw.items()})
        P.violation(sig, det)

    if m.n("nflex"):
        P.count("skipped_flex")
        P.case(nontrivial=False)
        return P.result()
    ws_prev = np.array(d["qacc_warmstart"])
    # ---- baseline run and reference problem
    base_cfg = dict(solver="newton", sparse=False, island=False, warm="cold", iters=200)
    try:
        b = run_forward(L, m, d, base_cfg, None)
    except drv.MjError as e:
        P.count("engine_error_skipped")
        P.case(nontrivial=False)
        return P.result()
    if b["nefc"] == 0:
        P.count("skipped_no_constraints")
        P.case(nontrivial=False)
        return P.result()
    try:
        prob = cref.problem_from_data(L, m, d, E)
    except np.linalg.LinAlgError:
        P.count("skipped_singular_M")
        P.case(nontrivial=False)
        return P.result()
    rows = prob.rows
    if not all(np.isfinite(v).all() for v in (prob.M, prob.a_s, prob.J, prob.aref, rows.R, rows.eta, b["a"])):
        P.count("skipped_nonfinite_scene")
        P.case(nontrivial=False)
        return P.result()
    if rows.coupling_err > 1e-9:
        viol("elliptic-R-coupling-violated", err=rows.coupling_err)
        return P.result()
    try:
        r = prob.solve(rng)
    except (ValueError, np.linalg.LinAlgError):
        P.count("skipped_reference_optimiser_failed")
        P.case(nontrivial=False)
        return P.result()
    xs = prob.Lc.T @ prob.a_s
    scale_x = float(np.linalg.norm(r["x"]) + np.linalg.norm(xs)) + 1e-9 * float(np.sqrt(np.trace(prob.M)))
    scale_c = 0.5 * scale_x ** 2 + abs(r["cost_start"])
    P.count("scenes")
    P.count("scenes:" + cone)
    P.count("scenes:" + c["kind"])
    if not (r["dist"] <= 1e-7 * scale_x and abs(r["cost"] - r["cost2"]) <= 1e-10 * scale_c and r["gap"] <= 1e-14 * scale_c):
        P.count("skipped_reference_starts_disagree")
        P.case(nontrivial=False)
        return P.result()
    P.note_max("reference_two_start_distance_rel", r["dist"] / scale_x)
    P.note_max("reference_gap_rel", r["gap"] / scale_c)
    P.note_max("nv", nv)
    P.note_max("nefc", b["nefc"])
    for cls, nm in ((cref.QUAD, "equality"), (cref.HUBER, "frictionloss"), (cref.POS, "onesided"), (cref.CONE, "elliptic")):
        if (rows.kind == cls).any():
            P.count("scenes_with:" + nm)
    for a0, dim, mu in rows.cones:
        P.count("elliptic_contacts:dim%d" % dim)
    zref = prob.jar(r["a"])
    zn = rows.eval(zref, zones=True)[3]
    for z in np.unique(zn):
        P.count("reference_optimum_rows_in_zone:%d" % int(z), int((zn == z).sum()))

    class Ref:
        """the reference problem as seen by one engine run (the row set can differ between Jacobian modes: the dense
        constructor drops rows whose Jacobian is identically zero; such rows only add a constant to the objective)"""

        def __init__(self, prob):
            self.prob, self.rows = prob, prob.rows
            self.f_ref = self.rows.force(prob.jar(r["a"]))
            self.w = np.sqrt(self.rows.R)
            self.fw_ref = float(np.linalg.norm(self.f_ref * self.w))
            self.absJ = np.abs(prob.J)
            self.blocks = [np.array([i]) for i in range(self.rows.n) if self.rows.kind[i] != cref.CONE] + \
                          [np.arange(a0, a0 + dim) for a0, dim, _ in self.rows.cones]
            self.cost_ref = prob.cost(r["a"])
            self.cost_smooth = prob.cost(prob.a_s)

    ref0 = Ref(prob)

    def ref_for(o):
        """Ref for run o (d still holds that run's arrays) or None if the run really solves another problem"""
        if same_problem(o):
            return ref0
        try:
            p2 = cref.problem_from_data(L, m, d, E)
        except np.linalg.LinAlgError:
            return None
        if p2.gap_bound(r["a"]) <= 1e-13 * scale_c and np.allclose(p2.M, prob.M, rtol=1e-12, atol=0) and np.allclose(p2.a_s, prob.a_s, rtol=1e-9, atol=1e-12):
            P.count("runs_with_different_row_set_same_optimum")
            return Ref(p2)
        return None

    def same_problem(o):
        return o["nefc"] == b["nefc"] and np.allclose(o["aref"], b["aref"], rtol=1e-9, atol=1e-9 * (1 + np.abs(b["aref"]).max())) \
            and np.allclose(o["R"], b["R"], rtol=1e-12)

    def check_run(cfg, o, ws, converged_expected=True, ref=None):
        """compare one engine result with the reference. -> 'ok' | 'skip' | 'viol'"""
        ref = ref or ref0
        prob, rows, f_ref, w, fw_ref, absJ, blocks = ref.prob, ref.rows, ref.f_ref, ref.w, ref.fw_ref, ref.absJ, ref.blocks
        tag = "%s:%s:%s" % (cfg["solver"], cone, "island" if (cfg["island"] and o["nisland"] > 0) else "mono")
        a = o["a"]
        if not (np.isfinite(a).all() and np.isfinite(o["f"]).all()):
            viol("solver-returned-non-finite:" + tag, cfg=cfg)
            return "viol"
        x = prob.to_x(a)
        ce = prob.cost(a)
        # monotonicity (primal solvers)
        if cfg["solver"] != "pgs":
            c0 = ref.cost_smooth if cfg["warm"] == "cold" else min(ref.cost_smooth, prob.cost(ws))
            if not (ce <= c0 + 1e-9 * scale_c):
                viol("primal-solver-ends-above-its-starting-cost:%s:%s" % (tag, "cold" if cfg["warm"] == "cold" else "warmstart"), cfg=cfg,
                     cost_final=ce, cost_start_best=c0, cost_smooth=ref.cost_smooth, cost_warm=(None if ws is None else prob.cost(ws)),
                     niter=o["niter"][:4])
                return "viol"
        # primal solvers finish with a constraint update at the final qacc: efc_force = -grad s(J qacc - aref) and
        # qfrc_constraint = J'efc_force hold whether or not the iteration has converged
        if cfg["solver"] != "pgs":
            z = prob.jar(a)
            fa = rows.force(z)
            opnd = (absJ @ np.abs(a) + np.abs(prob.aref)) / w
            worst = 0.0
            for idx in blocks:
                t = 4e-9 * float(np.linalg.norm(opnd[idx])) + 1e-9 * (scale_x + float(np.linalg.norm(x)))
                e = float(np.linalg.norm((o["f"][idx] - fa[idx]) * w[idx]))
                worst = max(worst, e / t)
            P.note_max("force_vs_minus_grad_s_over_tol:" + cfg["solver"], worst)
            early = None
            if worst > 1:
                early = "efc_force-is-not-minus-grad-s-at-qacc"
            else:
                qr = prob.J.T @ o["f"]
                tq = 1e-9 * (absJ.T @ np.abs(o["f"])) + 1e-300
                if (np.abs(o["qc"] - qr) > tq).any():
                    early = "qfrc_constraint-is-not-JT-efc_force"
            if early:
                viol("%s:%s" % (early, tag), cfg=cfg, niter=o["niter"][:4], nisland=int(o["nisland"]), qacc_engine=a, worst_over_tol=worst)
                return "viol"
        if not converged_expected:
            return "ok"
        # engine-side convergence evidence
        cert = None
        mode = "pgs"
        if cfg["solver"] != "pgs":
            g = prob.M @ a - o["qs"] - o["qc"]
            wv = np.linalg.solve(prob.Lc, g)
            cert = 0.5 * float(wv @ wv)
            P.note_max("engine_certificate_rel:" + cfg["solver"], cert / scale_c)
            nrec = 1 if not (cfg["island"] and o["nisland"] > 0) else int(o["nisland"])
            self_term = nrec <= len(o["niter"]) and bool((o["niter"][:nrec] < cfg["iters"]).all())
            if cert <= CERT * scale_c:
                mode = "cert"
            elif self_term:
                # every (island) solve stopped before its budget: the line search found no further improvement
                mode = "selfterm"
                P.count("self_terminated_with_large_certificate:" + cfg["solver"])
            else:
                P.count("skipped_not_converged:" + cfg["solver"])
                return "skip"
        P.count("converged_runs:" + cfg["solver"])
        if mode == "pgs":
            tolx = TOL_PGS * scale_x
            tolc = TOL_PGS * scale_c
        elif mode == "cert":
            # doc (Warmstart): cost(a) - cost* <= 1/2 g'M^-1 g, and strong convexity gives 1/2|a - a*|^2_M <= cost(a) - cost*
            tolx = 2 * np.sqrt(2 * cert) + TOL_X * scale_x
            tolc = 2 * cert + TOL_COST * scale_c
        else:
            tolx = 1e-4 * float(np.sqrt(2 * scale_c))
            tolc = 1e-8 * scale_c
        o["tolx"] = tolx
        dx = float(np.linalg.norm(x - r["x"]))
        P.note_max("qacc_err_over_tol:" + cfg["solver"], dx / tolx)
        P.note_max("cost_excess_over_tol:" + cfg["solver"], (ce - ref.cost_ref) / tolc)
        bad = None
        if not (ce - ref.cost_ref <= tolc):
            bad = "objective-above-reference-optimum"
        elif not (dx <= tolx):
            bad = "qacc-differs-from-reference-optimum"
        if bad and mode == "selfterm":
            bad = "solver-stopped-by-itself-away-from-the-optimum"
        # forces
        z = prob.jar(a)
        if cfg["solver"] == "pgs":
            dfw = float(np.linalg.norm((o["f"] - f_ref) * w))
            P.note_max("force_err_rel:pgs", dfw / (fw_ref + scale_x))
            if bad is None and not (dfw <= TOL_PGS * (fw_ref + scale_x) * 10):
                bad = "efc_force-differs-from-reference-optimum"
        if bad is None:
            return "ok"
        sig = "%s:%s" % (bad, tag)
        extra = {}
        if cfg["solver"] == "pgs" and cone == "elliptic":
            # which blocks of the engine's final efc_force are not block-optimal, and is each of them a CONFIRMED fixed point of one
            # of the three known defects of the elliptic block update?  Anything else keeps the generic signature (a violation)
            try:
                known, extra = pgs_fixed_point_analysis(ref, o)
            except (np.linalg.LinAlgError, ValueError, RuntimeError, drv.MjError) as e:
                known, extra = None, dict(pgs_block_analysis_error=repr(e))
                P.count("pgs_block_analysis_failed")
            extra["symptoms_of_differing_contacts"] = legacy_symptoms(rows, o["f"], f_ref, w, fw_ref, z)
            if known:
                sig = "pgs-elliptic-stationary-point-is-not-the-optimum:" + known
                P.count("pgs_stall_confirmed:" + known)
            else:
                P.count("pgs_mismatch_unexplained")
        viol(sig, cfg=cfg, cost_engine=ce, cost_reference=ref.cost_ref, cost_scale=scale_c, qacc_err_Mnorm=dx, x_scale=scale_x,
             niter=o["niter"][:4], nisland=int(o["nisland"]), qacc_engine=a, qacc_reference=r["a"], **extra)
        return "viol"

    def engine_qcqp(Ac, bc, mu, rad):
        """counterfactual call of the engine's own slice solver on one block (the functions solveQCQP dispatches to)"""
        n = len(mu)
        out = np.zeros(n)
        Ac, bc, mu = (np.ascontiguousarray(v, dtype=np.float64) for v in (Ac, bc, mu))
        if n == 2:
            fl = L.call("mju_QCQP2", out, Ac, bc, mu, float(rad), ret="i32")
        elif n == 3:
            fl = L.call("mju_QCQP3", out, Ac, bc, mu, float(rad), ret="i32")
        else:
            fl = L.call("mju_QCQP", out, Ac, bc, mu, float(rad), int(n), ret="i32")
        return out, int(fl)

    def engine_AR(nefc):
        """efc_AR of the run that d currently holds, dense (nefc x nefc)"""
        af = d.arena_fields()
        vals = np.array(d.arena("efc_AR", af)).ravel()
        if L.call("mj_isSparse", m):
            nnz, adr, col = d.arena("efc_AR_rownnz", af), d.arena("efc_AR_rowadr", af), d.arena("efc_AR_colind", af)
            out = np.zeros((nefc, nefc))
            for i in range(nefc):
                a0, k = int(adr[i]), int(nnz[i])
                out[i, col[a0:a0 + k]] = vals[a0:a0 + k]
            return out
        return vals[:nefc * nefc].reshape(nefc, nefc).copy()

    def pgs_fixed_point_analysis(ref, o):
        """-> (suffix of the known finding or None, evidence).  d must still hold the PGS run o (only used for the efc_AR cross-check)"""
        prob, rows, w = ref.prob, ref.rows, ref.w
        f = o["f"]
        AR, bd = pgsblock.dual_problem(prob)                      # from M, J, R, a_s, aref: nothing of the solver's state
        try:
            ARe = engine_AR(len(f))
            P.note_max("pgs_AR_rebuilt_vs_engine_rel", float(np.abs(ARe - AR).max() / np.abs(AR).max()))
        except (KeyError, ValueError, IndexError):
            P.count("pgs_AR_crosscheck_unavailable")
        rep, g, S = pgsblock.block_report(AR, bd, rows, f)
        tol_cost = TOL_BLK_COST * scale_c
        tol_move = TOL_BLK_MOVE * (float(np.linalg.norm(f * w)) + scale_x)
        ev = dict(solver_niter=[int(v) for v in o["niter"][:max(1, min(int(o["nisland"]), 8))]], iterations_budget=int(cfg_iters(o)),
                  nblocks=len(rep), block_cost_tolerance=tol_cost, block_move_tolerance_w=tol_move)
        blocks, mech, unexplained = [], set(), 0
        opt_dec = opt_kkt = 0.0
        for rc in rep:
            if rc["decrease"] is not None and rc["decrease"] <= tol_cost:
                opt_dec, opt_kkt = max(opt_dec, rc["decrease"] / scale_c), max(opt_kkt, rc["kkt"])
                continue
            if rc["decrease"] is not None:
                P.note_max("pgs_nonoptimal_block_inverse_decrease_rel", scale_c / rc["decrease"])
            if rc["kind"] == "cone" and rc["decrease"] is not None:
                idx = rc["rows"]
                k, bev = pgsblock.classify_cone_block(rc, f[idx], w[idx], engine_qcqp, tol_cost, tol_move)
            else:
                k, bev = None, dict(rows=[int(rc["rows"][0]), int(rc["rows"][-1])], kind=rc["kind"], force=f[rc["rows"]].tolist(),
                                    residual=rc["res"].tolist(), block_cost_decrease=rc["decrease"], error=rc.get("error"))
            bev.update(mechanism=k, kkt_residual_rel=rc["kkt"], block_cost_decrease_rel=(None if rc["decrease"] is None else rc["decrease"] / scale_c))
            blocks.append(bev)
            if k:
                mech.add(k)
                P.count("pgs_confirmed_blocks:" + k)
                if "engine_update_move_w" in bev:
                    P.note_max("pgs_confirmed_block_engine_move_over_tol", bev["engine_update_move_w"] / tol_move)
            else:
                unexplained += 1
        P.note_max("pgs_optimal_block_decrease_rel", opt_dec)
        P.note_max("pgs_optimal_block_kkt_rel", opt_kkt)
        ev.update(non_optimal_blocks=blocks[:12], n_non_optimal_blocks=len(blocks), n_unexplained_blocks=unexplained,
                  max_decrease_rel_of_optimal_blocks=opt_dec, max_kkt_rel_of_optimal_blocks=opt_kkt)
        if not blocks:
            P.count("pgs_mismatch_with_all_blocks_optimal")
        if mech and not unexplained:
            return [k for k in pgsblock.PRIORITY if k in mech][0], ev
        return None, ev

    def cfg_iters(o):
        return o.get("iters", -1)

    def legacy_symptoms(rows, fe_all, f_ref, w, fw_ref, z):
        """SYMPTOMS only (never used for the verdict): where the contacts whose force differs from the reference sit.  'on-cone-surface'
        is the normal state of every sliding contact, so none of these says anything about the cause"""
        kinds = {}
        for a0, dim, mu in rows.cones:
            idx = np.arange(a0, a0 + dim)
            fe = fe_all[idx]
            if float(np.linalg.norm((fe - f_ref[idx]) * w[idx])) <= 1e-6 * (fw_ref + 1e-300):
                continue
            ft = float(np.sqrt(np.sum((fe[1:] / mu) ** 2)))
            if not fe.any():
                k = "apex" + ("-separating" if z[a0] >= 0 else "")
            elif fe[0] > 0 and not fe[1:].any():
                k = "zero-friction"
            elif fe[0] > 0 and abs(ft - fe[0]) <= 1e-6 * fe[0]:
                k = "on-cone-surface"
            else:
                k = "inside-cone" if ft < fe[0] else "outside-cone"
            kinds[k] = kinds.get(k, 0) + 1
        return kinds

    # ---- configurations
    warm_kinds = ["cold", "prev", "garbage", "optimum"]
    cfgs = [dict(base_cfg), dict(solver="cg", sparse=False, island=False, warm="cold", iters=2000)]
    combos = [(s, sp, isl, wk) for s in ("newton", "cg") for sp in (False, True) for isl in (False, True) for wk in warm_kinds]
    for k in rng.permutation(len(combos))[:c.get("ncfg", 8)]:
        s, sp, isl, wk = combos[int(k)]
        cfgs.append(dict(solver=s, sparse=sp, island=isl, warm=wk, iters=200 if s == "newton" else 2000))
    # the island twin of every islanded primal configuration is its monolithic run: make sure at least one pair exists
    pair_s = str(rng.choice(["newton", "cg"]))
    pair_sp = bool(rng.random() < 0.5)
    pair_w = str(rng.choice(warm_kinds))
    for isl in (False, True):
        cfgs.append(dict(solver=pair_s, sparse=pair_sp, island=isl, warm=pair_w, iters=200 if pair_s == "newton" else 2000, pair=True))
    results = {}
    garbage = rng.normal(size=nv) * float(rng.choice([1.0, 1e2, 1e4]))

    def ws_of(cfg):
        return {"cold": None, "prev": ws_prev, "garbage": garbage, "optimum": r["a"]}[cfg["warm"]]

    nviol = 0
    for cfg in cfgs:
        ws = ws_of(cfg)
        try:
            o = run_forward(L, m, d, cfg, ws)
        except drv.MjError as e:
            P.count("engine_error_skipped")
            d = m.make_data()
            continue
        rf = ref_for(o)
        if rf is None:
            P.count("skipped_problem_changed_with_options")
            continue
        st = check_run(cfg, o, ws, ref=rf)
        P.count("runs:%s" % cfg["solver"])
        if cfg["island"] and o["nisland"] > 0:
            P.count("runs_islanded:%s" % cfg["solver"])
            P.note_max("nisland", o["nisland"])
        if st == "viol":
            nviol += 1
            if nviol >= 3:
                break
        P.case(key="%s|%s" % (name, cfg_name(cfg)), nontrivial=(st != "skip"),
               sample={"model": name, "cfg": cfg_name(cfg), "nv": nv, "nefc": int(b["nefc"]), "nisland": int(o["nisland"])})
        if cfg.get("pair") and st == "ok":
            results[cfg["island"]] = (o, cfg)
    if len(results) == 2 and results[True][0]["nisland"] > 0:
        oi, om = results[True][0], results[False][0]
        dx = float(np.linalg.norm(prob.to_x(oi["a"]) - prob.to_x(om["a"])))
        P.note_max("island_vs_monolithic_qacc_rel", dx / scale_x)
        P.count("island_vs_monolithic_pairs")
        if not (dx <= oi["tolx"] + om["tolx"]):
            viol("island-solve-differs-from-monolithic:%s:%s" % (results[True][1]["solver"], cone), cfg=results[True][1], qacc_err_Mnorm=dx,
                 x_scale=scale_x)
    # ---- low iteration budgets: monotonicity from the documented starting point
    for it in (0, 1, 2, 5):
        cfg = dict(solver=str(rng.choice(["newton", "cg"])), sparse=bool(rng.random() < 0.5), island=bool(rng.random() < 0.5),
                   warm=str(rng.choice(["prev", "garbage", "cold", "garbage"])), iters=it)
        ws = ws_of(cfg)
        if cfg["warm"] == "garbage" and rng.random() < 0.5:
            # a warm start close to the break-even point: better than qacc_smooth in some scenes, worse in others
            ws = r["a"] + (prob.a_s - r["a"]) * float(rng.uniform(0.5, 1.5)) + rng.normal(size=nv) * 1e-2 * float(np.abs(prob.a_s - r["a"]).max())
        try:
            o = run_forward(L, m, d, cfg, ws)
        except drv.MjError as e:
            P.count("engine_error_skipped")
            d = m.make_data()
            continue
        rf = ref_for(o)
        if rf is None:
            continue
        st = check_run(cfg, o, ws, converged_expected=False, ref=rf)
        P.count("runs_low_budget")
        if cfg["warm"] != "cold":
            P.count("low_budget_warm_better" if rf.prob.cost(ws) < rf.cost_smooth else "low_budget_smooth_better")
        P.case(key="%s|%s" % (name, cfg_name(cfg)), sample=None)
        if st == "viol":
            break
    # ---- PGS: stationarity between 1000 and 2000 sweeps, then compare
    if nviol == 0:
        for isl in ((False, True) if rng.random() < 0.5 else (bool(rng.random() < 0.5),)):
            cfg = dict(solver="pgs", sparse=bool(rng.random() < 0.5), island=isl, warm=str(rng.choice(["cold", "prev", "garbage"])), iters=1000)
            ws = ws_of(cfg)
            try:
                o1 = run_forward(L, m, d, cfg, ws)
                cfg2 = dict(cfg, iters=2000)
                o2 = run_forward(L, m, d, cfg2, ws)
            except drv.MjError as e:
                P.count("engine_error_skipped")
                d = m.make_data()
                continue
            rf = ref_for(o2)
            if rf is None or o1["nefc"] != o2["nefc"]:
                continue
            P.count("runs:pgs")
            move = float(np.linalg.norm((o2["f"] - o1["f"]) * rf.w))
            if not (move <= 1e-9 * (float(np.linalg.norm(o2["f"] * rf.w)) + scale_x)):
                P.count("skipped_not_converged:pgs")
                P.case(key="%s|%s" % (name, cfg_name(cfg2)), nontrivial=False)
                continue
            st = check_run(cfg2, o2, ws, ref=rf)
            P.case(key="%s|%s" % (name, cfg_name(cfg2)), nontrivial=True,
                   sample={"model": name, "cfg": cfg_name(cfg2), "nv": nv, "nefc": int(b["nefc"]), "nisland": int(o2["nisland"])})
    try:
        d.free()
        m.free()
    except Exception:
        pass
    return P.result()


def cases(ctx):
    rng = ctx.rng
    n = ctx.pick(200, 1200)
    cs = []
    for i in range(n):
        kind = ["pile", "contact", "rich", "pile"][i % 4]
        cs.append(dict(kind=kind, mseed=int(rng.integers(0, 2 ** 31)), sseed=int(rng.integers(0, 2 ** 31)), cseed=int(rng.integers(0, 2 ** 31)),
                       steps=int([1, 3, 10, 30, 0][i % 5]), cone=int((i // 2) % 2), ncfg=8,
                       impratio=float(np.exp(rng.uniform(np.log(0.05), np.log(50)))) if i % 3 else 1.0, vel=float([0.3, 1.0, 3.0][i % 3])))
    return cs


def _collect(ctx, cs, res):
    for c, r in zip(cs, res):
        if r is None:
            ctx.inconclusive("worker returned nothing")
        elif "crash" in r:
            ctx.count("worker_crash")
            ctx.inconclusive("worker crashed on %s:%s: %s" % (c["kind"], c["mseed"], r["crash"][-300:]))
        elif "exception" in r:
            ctx.count("harness_exception")
            ctx.inconclusive("harness exception in worker: " + r["exception"] + " " + r.get("trace", "")[-600:])
        else:
            ctx.merge(r)


def run(ctx):
    build.ensure("rel")
    ctx.extra["reference_self_test"] = {k: float(v) for k, v in cref.self_test().items()}
    ctx.extra["pgs_block_solver_self_test"] = {k: float(v) for k, v in pgsblock.self_test().items()}
    cs = cases(ctx)
    nb = 4
    for k in range(nb):
        part = cs[k::nb]
        res = par.run("vf.props.c10", "worker", part, nproc=ctx.pick(8, 12), timeout=ctx.pick(400, 1200))
        _collect(ctx, part, res)
        if ctx.violations:
            ctx.count("batches_not_run_after_violation", nb - 1 - k)
            break
    cn = ctx.counters
    for s in ("newton", "cg", "pgs"):
        sk, tot = cn.get("skipped_not_converged:" + s, 0), cn.get("runs:" + s, 0)
        if tot and sk > (0.3 if s == "pgs" else 0.1) * tot:
            ctx.inconclusive("%s did not converge in %d of %d runs" % (s, sk, tot))
    if cn.get("skipped_reference_starts_disagree", 0) > 0.05 * max(1, cn.get("scenes", 0)):
        ctx.inconclusive("reference optimiser starts disagree too often (%d)" % cn.get("skipped_reference_starts_disagree", 0))
    if cn.get("island_vs_monolithic_pairs", 0) < ctx.pick(20, 200) and not ctx.violations:
        ctx.inconclusive("too few island/monolithic pairs")
    ctx.min_nontrivial = ctx.pick(1500, 12000)


def replay(ctx, path):
    rec = json.load(open(path))
    c = rec["detail"]["case"]
    if rec["detail"].get("xml"):
        c["xml"] = rec["detail"]["xml"]
    ctx.merge(worker(c))
    ctx.min_nontrivial = 1
