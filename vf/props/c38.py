"""C38 The asset cache behaves as a bounded priority cache."""
import json
import re

from .. import build, nat

LEVEL = "exploration"
RULE = ("seeded operation histories (<=30 ops: Insert / PopulateData / HasAsset / DeleteAsset / RemoveModel / Reset(model) / "
        "Reset() / SetCapacity up and down; 3 models x 6 asset ids x sizes {0,1,cap/3,cap/2,cap,cap+1,..} x 3 timestamps; "
        "capacities 0..1000; every 5th history through the public mj_getCache/mj_setCacheCapacity/mj_getCacheSize/"
        "mj_clearCache wrappers on the global cache) drive the real mjCCache and a ~40-line sequential reference model; "
        "after EVERY operation Size/Capacity/HasAsset/PopulateData results, the inserted payload identity (unique id per "
        "insert), and the private containers lookup_/entries_/models_ (read through an access-specifier override in the "
        "harness TU only) are compared with the reference, under rel, ASan+UBSan and TSan builds; concurrent histories "
        "(2-8 real threads, 1-4 ids, pre-generated per-thread op lists): 'lin' = Insert/PopulateData/DeleteAsset/HasAsset "
        "with ample capacity, checked per key for linearizability (Wing-Gong search against the register specification, "
        "real-time order from unsynchronised steady-clock stamps) plus structural invariants at quiescence; 'mix' = all "
        "operations with tight capacity, every hit must return data supplied by an insert for that id and timestamp, "
        "Size() never exceeds the capacity, structural invariants and payload accounting at quiescence; TSan/ASan must stay "
        "silent. distinct = (mode, flavour, args) batches that contained non-trivial histories (refusals, evictions with "
        "survivors, shared-asset survival; overlapping operations for concurrent batches)")
ASSUMPTIONS = [
    "insertion is refused rather than evicting when the asset does not fit (user_cache.cc: 'check if asset is too large to fit in the cache'; tests Limit3/Limit4)",
    "Insert of a held asset with an unchanged timestamp leaves data and size unchanged (user_cache.h: 'its data is updated only if the timestamps disagree'); "
    "its return value when the (unused) new size would not fit is undocumented: either answer is accepted and the reference follows it",
    "Reset(model) deletes assets shared with other models too (user_cache.h: 'Wipes out all assets from the cache for the given model'); "
    "RemoveModel deletes only assets referenced by no other model ('assets only referenced by the model will be deleted')",
    "eviction happens only in SetCapacity, lowest (access count, insertion number) first (mjCAssetCompare; user_cache.h 'low-priority cached assets will be dropped')",
    "the pointer returned by HasAsset is only tested for null in concurrent histories, as every in-tree caller does; the harness never dereferences it after the lock is released "
    "(that would be a harness-induced race on an API hazard no clause of the statement covers; see "
    "findings/C38-hasasset-timestamp-pointer-escapes-lock.md, kept as a design note, not a finding)",
    "TSan observes only the interleavings that occur; x86-64 hides weak-memory reorderings; linearizability searches exceeding 400k nodes are counted inconclusive",
]


def _summary(out):
    m = re.search(r"SUMMARY (.*)", out)
    if not m:
        return None
    return dict(kv.split("=", 1) for kv in m.group(1).split())


def _jobs(ctx):
    s = ctx.seed * 1000003
    jobs = []
    nrel, hrel = ctx.pick((8, 2500), (16, 62500))
    for i in range(nrel):
        jobs.append(("rel", ["seq", s + i, hrel, 30]))
    nas, has = ctx.pick((4, 500), (8, 6000))
    for i in range(nas):
        jobs.append(("asan", ["seq", s + 100 + i, has, 30]))
    jobs.append(("tsan", ["seq", s + 200, ctx.pick(300, 3000), 30]))
    rng = ctx.rng
    nconc, hconc = ctx.pick((20, 25), (100, 60))
    for i in range(nconc):
        nt = int(rng.integers(2, 9))
        nids = int(rng.integers(1, 5))
        mode = "lin" if i % 2 == 0 else "mix"
        if mode == "lin":
            ops = max(3, min(30, (38 * nids) // nt))
        else:
            ops = int(rng.choice([10, 20, 40]))
        jobs.append(("tsan", ["conc", s + 1000 + i, hconc, nt, nids, ops, mode, 0]))
    nca, hca = ctx.pick((6, 25), (24, 60))
    for i in range(nca):
        nt = int(rng.integers(2, 9))
        nids = int(rng.integers(1, 5))
        mode = "lin" if i % 2 == 0 else "mix"
        ops = max(3, min(30, (38 * nids) // nt)) if mode == "lin" else 25
        jobs.append(("asan" if i % 3 else "rel", ["conc", s + 5000 + i, hca * (1 if i % 3 else 4), nt, nids, ops, mode, 0]))
    return jobs


def _evaluate(ctx, fl, args, res):
    mode = args[0] if args[0] == "seq" else "conc-" + str(args[6])
    detail = {"flavour": fl, "args": [str(a) for a in args]}
    key = "%s|%s" % (fl, ",".join(str(a) for a in args))
    if res["timed_out"]:
        ctx.violation("hang:" + mode, dict(detail, note="batch did not finish (possible deadlock)"))
        return
    for kind, sig, text in res["reports"]:
        ctx.count("sanitizer_reports")
        tag = "data-race" if "ThreadSanitizer" in kind else "sanitizer"
        ctx.violation("%s:%s" % (tag, sig), dict(detail, report=text))
    fails = [l for l in res["out"].splitlines() if l.startswith("FAIL ")]
    seen = set()
    for f in fails:
        tag = f[5:].split(":")[0].strip()
        if tag in seen:
            continue
        seen.add(tag)
        ctx.violation("cache:%s:%s" % (mode, tag), dict(detail, witness=f, output=res["out"][-3000:]))
    s = _summary(res["out"])
    if s is None:
        if not res["reports"]:
            ctx.violation("crash:" + mode, dict(detail, rc=res["rc"], stderr=res["err"][-1500:]))
        return
    n = int(s["histories"])
    if args[0] == "seq":
        nontriv = int(s["nontrivial"]) > 0
        for k in ("ops", "inserts", "refused", "replaced", "same_timestamp", "unspecified_return", "hits", "misses_modified", "evictions",
                  "removemodel_survivors", "removemodel_deleted", "resetmodel_shared", "filled_exactly", "global_cache_histories"):
            ctx.count("seq_" + k, int(s[k]))
        ctx.count("seq_histories_" + fl, n)
        ctx.count("seq_histories_nontrivial", int(s["nontrivial"]))
    else:
        sub = str(args[6])
        if sub == "lin":
            nontriv = int(s["overlapping_pairs"]) > 0 and int(s["keys_linearized"]) > 0
            ctx.count("lin_keys_checked", int(s["keys_linearized"]))
            ctx.count("lin_search_nodes", int(s["search_nodes"]))
            ctx.count("lin_search_budget_exceeded", int(s["search_budget_exceeded"]))
            ctx.count("lin_overlapping_op_pairs", int(s["overlapping_pairs"]))
            ctx.note_max("max:lin_ops_per_key", int(s["max_ops_per_key"]))
        else:
            nontriv = int(s["hits"]) > 0
            ctx.count("mix_refused_inserts", int(s["refused"]))
        ctx.count("conc_ops", int(s["ops"]))
        ctx.count("conc_hits", int(s["hits"]))
        ctx.count("conc_histories_%s_%s" % (sub, fl), n)
    ctx.case(key, nontrivial=nontriv, sample=dict(detail, summary=s), n=n)


def run(ctx):
    jobs = _jobs(ctx)
    flavours = sorted(set(fl for fl, _ in jobs))
    exes = {f: build.exe(f, "h_cache", ["h_cache.cc"]) for f in flavours}
    st = nat.run_exe(exes["rel"], ["selftest"], "rel", timeout=60)
    if st["rc"] != 0:
        ctx.inconclusive("linearizability checker self-test failed: " + st["out"][-200:])
        return

    def go(j):
        fl, args = j
        return j, nat.run_exe(exes[fl], args, fl, timeout=ctx.pick(600, 1500))

    for (fl, args), res in nat.pmap(go, jobs, nthreads=8):
        _evaluate(ctx, fl, args, res)
    if ctx.counters.get("lin_search_budget_exceeded", 0) > 0.05 * max(1, ctx.counters.get("lin_keys_checked", 0)):
        ctx.inconclusive("linearizability search budget exceeded on more than 5% of the keys")
    ctx.min_nontrivial = int(0.8 * len(jobs))


def replay(ctx, path):
    rec = json.load(open(path))
    d = rec["detail"]
    exe = build.exe(d["flavour"], "h_cache", ["h_cache.cc"])
    if d["args"][0] == "conc" and len(d["args"]) > 7 and int(d["args"][7]) == 1:
        # old "deref" record: the harness itself reads HasAsset's result after the lock is released (harness-induced race)
        ctx.count("out_of_scope:harness_deref_batch_not_replayed")
        ctx.min_nontrivial = 0
        return
    reps = 1 if d["args"][0] == "seq" else 20
    for rep in range(reps):
        res = nat.run_exe(exe, d["args"], d["flavour"], timeout=1500)
        _evaluate(ctx, d["flavour"], d["args"], res)
    ctx.min_nontrivial = 0
