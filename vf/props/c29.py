"""C29 Passive forces follow their physical laws."""
import json
import xml.etree.ElementTree as ET

import numpy as np

from .. import build, core, drv, par
from ..gen import model
from ..mjconst import E
from ..ref import passive as rp
from ..ref import rbd
from .c06 import make_tree, random_qpos

LEVEL = "exploration"
RULE = ("reference-model oracle: generated kinematic trees with joint springs on every joint type (polynomial coefficients on "
        "hinge/slide), springref, tendon springs with single springlength / dead-band / automatic rest length, polynomial joint, "
        "tendon and actuator-contributed damping, gravcomp in {0.3, 1, 2} with and without actuatorgravcomp x random states x "
        "spring/damper/gravity disable flags; qfrc_spring, qfrc_damper, qfrc_gravcomp and qfrc_passive are compared with "
        "vf/ref/passive.py + vf/ref/rbd.py; qfrc_spring is also compared with minus the finite-difference gradient of the reported "
        "potential energy (gravity off); damping power must be non-positive; the spring-reference configuration at rest must "
        "have zero passive force. distinct = (model, state index); non-trivial = some reference passive force is non-zero")
ASSUMPTIONS = [
    "polynomial stiffness / damping are checked where the documentation defines them: scalar displacement / velocity of hinge and "
    "slide joints and of tendons (doc computation 'Polynomial forces'); ball and free joints get linear coefficients only, with the "
    "displacement taken as the rotation vector from springref in the joint frame (gradient of 0.5 k |log|^2) and the Cartesian offset",
    "generated coefficients satisfy the documented sign-preservation conditions, so the 'never add energy' clause applies",
    "actuator damping (doc actuator/general/damping: added to the transmission target scaled by gear^2) is generated on hinge/slide "
    "joint and tendon transmissions only",
    "ten_length / ten_J are taken from the engine (C07's subject); tendon_lengthspring and the coefficient arrays are model constants",
    "no fluid (density = viscosity = 0), no contacts, no flex, sleeping disabled: qfrc_passive = spring + damper + gravcomp of joints "
    "without actuatorgravcomp (doc joint/actuatorgravcomp)",
    "with spring and damper both disabled all passive forces including gravity compensation vanish (doc option/flag/spring)",
    "tolerance 1e-9 relative to the magnitude of the summed terms; gradient clause 1e-5 relative (central differences, eps 1e-6), "
    "states closer than 1e-4 to a dead-band edge are skipped for the gradient clause",
]
RTOL = 1e-9


def f(x):
    return model.f(x)


def sp_coef(rng, lo, hi, odd):
    """(a, b, c) satisfying the documented sign-preservation condition"""
    a = float(np.exp(rng.uniform(np.log(lo), np.log(hi))))
    r = rng.random()
    if r < 0.35:
        return [a]
    c = float(np.exp(rng.uniform(np.log(lo), np.log(hi)))) * rng.choice([0.1, 1.0, 5.0])
    bmax = 2 * np.sqrt(a * c)
    b = float(rng.uniform(-0.95, 0.95) * bmax) if (not odd or rng.random() < 0.5) else float(rng.uniform(0, 3) * bmax)
    if r < 0.5:
        return [a, 0.0, c]
    return [a, b, c]


def decorate(xml, rng, c):
    root = ET.fromstring(xml)
    wb = root.find("worldbody")
    jt = {}
    for b in wb.iter("body"):
        if rng.random() < c.get("pgravcomp", 0.4):
            b.set("gravcomp", f([0.3, 1.0, 2.0][int(rng.integers(0, 3))]))
        for j in b.findall("joint"):
            t = j.get("type", "hinge")
            jt[j.get("name")] = t
            if t in ("hinge", "slide"):
                if rng.random() < 0.6:
                    j.set("stiffness", f(sp_coef(rng, 0.1, 50, False)))
                    if rng.random() < 0.6:
                        j.set("springref", f(rng.uniform(-40, 40) if t == "hinge" else rng.uniform(-0.2, 0.2)))
                if rng.random() < 0.6:
                    j.set("damping", f(sp_coef(rng, 0.01, 5, True)))
                if rng.random() < 0.3:
                    j.set("actuatorgravcomp", "true")
            else:
                if rng.random() < 0.6:
                    j.set("stiffness", f(float(np.exp(rng.uniform(np.log(0.1), np.log(50))))))
                if rng.random() < 0.6:
                    j.set("damping", f(float(np.exp(rng.uniform(np.log(0.01), np.log(5))))))
                if t == "ball" and rng.random() < 0.3:
                    j.set("actuatorgravcomp", "true")
    T = root.find("tendon")
    auto = []
    if T is not None:
        for t in T:
            if rng.random() < 0.7:
                t.set("stiffness", f(sp_coef(rng, 0.5, 50, False)))
                r = rng.random()
                t.attrib.pop("springlength", None)
                if r < 0.3:
                    l0 = rng.uniform(0, 0.6)
                    t.set("springlength", f(l0))
                elif r < 0.7:
                    l0 = rng.uniform(-0.2 if t.tag == "fixed" else 0, 0.5)
                    t.set("springlength", f([l0, l0 + rng.uniform(0, 0.6)]))
            if rng.random() < 0.6:
                t.set("damping", f(sp_coef(rng, 0.01, 3, True)))
    A = root.find("actuator")
    if A is not None:
        for a in A:
            tgt = a.get("joint") or a.get("jointinparent")
            if ((tgt and jt.get(tgt) in ("hinge", "slide")) or a.get("tendon")) and a.tag != "adhesion" and rng.random() < 0.5:
                a.set("damping", f(sp_coef(rng, 0.01, 2, True)))
    return ET.tostring(root, encoding="unicode")


def gen_case_xml(c):
    rng = np.random.default_rng(c["mseed"])
    over = dict(nbody=tuple(c.get("nbody", (2, 9))), ntree=(1, 3), actuators=0.6, tendons=3, sites=0.9, equalities=0, sensors=0,
                free=c.get("pfree", 0.5), ball=c.get("pball", 0.3), slide=0.2, tendon_wrap=0.2, mocap=0.2, springs=0.0, damping=0.0,
                tendon_spring=0.0, tendon_damping=0.0, gravcomp=0.0, actgravcomp=0.0, act_kinds=["motor", "position", "velocity", "general"])
    xml, tags = model.gen_profile(rng, "smooth", **over)
    return decorate(xml, rng, c)


class Info:
    def __init__(self, m):
        g = lambda k: np.array(m[k])
        self.nv, self.njnt, self.ntendon, self.nbody, self.nactuator = m.n("nv"), m.n("njnt"), m.n("ntendon"), m.n("nbody"), m.n("nactuator")
        np_ = E.mjNPOLY
        assert np_ == 2
        self.jnt_stiff = np.concatenate([g("jnt_stiffness").reshape(-1, 1), g("jnt_stiffnesspoly").reshape(-1, np_)], axis=1) if self.njnt else np.zeros((0, 3))
        self.dof_damp = np.concatenate([g("dof_damping").reshape(-1, 1), g("dof_dampingpoly").reshape(-1, np_)], axis=1)
        if self.ntendon:
            self.ten_stiff = np.concatenate([g("tendon_stiffness").reshape(-1, 1), g("tendon_stiffnesspoly").reshape(-1, np_)], axis=1)
            self.ten_damp = np.concatenate([g("tendon_damping").reshape(-1, 1), g("tendon_dampingpoly").reshape(-1, np_)], axis=1)
            self.lengthspring = g("tendon_lengthspring").reshape(-1, 2)
            self.tJ = (g("ten_J_rownnz"), g("ten_J_rowadr"), g("ten_J_colind"))
        else:
            self.ten_stiff = self.ten_damp = np.zeros((0, 3))
            self.lengthspring = np.zeros((0, 2))
        self.qpos_spring = g("qpos_spring")
        self.body_gravcomp = g("body_gravcomp")
        self.jnt_actgravcomp = g("jnt_actgravcomp")
        self.jnt_type, self.jnt_dofadr, self.dof_jntid = g("jnt_type"), g("jnt_dofadr"), g("dof_jntid")
        # actuator damping reflected onto the transmission target: gear^2 scaling, summed over actuators
        if self.nactuator:
            ad = np.concatenate([g("actuator_damping").reshape(-1, 1), g("actuator_dampingpoly").reshape(-1, np_)], axis=1)
            gear = g("actuator_gear").reshape(-1, 6)
            oadr, tt, tid = g("actuator_outadr"), g("actuator_trntype"), g("actuator_trnid").reshape(-1, 2)
            for i in range(self.nactuator):
                if not ad[i].any():
                    continue
                g2 = gear[oadr[i], 0] ** 2
                if tt[i] in (E.mjTRN_JOINT, E.mjTRN_JOINTINPARENT):
                    self.dof_damp[self.dof_jntid == tid[i, 0]] += ad[i] * g2
                elif tt[i] == E.mjTRN_TENDON:
                    self.ten_damp[tid[i, 0]] += ad[i] * g2

    def tenJ(self, d):
        J = np.zeros((self.ntendon, self.nv))
        if self.ntendon:
            nnz, adr, col = self.tJ
            tj = np.array(d["ten_J"]).ravel()
            for t in range(self.ntendon):
                J[t, col[adr[t]:adr[t] + nnz[t]]] = tj[adr[t]:adr[t] + nnz[t]]
        return J


def check_state(L, m, d, d2, I, T, P, witness, grav, do_fd, at_rest):
    viol = lambda sig, **kw: P.violation(sig, dict(witness, **{k: (v.tolist() if isinstance(v, np.ndarray) else (float(v) if isinstance(v, np.floating) else v)) for k, v in kw.items()}))
    nv = I.nv
    dis = int(m.opt["disableflags"])
    sp_on, dm_on, gr_on = not dis & E.mjDSBL_SPRING, not dis & E.mjDSBL_DAMPER, not dis & E.mjDSBL_GRAVITY
    qpos, qvel = np.array(d["qpos"]), np.array(d["qvel"])
    K = T.fk(qpos, d["mocap_pos"] if m.n("nmocap") else None, d["mocap_quat"] if m.n("nmocap") else None)
    tl = np.array(d["ten_length"]) if I.ntendon else np.zeros(0)
    tJ = I.tenJ(d)
    jtn = ["free", "ball", "slide", "hinge"]
    fs, fd_, fg, fp = (np.array(d[k]) for k in ("qfrc_spring", "qfrc_damper", "qfrc_gravcomp", "qfrc_passive"))
    # ---- reference
    js, _ = rp.joint_spring(T, qpos, I.qpos_spring, I.jnt_stiff)
    ts, _, tfrc = rp.tendon_spring(tl, tJ, I.ten_stiff, I.lengthspring)
    jd = rp.dof_damper(qvel, I.dof_damp)
    td, tdf = rp.tendon_damper(tJ, qvel, I.ten_damp)
    gc, per = rp.gravcomp(T, K, grav, I.body_gravcomp)
    all_off = not sp_on and not dm_on
    rs = (js + ts) if sp_on else np.zeros(nv)
    rd = (jd + td) if dm_on else np.zeros(nv)
    rg = gc if (gr_on and not all_off) else np.zeros(nv)
    sc_s = (np.abs(js) + np.abs(tJ).T @ np.abs(tfrc)) + 1e-9
    # rounding floor: the force of each spring at unit displacement (unit quaternions are normalised to 1 ulp)
    sc_s = sc_s + 1e-4 * (np.abs(I.jnt_stiff).sum(axis=1)[I.dof_jntid] + (np.abs(tJ).T @ np.abs(I.ten_stiff).sum(axis=1) if I.ntendon else 0))
    sc_d = (np.abs(jd) + np.abs(tJ).T @ np.abs(tdf)) + 1e-9
    sc_g = sum((np.abs(v) for v in per.values()), np.zeros(nv)) + 1e-9
    tag = "" if not all_off else ":spring-and-damper-disabled"

    def cmp(name, eng, ref, sc, what):
        e = np.abs(eng - ref)
        P.note_max("relerr_" + name, (e / sc).max() if nv else 0)
        if not np.isfinite(eng).all() or (e > RTOL * 10 * sc).any():
            k = int(np.nanargmax(e / sc))
            j = int(I.dof_jntid[k])
            viol("%s-differs-from-reference:%s" % (name, what(k, j)), dof=k, joint_type=jtn[int(I.jnt_type[j])], engine=eng[k], ref=ref[k],
                 spring_enabled=bool(sp_on), damper_enabled=bool(dm_on), gravity_enabled=bool(gr_on))
            return False
        return True

    def what_spring(k, j):
        if not sp_on:
            return "spring-disabled"
        jpart, tpart = abs(fs[k] - js[k] - ts[k]), 0
        on_j, on_t = js[k] != 0 or I.jnt_stiff[j].any(), ts[k] != 0
        src = ("joint-" + jtn[int(I.jnt_type[j])] if on_j else "") + ("+tendon" if on_t else "")
        return src or "no-spring-on-dof"

    def what_damper(k, j):
        if not dm_on:
            return "damper-disabled"
        return ("dof-" + jtn[int(I.jnt_type[j])] if I.dof_damp[k].any() else "") + ("+tendon" if td[k] != 0 else "") or "no-damper-on-dof"

    cmp("qfrc_spring", fs, rs, sc_s, what_spring)
    cmp("qfrc_damper", fd_, rd, sc_d, what_damper)
    cmp("qfrc_gravcomp", fg, rg, sc_g, lambda k, j: ("gravity-disabled" if not gr_on else "all-passive-disabled" if all_off else "body-com-force"))
    # total
    tot = rs + rd
    sc_t = sc_s + sc_d
    for k in range(nv):
        if not I.jnt_actgravcomp[I.dof_jntid[k]]:
            tot[k] += rg[k]
            sc_t[k] += sc_g[k]
    cmp("qfrc_passive", fp, tot, sc_t, lambda k, j: "sum-of-spring-damper-gravcomp" + (":actuatorgravcomp-joint" if I.jnt_actgravcomp[j] else "") + tag)
    if rg.any():
        P.count("states_with_gravcomp_force")
    if any(I.jnt_actgravcomp[I.dof_jntid[k]] and rg[k] != 0 for k in range(nv)):
        P.count("states_with_actuatorgravcomp_dofs")
    # ---- damping never adds energy
    pw = float(qvel @ fd_)
    pw_sc = float(np.abs(qvel) @ np.abs(fd_)) + 1e-12
    if dm_on and pw > 1e-9 * pw_sc:
        viol("damping-adds-energy", power=pw, scale=pw_sc)
    # per tendon / per dof dissipation of the reference decomposition (sign of each damper)
    if dm_on and rd.any():
        P.count("states_with_damping")
    # ---- spring force = -gradient of the reported potential (gravity off)
    if do_fd and sp_on and nv <= 60 and (I.jnt_stiff.any() or I.ten_stiff.any()):
        near_edge = False
        for t in range(I.ntendon):
            if I.ten_stiff[t].any() and min(abs(tl[t] - I.lengthspring[t, 0]), abs(tl[t] - I.lengthspring[t, 1])) < 1e-4 and I.lengthspring[t, 0] != I.lengthspring[t, 1]:
                near_edge = True
        if near_edge:
            P.count("skipped_gradient_clause_near_deadband_edge")
        else:
            save = int(m.opt["disableflags"])
            m.opt["disableflags"] = save | int(E.mjDSBL_GRAVITY)
            eps = 1e-6
            G = np.zeros(nv)
            Emax = 0.0
            for k in range(nv):
                es = []
                for s in (+1, -1):
                    q2 = qpos.copy()
                    e = np.zeros(nv)
                    e[k] = 1
                    L.call("mj_integratePos", m, q2, e, float(s * eps), ret=None)
                    d2["qpos"][:] = q2
                    if m.n("nmocap"):
                        d2["mocap_pos"][:] = d["mocap_pos"]
                        d2["mocap_quat"][:] = d["mocap_quat"]
                    L.call("mj_fwdPosition", m, d2, ret=None)
                    L.call("mj_energyPos", m, d2, ret=None)
                    es.append(float(d2["energy"][0]))
                    Emax = max(Emax, abs(es[-1]))
                G[k] = -(es[0] - es[1]) / (2 * eps)
            m.opt["disableflags"] = save
            e = np.abs(G - fs)
            sc = sc_s + 1e-6
            P.note_max("relerr_spring_vs_energy_gradient", (e / sc).max())
            P.count("gradient_clause_states")
            # rounding of the energy differences: |E| * ulp / eps
            fd_noise = 1e-7 + 50 * 2.2e-16 * Emax / eps
            if (e > 1e-5 * sc + fd_noise).any():
                k = int(np.argmax(e / sc))
                j = int(I.dof_jntid[k])
                viol("qfrc_spring-is-not-minus-gradient-of-potential-energy:" + what_spring(k, j), dof=k, engine=fs[k], minus_dE=G[k])
    # ---- rest at the spring reference
    if at_rest:
        inside = all((not I.ten_stiff[t].any()) or rp.deadband(tl[t], *I.lengthspring[t]) == 0 or
                     abs(rp.deadband(tl[t], *I.lengthspring[t])) < 1e-12 for t in range(I.ntendon))
        if not inside:
            P.count("rest_states_with_tendon_outside_its_spring_length")
        else:
            P.count("rest_clause_states")
            sc = np.abs(I.jnt_stiff).sum() + np.abs(I.ten_stiff).sum() + 1
            lim = 1e-12 * sc
            extra = np.zeros(nv)
            for k in range(nv):
                if not I.jnt_actgravcomp[I.dof_jntid[k]]:
                    extra[k] = rg[k]
            if np.abs(fp - extra).max() > lim:
                k = int(np.argmax(np.abs(fp - extra)))
                viol("nonzero-passive-force-at-rest-with-springs-at-reference:joint-" + jtn[int(I.jnt_type[I.dof_jntid[k]])], dof=k, qfrc_passive=fp[k],
                     gravcomp_part=extra[k])
    return bool(rs.any() or rd.any() or rg.any())


def worker(c):
    P = core.Part()
    L = drv.Lib(c.get("flavour", "rel"))
    xml = c.get("xml") or gen_case_xml(c)
    name = "gen:%d" % c["mseed"]
    try:
        m = L.load_xml_string(xml)
    except drv.MjError as e:
        P.count("model_rejected")
        P.count("model_rejected:" + str(e).split("\n")[0][:50])
        return P.result()
    if m.n("nv") == 0:
        P.count("skipped_nv0")
        P.case(nontrivial=False)
        return P.result()
    I = Info(m)
    rng = np.random.default_rng(c["seed"])
    m.opt["enableflags"] = int(m.opt["enableflags"]) & ~int(E.mjENBL_SLEEP)
    if rng.random() < 0.6:
        m.opt["gravity"][:] = rng.normal(size=3) * 6
    grav0 = np.array(m.opt["gravity"])
    T = make_tree(m)
    d, d2 = m.make_data(), m.make_data()
    P.count("models")
    jtn = ["free", "ball", "slide", "hinge"]
    for j in range(I.njnt):
        if I.jnt_stiff[j].any():
            P.count("joint_springs:" + jtn[int(I.jnt_type[j])] + (":poly" if I.jnt_stiff[j, 1:].any() else ""))
    for t in range(I.ntendon):
        if I.ten_stiff[t].any():
            P.count("tendon_springs" + (":deadband" if I.lengthspring[t, 0] != I.lengthspring[t, 1] else ""))
        if I.ten_damp[t].any():
            P.count("tendon_dampers" + (":poly" if I.ten_damp[t, 1:].any() else ""))
    P.count("dofs_with_damping", int(I.dof_damp.any(axis=1).sum()))
    P.count("bodies_with_gravcomp", int((I.body_gravcomp != 0).sum()))
    witness0 = {"model": name, "xml": xml, "case": {k: v for k, v in c.items() if k != "xml"}}
    only = c.get("only_state")
    base_dis = int(m.opt["disableflags"]) & ~(int(E.mjDSBL_SPRING) | int(E.mjDSBL_DAMPER) | int(E.mjDSBL_GRAVITY))
    for k in range(c["nstate"]):
        sseed = int(rng.integers(0, 2 ** 31))
        if only is not None and k != only:
            continue
        r = np.random.default_rng(sseed)
        at_rest = (k == c["nstate"] - 1)
        try:
            d.reset()
            dis = base_dis
            if at_rest:
                d["qpos"][:] = I.qpos_spring
                if r.random() < 0.5:
                    dis |= int(E.mjDSBL_GRAVITY)
            else:
                d["qpos"][:] = random_qpos(r, m, T, spread=1.0)
                d["qvel"][:] = r.normal(size=I.nv) * r.choice([0.3, 3.0])
                x = r.random()
                if x < 0.12:
                    dis |= int(E.mjDSBL_SPRING)
                elif x < 0.24:
                    dis |= int(E.mjDSBL_DAMPER)
                elif x < 0.32:
                    dis |= int(E.mjDSBL_SPRING) | int(E.mjDSBL_DAMPER)
                if r.random() < 0.12:
                    dis |= int(E.mjDSBL_GRAVITY)
            if m.n("nmocap"):
                nm = m.n("nmocap")
                d["mocap_pos"][:] = np.array(d["mocap_pos"]) + r.normal(size=(nm, 3)) * 0.3
            m.opt["disableflags"] = dis
            grav = grav0 if not dis & E.mjDSBL_GRAVITY else np.zeros(3)
            d.forward()
            nontriv = check_state(L, m, d, d2, I, T, P, dict(witness0, state=k), grav, do_fd=(k == 0), at_rest=at_rest)
        except drv.MjError as e:
            P.count("engine_error_skipped")
            P.case(nontrivial=False)
            d, d2 = m.make_data(), m.make_data()
            continue
        P.count("states")
        P.case(key="%s|%d" % (name, k), nontrivial=bool(nontriv), sample={"model": name, "nv": I.nv, "state": k})
    d.free()
    d2.free()
    m.free()
    return P.result()


def cases(ctx):
    cs = []
    rng = ctx.rng
    for i in range(ctx.pick(140, 2000)):
        cs.append({"mseed": int(rng.integers(0, 2 ** 31)), "seed": int(rng.integers(0, 2 ** 31)), "nstate": ctx.pick(4, 5),
                   "pball": [0.15, 0.3, 0.5][i % 3], "pfree": [0.3, 0.6, 0.9][(i // 3) % 3], "nbody": [(1, 5), (3, 10), (6, 14)][(i // 2) % 3],
                   "pgravcomp": [0.2, 0.5, 0.9][(i // 4) % 3]})
    return cs


def run(ctx):
    build.ensure("rel")
    ctx.extra["reference_self_test"] = {k: float(v) for k, v in rp.self_test().items()}
    cs = cases(ctx)
    nbatch = 3
    for b in range(nbatch):
        part = cs[b::nbatch]
        res = par.run("vf.props.c29", "worker", part, nproc=16, timeout=ctx.pick(300, 900))
        for c, r in zip(part, res):
            if r is None:
                ctx.inconclusive("worker returned nothing")
            elif "crash" in r:
                ctx.count("worker_crash")
                ctx.inconclusive("worker crashed on mseed %d: %s" % (c["mseed"], r["crash"][-300:]))
            elif "exception" in r:
                ctx.count("harness_exception")
                ctx.inconclusive("harness exception in worker: " + r["exception"] + " " + r.get("trace", "")[-800:])
            else:
                ctx.merge(r)
        if ctx.violations:
            ctx.count("batches_not_run_after_violation", nbatch - 1 - b)
            break
    sk = ctx.counters.get("engine_error_skipped", 0)
    if sk > 0.1 * max(1, ctx.counters.get("states", 0)):
        ctx.inconclusive("too many states skipped on engine errors (%d)" % sk)
    ctx.min_nontrivial = ctx.pick(300, 5000)


def replay(ctx, path):
    rec = json.load(open(path))
    c = dict(rec["detail"]["case"])
    c["xml"] = rec["detail"]["xml"]
    if "state" in rec["detail"]:
        c["only_state"] = rec["detail"]["state"]
    ctx.merge(worker(c))
    ctx.min_nontrivial = 0
