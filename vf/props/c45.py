"""C45 MJX dynamics have correct gradients (mjx/_src: smooth, passive, solver, forward, math, derivative, support, sensor)."""
import json

import numpy as np

from .. import core, par

LEVEL = "exploration"
RULE = ("random smooth MJX models (no contacts, no limits, no friction loss: profile 'smooth' has no constraint rows at all; "
        "profile 'eqonly' adds always-active joint/tendon/connect/weld equalities) x {random state, rest state "
        "(qvel=0, tangent displacement 0: probes norm/normalise/where singularities)}. Six random linear functionals, one "
        "per output group {qacc; qfrc_bias+qfrc_passive; actuation; kinematics; sensordata; next state of step} are "
        "differentiated w.r.t. x = (tangent displacement of qpos, qvel, ctrl, act, model parameters body_mass, "
        "dof_damping, dof_armature, jnt_stiffness, actuator_gear, gainprm, biasprm, tendon_stiffness, tendon_damping, "
        "gravity) by jax.jvp along one random direction per variable class plus a mixed one, and by jax.jacrev (models "
        "without constraint rows; the solver's lax.while_loop is forward-mode only) - both against central finite "
        "differences of the same jitted function. distinct = (output group, variable class, mode, profile, integrator, "
        "state kind, feature hash); non-trivial = direction with a non-zero finite-difference derivative")
ASSUMPTIONS = [
    "finite differences of the same jitted function are the reference (x64, central, eps=1e-6 and 2e-6); a direction is "
    "judged only if the two step sizes agree to 1e-5 relative and the one-sided forward/backward differences agree to "
    "1e-3 relative (otherwise the point is on or next to a kink: ctrl/force clamp, muscle curve pieces -> skipped+counted)",
    "relative tolerance 1e-4 of max(|fd|, |ad|, 1e-4*(1+|F|)) (finite-difference truncation+round-off stays below 1e-9*(1+|F|))",
    "quaternion coordinates are differentiated along tangent directions: qpos(dq) = qpos0 * normalize([1, dq/2]) per ball/free "
    "joint (first-order equal to mj_integratePos), written in the harness - not MJX's own integrator",
    "model parameters are perturbed additively in the mjx.Model fields MJX itself reads (derived constants such as "
    "body_subtreemass/invweight0 are separate fields and are held fixed in both AD and FD)",
    "reverse mode is only required where JAX supports it: solver.solve uses lax.while_loop (iterations>1), which JAX cannot "
    "reverse-differentiate, so models with constraint rows are judged in forward mode only",
    "a mismatch is reported under the signature of a known finding only when that finding's mechanism is confirmed for the "
    "derivative at hand: rest-state singularities by re-evaluating AD and FD at a base point displaced by 1e-5 in exactly the "
    "coordinates of the singularity (quaternion tangent + angular velocity of ball/free joints; or non-quaternion dofs along the "
    "Jacobian of a tendon sitting at its zero-width spring length) - the mismatch must vanish there and persist under the other "
    "displacement; the reverse-mode NaN by is_wrap_inside.any() plus a counterfactual on the tendon sub-pipeline (NaN with the "
    "model's flags, finite with the inside-wrap branch off). Unconfirmed mismatches keep their generic signature (violation)",
]

GROUPS = ["qacc", "bias_passive", "actuation", "kinematics", "sensordata", "step"]
VARS = ["dq", "qvel", "ctrl", "act", "params"]

_JIT = {}


def _tangent_qpos(jp, jnt_type, qpos0, dq):
    """qpos0 (+) dq with quaternion joints moved along the tangent: q * normalize([1, dq/2])."""
    def qmul(u, v):
        return jp.array([u[0] * v[0] - u[1] * v[1] - u[2] * v[2] - u[3] * v[3],
                         u[0] * v[1] + u[1] * v[0] + u[2] * v[3] - u[3] * v[2],
                         u[0] * v[2] - u[1] * v[3] + u[2] * v[0] + u[3] * v[1],
                         u[0] * v[3] + u[1] * v[2] - u[2] * v[1] + u[3] * v[0]])

    def rot(q, w):
        e = jp.concatenate([jp.ones(1), 0.5 * w])
        e = e / jp.sqrt(jp.sum(e * e))
        return qmul(q, e)
    out, qi, vi = [], 0, 0
    for t in jnt_type:
        t = int(t)
        if t == 0:
            q = qpos0[qi + 3:qi + 7]
            # free joint: linear velocity is in the world frame, angular in the local frame (mj_integratePos)
            out += [qpos0[qi:qi + 3] + dq[vi:vi + 3], rot(q, dq[vi + 3:vi + 6])]
            qi, vi = qi + 7, vi + 6
        elif t == 1:
            out.append(rot(qpos0[qi:qi + 4], dq[vi:vi + 3]))
            qi, vi = qi + 4, vi + 3
        else:
            out.append(qpos0[qi:qi + 1] + dq[vi:vi + 1])
            qi, vi = qi + 1, vi + 1
    return jp.concatenate(out) if out else jp.zeros(0)


PARAMS = ["body_mass", "dof_damping", "dof_armature", "jnt_stiffness", "actuator_gear", "actuator_gainprm",
          "actuator_biasprm", "tendon_stiffness", "tendon_damping"]


def _build(R, mx, dx0, jnt_type, W):
    """Returns F(theta) -> (6,) with theta a dict of arrays; mx, dx0, W are traced arguments of the jitted wrappers."""
    mjx, jp = R.mjx, R.jp

    def F(theta, mx, dx0, W):
        qpos = _tangent_qpos(jp, jnt_type, dx0.qpos, theta["dq"])
        m2 = mx.replace(**{k: getattr(mx, k) + theta["p_" + k] for k in PARAMS})
        m2 = m2.replace(opt=m2.opt.replace(gravity=m2.opt.gravity + theta["p_gravity"]))
        d = dx0.replace(qpos=qpos, qvel=theta["qvel"], ctrl=theta["ctrl"], act=theta["act"])
        # one pipeline only (XLA compile time): mjx.step returns the forward quantities of the pre-step state (of the last
        # RK stage for RK4) next to the advanced state - any of them is a legitimate differentiable output of step
        ds = mjx.step(m2, d)
        df = ds
        groups = {
            "qacc": [df.qacc],
            "bias_passive": [df.qfrc_bias, df.qfrc_passive],
            "actuation": [df.qfrc_actuator, df.actuator_force, df.act_dot, df.actuator_length],
            "kinematics": [df.xpos.ravel(), df.xmat.ravel(), df.subtree_com.ravel(), df.cvel.ravel(), df.ten_length,
                           df.site_xpos.ravel(), df.geom_xpos.ravel()],
            "sensordata": [df.sensordata],
            "step": [ds.qpos, ds.qvel, ds.act],
        }
        outs = []
        for g in GROUPS:
            v = jp.concatenate([a.ravel() for a in groups[g]])
            outs.append(jp.dot(W[g], v))
        return jp.stack(outs)
    return F


def _group_sizes(m):
    return {"qacc": m.nv, "bias_passive": 2 * m.nv, "actuation": m.nv + 2 * m.nu + m.na,
            "kinematics": m.nbody * (3 + 9 + 3 + 6) + m.ntendon + 3 * m.nsite + 3 * m.ngeom,
            "sensordata": m.nsensordata, "step": m.nq + m.nv + m.na}


SIG_QUAT = "quaternion-axis-angle-gradient-singular-at-rest"
SIG_TENDON = "tendon-spring-gradient-zero-at-rest-length"
DISPLACE = 1e-5   # far outside math.norm's |x| <= 1e-8 'is zero' ball, small enough that AD and FD are compared at the same point


def _rot_and_lin_dofs(jnt_type):
    """dof indices of quaternion (ball / free-rotational) tangent coordinates, and of all other ('linear') coordinates"""
    rot, lin, vi = [], [], 0
    for t in jnt_type:
        if t == 0:
            lin += [vi, vi + 1, vi + 2]
            rot += [vi + 3, vi + 4, vi + 5]
            vi += 6
        elif t == 1:
            rot += [vi, vi + 1, vi + 2]
            vi += 3
        else:
            lin.append(vi)
            vi += 1
    return np.array(rot, int), np.array(lin, int)


def _rest_length_tendon_direction(mj, m, d, lin):
    """Tendons with a spring whose dead band has zero width (lengthspring lower == upper) sitting exactly at that length in
    MjData `d`: returns the direction in the non-quaternion dofs that changes their length (sum of Jacobian rows), or None."""
    if not m.ntendon or not len(lin):
        return None
    ls = np.asarray(m.tendon_lengthspring).reshape(m.ntendon, 2)
    hit = [t for t in range(m.ntendon) if m.tendon_stiffness[t] > 0 and ls[t, 0] == ls[t, 1]
           and abs(d.ten_length[t] - ls[t, 0]) <= 1e-9]
    if not hit:
        return None
    J = np.zeros((m.ntendon, m.nv))
    try:
        mj.mju_sparse2dense(J, d.ten_J, m.ten_J_rownnz, m.ten_J_rowadr, m.ten_J_colind)
    except Exception:
        J = np.array(d.ten_J).reshape(m.ntendon, m.nv)
    u = np.zeros(m.nv)
    u[lin] = J[hit][:, lin].sum(axis=0)
    return u / np.linalg.norm(u) if np.linalg.norm(u) > 1e-9 else None


def _confirm_wrap_inside_nan(R, mx, dxb):
    """Counterfactual for the reverse-mode NaN: jax.grad of ten_length through kinematics -> com_pos -> tendon is non-finite with
    the model's is_wrap_inside flags and finite (and equal to forward mode) when the inside-wrap branch is switched off."""
    jax, jp = R.jax, R.jp
    sm = R.src["smooth"]
    flags = np.asarray(mx._impl.is_wrap_inside).astype(bool)
    if not flags.any():
        return False

    def length(q, mm):
        d = dxb.replace(qpos=q)
        d = sm.tendon(mm, sm.com_pos(mm, sm.kinematics(mm, d)))
        return jp.sum(d.ten_length)
    try:
        g_in = np.asarray(jax.jit(jax.grad(lambda q: length(q, mx)))(dxb.qpos))
        mx_off = mx.tree_replace({"_impl.is_wrap_inside": np.zeros_like(flags)})
        g_off = np.asarray(jax.jit(jax.grad(lambda q: length(q, mx_off)))(dxb.qpos))
    except Exception:
        return False
    return bool((not np.all(np.isfinite(g_in))) and np.all(np.isfinite(g_off)))


def check_model(R, xml, tags, case, P):
    from .. import mjxrepo
    from jax.flatten_util import ravel_pytree
    mj, mjx, jax, jp = R.mujoco, R.mjx, R.jax, R.jp
    rng = np.random.Generator(np.random.PCG64(case["key"] ^ 0x9e3779b9))
    base = {"xml": xml, "tags": tags, "case": case}
    try:
        m = mj.MjModel.from_xml_string(xml)
    except Exception:
        P.count("skipped_xml_rejected_by_wheel")
        return
    try:
        mx = mjx.put_model(m)
        dx0 = mjx.make_data(m)
    except NotImplementedError:
        P.count("gate_rejected")
        return
    if m.nv == 0:
        P.count("skipped_nv0")
        return
    has_rows = int(dx0._impl.nefc) > 0
    wrap_conf = {}

    def wrap_inside_nan():
        """the model takes MJX's inside-wrap branch (side site inside the wrapping geom) and that branch is confirmed to be the
        source of the reverse-mode NaN (see _confirm_wrap_inside_nan); evaluated once per model"""
        if "v" not in wrap_conf:
            wrap_conf["v"] = bool(np.asarray(mx._impl.is_wrap_inside).any()) and _confirm_wrap_inside_nan(R, mx, dx0)
            P.count("wrap_inside_reverse_nan_counterfactual[%s]" % ("confirmed" if wrap_conf["v"] else "not-confirmed"))
        return wrap_conf["v"]
    modes = ["fwd"] if has_rows else ["fwd", "rev"]
    P.count("models")
    P.count("models_with_constraint_rows" if has_rows else "models_without_constraint_rows")
    sizes = _group_sizes(m)
    W = {g: jp.array(rng.normal(size=sizes[g])) for g in GROUPS}
    jnt_type = tuple(int(t) for t in m.jnt_type)
    F = _build(R, None, None, jnt_type, None)
    jitted = {}
    CW = jp.array(rng.uniform(0.5, 1.5, size=len(GROUPS)) * rng.choice([-1.0, 1.0], size=len(GROUPS)))
    integ = [t for t in tags if t.startswith("int:")][0]
    prof = tags and [t for t in tags if t in mjxrepo.PROFILES][0]
    feat = "h%x" % (core.stable_hash(*[t for t in tags if t.split(":")[0] in ("jnt", "act", "eq", "tendon", "wrap", "sensor")
                                       or t in ("fluid", "gravcomp")]) & 0xfff)
    d = mj.MjData(m)
    for kind in case["states"]:
        if kind == "random":
            mjxrepo.random_state(R, rng, m, d, scale=0.7, vel=1.0)
            for i in range(m.nu):   # keep controls away from the clamp kink (inside or clearly outside)
                if m.actuator_ctrllimited[i]:
                    lo, hi = m.actuator_ctrlrange[i]
                    c = rng.uniform(lo - 0.3, hi + 0.3)
                    if abs(c - lo) < 0.02 or abs(c - hi) < 0.02:
                        c = 0.5 * (lo + hi)
                    d.ctrl[i] = c
        else:
            mj.mj_resetData(m, d)
            for i in range(m.nu):
                if m.actuator_ctrllimited[i]:
                    d.ctrl[i] = 0.5 * (m.actuator_ctrlrange[i][0] + m.actuator_ctrlrange[i][1])
                if m.actuator_gaintype[i] == mj.mjtGain.mjGAIN_MUSCLE:
                    d.ctrl[i] = 0.5
            for i in range(m.na):
                d.act[i] = 0.3
        st = mjxrepo.state_dict(m, d)
        dxb = dx0.replace(qpos=jp.array(d.qpos), time=jp.array(d.time, dtype=dx0.time.dtype),
                          mocap_pos=jp.array(d.mocap_pos), mocap_quat=jp.array(d.mocap_quat),
                          qfrc_applied=jp.array(d.qfrc_applied), xfrc_applied=jp.array(d.xfrc_applied))
        theta0 = {"dq": jp.zeros(m.nv), "qvel": jp.array(d.qvel), "ctrl": jp.array(d.ctrl), "act": jp.array(d.act),
                  "p_gravity": jp.zeros(3)}
        for k in PARAMS:
            theta0["p_" + k] = jp.zeros_like(getattr(mx, k))
        x0, unravel = ravel_pytree(theta0)
        n = int(x0.size)
        # directions: one per variable class + mixed
        dirs, dnames = [], []
        for vname in VARS + ["mixed"]:
            th = {k: np.zeros(np.shape(v)) for k, v in theta0.items()}
            for k in th:
                cls = "params" if k.startswith("p_") else k
                if (vname == "mixed" or cls == vname) and th[k].size:
                    th[k] = rng.normal(size=th[k].shape)
                    if k == "p_actuator_gear":
                        th[k][:, 1:] *= (np.asarray(mx.actuator_gear)[:, 1:] != 0).any()   # unused gear slots
            v, _ = ravel_pytree({k: jp.array(a) for k, a in th.items()})
            if float(jp.abs(v).max()) == 0.0:
                continue
            dirs.append(np.asarray(v) / np.linalg.norm(np.asarray(v)))
            dnames.append(vname)
        V = jp.array(np.stack(dirs))
        if "fns" not in jitted:
            def flat(x, mx, dxb, W):
                return F(unravel(x), mx, dxb, W)

            def ad(x, V, mx, dxb, W):
                f = lambda y: flat(y, mx, dxb, W)
                out = {"f": f(x), "jvp": jax.vmap(lambda v: jax.jvp(f, (x,), (v,))[1])(V)}
                if "rev" in modes:   # one reverse pass: gradient of a fixed random combination of the six functionals
                    out["grad"] = jax.grad(lambda y: jp.dot(CW, f(y)))(x)
                return out

            def fdpts(X, mx, dxb, W):
                return jax.vmap(lambda y: flat(y, mx, dxb, W))(X)
            jitted["fns"] = (jax.jit(ad), jax.jit(fdpts))
        jad, jfd = jitted["fns"]
        eps = [1e-6, 2e-6]

        def evaluate(xb):
            """AD (jvp along every direction, one reverse pass) and the four finite-difference points per direction at base xb"""
            A = jad(jp.array(xb), V, mx, dxb, W)
            jax.block_until_ready(A["jvp"])
            X = []
            for v in dirs:
                for e in eps:
                    X += [np.asarray(xb) + e * v, np.asarray(xb) - e * v]
            Y = np.asarray(jfd(jp.array(np.stack(X)), mx, dxb, W))
            return {"f0": np.asarray(A["f"]), "jvp": np.asarray(A["jvp"]), "grad": np.asarray(A["grad"]) if "grad" in A else None,
                    "Y": Y}

        def fds(E, di):
            Y, f0 = E["Y"], E["f0"]
            yp1, ym1, yp2, ym2 = Y[4 * di], Y[4 * di + 1], Y[4 * di + 2], Y[4 * di + 3]
            return (yp1 - ym1) / (2 * eps[0]), (yp2 - ym2) / (2 * eps[1]), (yp1 - f0) / eps[0], (f0 - ym1) / eps[0]

        def smooth_at(E, di, gi):
            fd1, fd2, fwd, bwd = fds(E, di)
            if not np.all(np.isfinite([fd1[gi], fd2[gi], fwd[gi], bwd[gi]])):
                return False
            scale = max(abs(fd1[gi]), 1e-4 * (1 + abs(E["f0"][gi])))
            return not (abs(fd1[gi] - fd2[gi]) > 1e-5 * scale or
                        abs(fwd[gi] - bwd[gi]) > 1e-3 * max(scale, abs(fwd[gi]), abs(bwd[gi])))

        def err_fwd(E, di, gi):
            """relative AD-vs-FD error of (direction di, group gi) at the base of E, or None if it cannot be judged there"""
            a = E["jvp"][di, gi]
            if not np.isfinite(a) or not smooth_at(E, di, gi):
                return None
            fd1 = fds(E, di)[0]
            scale = max(abs(fd1[gi]), 1e-4 * (1 + abs(E["f0"][gi])))
            return abs(a - fd1[gi]) / max(scale, abs(a))

        def err_rev(E, di):
            if E["grad"] is None:
                return None
            r = float(E["grad"] @ dirs[di])
            if not np.isfinite(r) or not all(smooth_at(E, di, gi) for gi, g in enumerate(GROUPS) if sizes[g]):
                return None
            fdc = float(cw @ fds(E, di)[0])
            scale = max(abs(fdc), 1e-4 * (1 + float(np.abs(cw * E["f0"]).sum())))
            return abs(r - fdc) / max(scale, abs(r))

        try:
            E0 = evaluate(np.asarray(x0))
        except Exception as e:
            P.count("skipped_mjx_raised[%s]" % type(e).__name__)
            continue
        f0 = E0["f0"]
        if not np.all(np.isfinite(f0)):
            P.count("skipped_primal_nonfinite")
            continue
        jvp, grad = E0["jvp"], E0["grad"]
        cw = np.asarray(CW)

        # ---- confirmation of the two rest-state singularities: displace the base point OUT of the singular point ------------
        rot, lin = _rot_and_lin_dofs(jnt_type)
        displaced = {}
        drng = np.random.Generator(np.random.PCG64(case["key"] ^ 0x51ed270b))

        def displacement(which):
            th = {k: np.zeros(np.shape(v)) for k, v in theta0.items()}
            if "Q" in which and len(rot):     # quaternion tangent coordinates and angular velocities of ball / free joints
                for k in ("dq", "qvel"):
                    u = drng.normal(size=len(rot))
                    th[k][rot] = DISPLACE * u / np.linalg.norm(u)
            if "T" in which:                  # along the non-quaternion dofs that change the rest-length tendons
                u = _rest_length_tendon_direction(mj, m, d_rest, lin) if d_rest is not None else None
                if u is None:
                    return None
                th["dq"] = th["dq"] + DISPLACE * u
            v, _ = ravel_pytree({k: jp.array(a) for k, a in th.items()})
            v = np.asarray(v)
            return v if np.abs(v).max() > 0 else None

        def at(which):
            if which not in displaced:
                u = displacement(which)
                try:
                    displaced[which] = evaluate(np.asarray(x0) + u) if u is not None else None
                except Exception:
                    displaced[which] = None
                P.count("rest_displaced_reevaluations[%s]" % which)
            return displaced[which]

        def rest_cause(di, gi, mode):
            """Signature of the rest-state singularity that is CONFIRMED to cause this mismatch: the mismatch must disappear (AD
            matches FD at 1e-4 again, both evaluated at the displaced base) when ONLY the coordinates of that singularity are moved
            by 1e-5, and must persist when only the other coordinates are moved."""
            if kind != "rest":
                return None
            err = (lambda E: err_fwd(E, di, gi)) if mode == "fwd" else (lambda E: err_rev(E, di))
            ok = {}
            for which in ("Q", "T"):
                E = at(which)
                e = err(E) if E is not None else None
                ok[which] = e is not None and e <= 1e-4
            if ok["Q"] != ok["T"]:
                P.count("rest_mismatch_confirmed_by_displacement[%s]" % ("quaternion" if ok["Q"] else "tendon"))
                return SIG_QUAT if ok["Q"] else SIG_TENDON
            if ok["Q"] and ok["T"]:
                P.count("rest_mismatch_ambiguous_displacement")
                return None
            E = at("QT")
            e = err(E) if E is not None else None
            if e is not None and e <= 1e-4:    # both singularities contribute to this derivative
                P.count("rest_mismatch_confirmed_by_displacement[quaternion+tendon]")
                return SIG_QUAT
            P.count("rest_mismatch_not_explained_by_displacement")
            return None

        d_rest = None
        if kind == "rest":
            d_rest = mj.MjData(m)
            mjxrepo.set_state_dict(m, d_rest, st)
            mj.mj_forward(m, d_rest)

        for di, (v, vname) in enumerate(zip(dirs, dnames)):
            fd1, fd2, fwd, bwd = fds(E0, di)
            all_smooth = True
            for gi, g in enumerate(GROUPS):
                if sizes[g] == 0:
                    continue
                scale = max(abs(fd1[gi]), 1e-4 * (1 + abs(f0[gi])))
                a = jvp[di, gi]
                P.count("derivatives_evaluated")
                sig_tail = "%s-wrt-%s[fwd]" % (g, vname)
                det = dict(base, state=st, state_kind=kind, group=g, var=vname, mode="fwd",
                           ad=float(a) if np.isfinite(a) else str(a), fd=[float(fd1[gi]), float(fd2[gi])], f0=float(f0[gi]))
                if not np.isfinite(a):
                    all_smooth = False
                    if np.all(np.isfinite([fd1[gi], fd2[gi]])):
                        P.violation("gradient-non-finite:" + sig_tail + ("@rest" if kind == "rest" else ""), det)
                    else:
                        P.count("skipped_fd_nonfinite")
                    continue
                if not np.all(np.isfinite([fd1[gi], fd2[gi], fwd[gi], bwd[gi]])):
                    P.count("skipped_fd_nonfinite")
                    all_smooth = False
                    continue
                if not smooth_at(E0, di, gi):
                    P.count("skipped_nonsmooth_point")
                    all_smooth = False
                    continue
                err = abs(a - fd1[gi]) / max(scale, abs(a))
                P.note_max("relerr_%s_fwd" % g, err)
                nontriv = abs(fd1[gi]) > 1e-7 * (1 + abs(f0[gi]))
                P.case("|".join([g, vname, "fwd", prof, integ, kind, feat]), nontrivial=bool(nontriv),
                       sample={"tags": tags, "state_kind": kind, "group": g, "var": vname, "ad": float(a), "fd": float(fd1[gi])}
                       if (di == 0 and gi == 0) else None)
                if err > 1e-4:
                    cause = rest_cause(di, gi, "fwd")
                    if cause:
                        P.violation("gradient-differs-from-finite-difference@rest:%s[fwd]" % cause, dict(det, relerr=float(err)))
                    else:
                        P.violation("gradient-differs-from-finite-difference:" + sig_tail, dict(det, relerr=float(err)))
            if grad is not None:
                P.count("derivatives_evaluated")
                r = float(grad @ v)
                fdc = float(cw @ fd1)
                jc = float(cw @ jvp[di])
                det = dict(base, state=st, state_kind=kind, group="combined", var=vname, mode="rev", ad=r, fd=fdc, fwd=jc)
                if not np.isfinite(r):
                    if np.isfinite(fdc):
                        if np.isfinite(jc) and wrap_inside_nan():
                            P.violation("gradient-non-finite:reverse-mode-through-tendon-wrap-inside-branch", det)
                        else:
                            P.violation("gradient-non-finite:combined-wrt-%s[rev]" % vname + ("@rest" if kind == "rest" else ""), det)
                    continue
                if np.isfinite(jc):
                    e2 = abs(r - jc) / max(abs(r), abs(jc), 1e-6 * (1 + float(np.abs(cw * f0).sum())))
                    P.note_max("relerr_fwd_vs_rev", e2)
                    P.case("|".join(["combined", vname, "rev", prof, integ, kind, feat]), nontrivial=abs(jc) > 0)
                    if e2 > 1e-7:
                        P.violation("forward-and-reverse-mode-disagree:combined-wrt-%s" % vname, det)
                if all_smooth and np.isfinite(fdc):
                    scale = max(abs(fdc), 1e-4 * (1 + float(np.abs(cw * f0).sum())))
                    err = abs(r - fdc) / max(scale, abs(r))
                    P.note_max("relerr_combined_rev", err)
                    if err > 1e-4:
                        cause = rest_cause(di, None, "rev")
                        if cause:
                            P.violation("gradient-differs-from-finite-difference@rest:%s[rev]" % cause, dict(det, relerr=float(err)))
                        else:
                            P.violation("gradient-differs-from-finite-difference:combined-wrt-%s[rev]" % vname, dict(det, relerr=float(err)))
        if grad is not None and not np.all(np.isfinite(grad)):
            names, off = [], 0
            cols = np.argwhere(~np.isfinite(grad))[:, 0]
            for k in sorted(theta0):
                sz = int(np.prod(np.shape(theta0[k])))
                if np.any((cols >= off) & (cols < off + sz)):
                    names.append(k)
                off += sz
            if np.all(np.isfinite(jvp)) and wrap_inside_nan():
                P.violation("gradient-non-finite:reverse-mode-through-tendon-wrap-inside-branch", dict(base, state=st, state_kind=kind, wrt=names))
            else:
                P.violation("gradient-non-finite:reverse-mode-wrt-%s" % ",".join(names) + ("@rest" if kind == "rest" else ""),
                            dict(base, state=st, state_kind=kind))
        P.count("states_evaluated")


def worker(case):
    from .. import mjxrepo
    P = core.Part()
    R = mjxrepo.load(x64=True)
    if "xml" in case:
        xml, tags = case["xml"], case["tags"]
    else:
        rng = np.random.Generator(np.random.PCG64(case["key"]))
        xml, tags = mjxrepo.gen_model(rng, case["profile"], small=True, safe=True,
                                      integrator=case.get("integrator"))
    check_model(R, xml, tags, case, P)
    return P.result()


def _cases(ctx):
    n = ctx.pick(10, 80)
    cases = []
    for i in range(n):
        cases.append({"key": int(core.stable_hash("C45", ctx.seed, i)), "profile": ["smooth", "smooth", "eqonly", "smooth"][i % 4],
                      "states": ["random", "rest"], "integrator": ["Euler", "implicitfast", "RK4", "Euler"][(i // 2) % 4]
                      if ctx.quick else None})
    return cases


def run(ctx):
    cases = _cases(ctx)
    results = par.run("vf.props.c45", "worker", cases, nproc=8, timeout=ctx.pick(2400, 3600), chunk=1 if ctx.quick else None)
    fails = 0
    for c, r in zip(cases, results):
        if r is None or "crash" in r or "exception" in r:
            fails += 1
            ctx.count("worker_failures")
            ctx.extra.setdefault("worker_failure_samples", [])
            if len(ctx.extra["worker_failure_samples"]) < 3:
                ctx.extra["worker_failure_samples"].append({"case": c, "result": {k: str(v)[-1500:] for k, v in (r or {}).items()}})
            continue
        ctx.merge(r)
    ctx.min_nontrivial = ctx.pick(40, 200)
    if fails > len(cases) // 4:
        ctx.inconclusive("too many worker failures (%d of %d)" % (fails, len(cases)))
    sk = ctx.counters.get("skipped_nonsmooth_point", 0)
    ev = ctx.counters.get("derivatives_evaluated", 0)
    if ev and sk > 0.5 * ev:
        ctx.inconclusive("more than half of the derivative probes were skipped as non-smooth (%d of %d)" % (sk, ev))


def replay(ctx, path):
    from .. import mjxrepo
    det = json.loads(open(path).read())["detail"]
    R = mjxrepo.load(x64=True)
    P = core.Part()
    check_model(R, det["xml"], det["tags"], det["case"], P)
    ctx.merge(P.result())
