"""C12 The constraint cost has consistent derivatives."""
import json

import numpy as np

from .. import build, core, drv, par
from ..gen import cscenes
from ..mjconst import E
from ..ref import constraint as cref

LEVEL = "exploration"
RULE = ("the public mj_constraintUpdate(m,d,jar,cost,flg_coneHessian) is evaluated on an mjData whose efc rows were produced by a real "
        "mj_forward (generated articulated models with equalities / dof+tendon friction loss / joint+tendon limits / contacts, "
        "and heaps of free bodies with condim 1,3,4,6; both cones; impratio 0.05..50; solimp/friction spread so efc_R spans >6 "
        "decades) with harness-chosen jar: dense Gaussian vectors at 5 scales, vectors supported on one row/contact, and "
        "boundary-targeted vectors (0, +-R*floss, cone surface, polar-cone surface, apex, cone axis; hit exactly and at +-1e-9). "
        "Decided relations: force = -grad cost (central differences of the returned cost, two step sizes, stencils that stay in "
        "one zone), qfrc_constraint = J'force, first-order / midpoint convexity and gradient monotonicity over pairs, force and "
        "cost continuity across every targeted boundary, contact.H = -d force / d jar inside the cone's middle zone. "
        "distinct = (model, jar family, row class, zone or boundary); non-trivial = nefc>0")
ASSUMPTIONS = [
    "zone boundaries are located with the documented model (vf/ref/constraint.py: Huber threshold R*eta, dual cone K* and its polar in "
    "the R^-1 metric); the reference is used only to aim jar at boundaries and to scale tolerances - the verdict relations involve "
    "engine outputs only",
    "all comparisons are made in whitened units (jar/sqrt(R), force*sqrt(R)) so that rows whose R differ by many decades are judged "
    "alike; roundoff allowance 1e-12 of the operand norm, finite-difference allowance 1e-6 of |force||direction| plus 40 ulp of the cost "
    "divided by the step",
    "the cost is C1 but not C2 (doc: 'convex and once-continuously-differentiable'): finite differences and the cone Hessian are judged "
    "only on stencils whose efc_state does not change; crossing stencils are counted and skipped",
    "across a boundary the force may change by at most 2*|delta jar| in whitened units (the gradient of a squared distance to a convex "
    "set is 1-Lipschitz; factor 2 of slack); a genuine discontinuity does not shrink with delta and exceeds this by orders of magnitude",
]

EPS = 2.220446049250313e-16
SCALES = [1e-3, 1e-1, 1.0, 1e1, 1e3]
STATE_NAMES = {0: "satisfied", 1: "quadratic", 2: "linearneg", 3: "linearpos", 4: "cone"}
CLASS_NAMES = {cref.QUAD: "equality", cref.HUBER: "frictionloss", cref.POS: "onesided", cref.CONE: "elliptic"}


class Eng:
    """mj_constraintUpdate on a fixed (m, d)"""

    def __init__(self, L, m, d):
        self.L, self.m, self.d = L, m, d
        self.nefc = d.s("nefc")
        self.af = d.arena_fields()
        self._c = np.zeros(1)
        self.force = d.arena("efc_force", self.af)
        self.state = d.arena("efc_state", self.af)
        self.ncall = 0

    def __call__(self, jar, hess=0):
        jar = np.ascontiguousarray(jar, dtype=np.float64)
        self._c[0] = np.nan
        self.L.call("mj_constraintUpdate", self.m, self.d, jar, self._c, int(hess), ret=None)
        self.ncall += 1
        return float(self._c[0]), np.array(self.force[:self.nefc]), np.array(self.state[:self.nefc])


def blocks_of(rows):
    """list of (class, row indices) - scalar rows and elliptic contacts"""
    out = [(int(rows.kind[i]), np.array([i])) for i in range(rows.n) if rows.kind[i] != cref.CONE]
    for a, dim, mu in rows.cones:
        out.append((cref.CONE, np.arange(a, a + dim)))
    return out


def cost_mag(rows, z):
    """sum of the magnitudes of the documented cost terms (roundoff scale of the returned cost)"""
    y2 = z ** 2 / rows.R
    return 0.5 * float(np.sum(y2)) + 0.5 * float(np.sum((rows.R * rows.eta ** 2)[rows.ih])) + float(np.sum(np.abs(rows.eta * z)[rows.ih]))


class Checker:
    def __init__(self, P, eng, rows, J, name, witness):
        self.P, self.eng, self.rows, self.J, self.name, self.witness = P, eng, rows, J, name, witness
        self.w = np.sqrt(rows.R)
        self.nviol = 0

    def viol(self, sig, **kw):
        self.nviol += 1
        det = dict(self.witness)
        det.update({k: (v.tolist() if isinstance(v, np.ndarray) else v) for k, v in kw.items()})
        self.P.violation(sig, det)

    def case(self, family, cls, what):
        self.P.case(key="%s|%s|%s|%s" % (self.name, family, cls, what), sample={"model": self.name, "family": family, "rows": cls, "target": what,
                                                                           "nefc": int(self.rows.n)})
        self.P.count("family:%s" % family)

    def note_states(self, st):
        for cls, idx in self.blocks:
            self.P.count("visited:%s:%s" % (CLASS_NAMES[cls], STATE_NAMES.get(int(st[idx[0]]), "?")))

    # ---- force = -grad cost along a direction -----------------------------------------------------------------------
    def fd_direction(self, x, v, cls, tag, hrels=(1e-4, 1e-6), hscale=None):
        """central difference of the returned cost along v against -force.v; -> True if decided"""
        eng, w = self.eng, self.w
        c0, f0, s0 = eng(x)
        yn = float(np.linalg.norm(x / w)) if hscale is None else hscale
        vn = float(np.linalg.norm(v / w))
        if vn == 0 or yn == 0:
            return False
        fw = float(np.linalg.norm(f0 * w))
        dd = -float(f0 @ v)
        C = cost_mag(self.rows, x)
        fails = []
        decided = False
        for hr in hrels:
            h = hr * yn / vn
            cp, _, sp = eng(x + h * v)
            cm, _, sm = eng(x - h * v)
            if (sp != s0).any() or (sm != s0).any():
                self.P.count("fd_stencil_crosses_zone_skipped")
                continue
            decided = True
            fd = (cp - cm) / (2 * h)
            tol = 1e-6 * fw * vn + 40 * EPS * (C + abs(c0)) / h + 1e-300
            err = abs(fd - dd)
            self.P.note_max("fd_err_over_tol", err / tol)
            if not (err <= tol):
                fails.append(dict(h=h, fd=fd, minus_force_dot_v=dd, tol=tol))
            else:
                fails = []
                break
        if decided and fails:
            zone = STATE_NAMES.get(int(s0[np.flatnonzero(v)[0]]), "?") if cls != "mixed" else "mixed"
            self.viol("force-is-not-minus-gradient-of-cost:%s:%s" % (cls, zone), jar=x, direction=v, fails=fails, tag=tag, cost=c0)
        return decided

    # ---- convexity over a pair ----------------------------------------------------------------------------------------
    def pair(self, x1, x2, cls, tag):
        eng = self.eng
        c1, f1, _ = eng(x1)
        c2, f2, _ = eng(x2)
        cm, _, _ = eng(0.5 * (x1 + x2))
        C = cost_mag(self.rows, x1) + cost_mag(self.rows, x2) + abs(c1) + abs(c2)
        tol = 40 * EPS * C
        if not (cm <= 0.5 * (c1 + c2) + tol):
            self.viol("cost-not-midpoint-convex:%s" % cls, jar1=x1, jar2=x2, cost1=c1, cost2=c2, cost_mid=cm, tag=tag)
        dx = x2 - x1
        # first order: c2 >= c1 + grad1.dx = c1 - f1.dx ; c1 >= c2 + f2.dx
        t1 = float(np.abs(f1 * dx).sum()) * 40 * EPS + tol
        if not (c2 - c1 + float(f1 @ dx) >= -t1):
            self.viol("cost-below-its-tangent-plane:%s" % cls, jar1=x1, jar2=x2, cost1=c1, cost2=c2, lin=-float(f1 @ dx), tag=tag)
        t2 = float(np.abs(f2 * dx).sum()) * 40 * EPS + tol
        if not (c1 - c2 - float(f2 @ dx) >= -t2):
            self.viol("cost-below-its-tangent-plane:%s" % cls, jar1=x2, jar2=x1, cost1=c2, cost2=c1, lin=float(f2 @ dx), tag=tag)
        mono = float((f2 - f1) @ dx)            # = -(g2-g1).dx <= 0
        tm = 40 * EPS * float((np.abs(f1) + np.abs(f2)) @ np.abs(dx))
        if not (mono <= tm):
            self.viol("force-not-monotone:%s" % cls, jar1=x1, jar2=x2, value=mono, tol=tm, tag=tag)

    # ---- continuity across a targeted boundary ----------------------------------------------------------------------------
    def continuity(self, xb, dirv, cls, what, delta_rel=1e-9):
        """xb: boundary point, dirv: direction crossing it. Compares the two sides at +-delta and the point itself."""
        eng, w = self.eng, self.w
        yb = float(np.linalg.norm(xb / w))
        vn = float(np.linalg.norm(dirv / w))
        if vn == 0:
            return
        ref = yb if yb > 0 else 1.0
        dl = delta_rel * ref / vn
        pts = [xb - dl * dirv, xb, xb + dl * dirv]
        res = [eng(p) for p in pts]
        sts = [STATE_NAMES.get(int(r[2][np.flatnonzero(dirv)[0]]), "?") for r in res]
        self.P.count("boundary:%s:%s" % (cls, what))
        if sts[0] != sts[2]:
            self.P.count("boundary_crossings_with_state_change")
        C = max(cost_mag(self.rows, p) for p in pts)
        for (a, b) in ((0, 2), (0, 1), (1, 2)):
            dy = float(np.linalg.norm((pts[b] - pts[a]) / w))
            df = float(np.linalg.norm((res[b][1] - res[a][1]) * w))
            fwn = max(float(np.linalg.norm(res[a][1] * w)), float(np.linalg.norm(res[b][1] * w)))
            tol = 2 * dy + 1e-12 * (ref + fwn)
            self.P.note_max("boundary_force_jump_over_tol", df / tol)
            if not (df <= tol):
                self.viol("force-discontinuous-across-zone-boundary:%s:%s" % (cls, what), jar_a=pts[a], jar_b=pts[b], force_a=res[a][1],
                          force_b=res[b][1], jump_whitened=df, step_whitened=dy, tol=tol, states=sts)
                return
            dc = abs(res[b][0] - res[a][0])
            tolc = 2 * fwn * dy + 2 * dy * dy + 40 * EPS * C
            if not (dc <= tolc):
                self.viol("cost-discontinuous-across-zone-boundary:%s:%s" % (cls, what), jar_a=pts[a], jar_b=pts[b], cost_a=res[a][0],
                          cost_b=res[b][0], tol=tolc, states=sts)
                return

    # ---- contact.H ---------------------------------------------------------------------------------------------------
    def cone_hessian(self, x, idx, cid, tag):
        eng, w = self.eng, self.w
        dim = len(idx)
        c0, f0, s0 = eng(x, hess=1)
        if int(s0[idx[0]]) != 4:
            return False
        H = np.array(self.eng.d.contacts()["H"][cid][:dim * dim]).reshape(dim, dim)
        y = x[idx] / w[idx]
        T = float(np.linalg.norm(y[1:]))
        Hw = H * np.outer(w[idx], w[idx])
        best = None
        for hr in (1e-4, 1e-6):
            Hfd = np.zeros((dim, dim))
            ok = True
            for k in range(dim):
                h = hr * T * w[idx[k]]
                e = np.zeros_like(x)
                e[idx[k]] = h
                _, fp, sp = eng(x + e)
                _, fm, sm = eng(x - e)
                if int(sp[idx[0]]) != 4 or int(sm[idx[0]]) != 4:
                    ok = False
                    break
                Hfd[:, k] = -(fp[idx] - fm[idx]) / (2 * h)
            if not ok:
                self.P.count("hessian_stencil_crosses_zone_skipped")
                continue
            err = float(np.abs((Hfd * np.outer(w[idx], w[idx])) - Hw).max())
            best = err if best is None else min(best, err)
        if best is None:
            return False
        tol = 1e-6 * max(1.0, float(np.abs(Hw).max()))
        self.P.note_max("cone_hessian_err_over_tol", best / tol)
        if not (best <= tol):
            self.viol("cone-hessian-is-not-derivative-of-force:dim%d" % dim, jar=x, contact=int(cid), H=H, err_whitened=best, tol=tol, tag=tag)
        return True

    # ---- drivers ----------------------------------------------------------------------------------------------------
    def run(self, rng, njar):
        rows, w, eng, P = self.rows, self.w, self.eng, self.P
        n = rows.n
        self.blocks = blocks_of(rows)
        # (1) dense Gaussian vectors
        nd = max(5, njar // 5)
        prev = None
        for k in range(nd):
            sc = SCALES[k % len(SCALES)] * float(np.exp(rng.normal() * 0.5))
            x = w * rng.normal(size=n) * sc
            if k % 3 == 2:                   # sparse support: most rows exactly zero
                x *= rng.random(n) < 0.3
            c0, f0, s0 = eng(x)
            self.note_states(s0)
            if not (np.isfinite(c0) and np.isfinite(f0).all()):
                self.viol("non-finite-cost-or-force", jar=x)
                continue
            # J' f
            q = np.array(self.eng.d["qfrc_constraint"])
            qr = self.J.T @ f0
            tq = 1e-12 * (np.abs(self.J).T @ np.abs(f0)) + 1e-300
            if (np.abs(q - qr) > tq).any():
                i = int(np.argmax(np.abs(q - qr) / tq))
                self.viol("qfrc_constraint-differs-from-JT-force", jar=x, dof=i, engine=float(q[i]), ref=float(qr[i]))
            v = w * rng.normal(size=n)
            if self.fd_direction(x, v, "mixed", "dense:%d" % k):
                self.case("dense-gradient", "mixed", "scale%d" % (k % len(SCALES)))
            x2 = w * rng.normal(size=n) * sc * float(np.exp(rng.normal()))
            self.pair(x, x2, "mixed", "dense-far:%d" % k)
            self.pair(x, x + 1e-3 * sc * w * rng.normal(size=n), "mixed", "dense-near:%d" % k)
            if prev is not None:
                self.pair(x, prev, "mixed", "dense-scales:%d" % k)
            prev = x
            self.case("dense-convexity", "mixed", "scale%d" % (k % len(SCALES)))
        # (2) one block at a time
        order = rng.permutation(len(self.blocks))
        # make sure every class present is visited first
        seen, first, rest = set(), [], []
        for b in order:
            cls = self.blocks[b][0]
            key = (cls, len(self.blocks[b][1]))
            (first if key not in seen else rest).append(b)
            seen.add(key)
        chosen = (first + rest)[:max(4, njar // 6)]
        for b in chosen:
            cls, idx = self.blocks[b]
            bg = (w * rng.normal(size=n) * float(rng.choice(SCALES))) if rng.random() < 0.5 else np.zeros(n)
            bg[idx] = 0
            if cls == cref.CONE:
                self.cone_block(rng, idx, bg)
            else:
                self.scalar_block(rng, cls, int(idx[0]), bg)
            if self.nviol > 6:
                return

    def scalar_block(self, rng, cls, i, bg):
        rows, w = self.rows, self.w
        n = rows.n
        cname = CLASS_NAMES[cls]
        e = np.zeros(n)
        e[i] = 1.0
        thr = rows.R[i] * rows.eta[i] if cls == cref.HUBER else 0.0
        # interior points: both signs, several magnitudes (relative to the Huber threshold when there is one)
        base = thr if thr > 0 else w[i]
        for sgn in (-1.0, 1.0):
            for mag in (0.3, 3.0, float(np.exp(rng.uniform(-7, 7)))):
                x = np.zeros(n)
                x[i] = sgn * mag * base
                if self.fd_direction(x, e, cname, "block-interior"):
                    self.case("block-gradient", cname, "%s%s" % ("neg" if sgn < 0 else "pos", "-far" if mag > 1 else "-near"))
                self.pair(x, -0.7 * x, cname, "block-pair")
        # boundaries
        targets = [("zero", 0.0)]
        if cls == cref.HUBER and thr > 0:
            targets += [("plus-R-floss", thr), ("minus-R-floss", -thr)]
        for what, val in targets:
            for background in (np.zeros(n), bg):
                xb = background.copy()
                xb[i] = val
                self.continuity(xb, e * w[i], cname, what)
                if val != 0:
                    self.continuity(xb, e * w[i], cname, what, delta_rel=1e-13)
            self.case("boundary", cname, what)

    def cone_block(self, rng, idx, bg):
        rows, w = self.rows, self.w
        n = rows.n
        dim = len(idx)
        cname = "elliptic-dim%d" % dim
        g = rows.G[dim]
        c = int(np.flatnonzero(g[0][:, 0] == idx[0])[0])
        kappa = float(g[2][c])
        cid = int(self.cid_of_row[idx[0]])

        def point(N, tvec, mag):
            x = np.zeros(n)
            x[idx] = np.concatenate([[N], tvec]) * mag * w[idx]
            return x

        def tdir():
            t = rng.normal(size=dim - 1)
            if rng.random() < 0.3:         # axis aligned tangential direction
                t = np.zeros(dim - 1)
                t[int(rng.integers(0, dim - 1))] = rng.choice([-1.0, 1.0])
            return t / np.linalg.norm(t)

        for rep in range(2):
            mag = float(np.exp(rng.uniform(-7, 7)))
            t = tdir()
            # interior of the three zones (T = 1 in whitened units)
            zones = {"top": kappa * (1 + rng.uniform(0.05, 3)), "bottom": -(1 + rng.uniform(0.05, 3)) / kappa,
                     "middle": rng.uniform(-0.95 / kappa, 0.95 * kappa), "middle-normal-zero": 0.0,
                     "middle-separating": 0.5 * kappa, "middle-penetrating": -0.5 / kappa}
            for zname, N in zones.items():
                x = point(N, t, mag)
                hs = mag * min(1.0, abs(abs(N) - 0.0) + 1.0)
                ok = False
                for k in range(dim):
                    e = np.zeros(n)
                    e[idx[k]] = w[idx[k]]
                    ok |= self.fd_direction(x, e, cname, "cone-%s-comp%d" % (zname, k), hscale=mag)
                v = np.zeros(n)
                v[idx] = rng.normal(size=dim) * w[idx]
                ok |= self.fd_direction(x, v, cname, "cone-%s-random" % zname, hscale=mag)
                if ok:
                    self.case("block-gradient", cname, zname)
                if zname.startswith("middle"):
                    if self.cone_hessian(x, idx, cid, "cone-%s" % zname):
                        self.case("cone-hessian", cname, zname)
                x2 = point(rng.normal() * 2 * max(kappa, 1 / kappa), tdir() * float(np.exp(rng.normal())), mag)
                self.pair(x, x2, cname, "cone-pair-%s" % zname)
                self.pair(x + bg, x2 + bg, cname, "cone-pair-bg-%s" % zname)
            # boundaries
            en = np.zeros(n)
            en[idx[0]] = w[idx[0]]
            er = np.zeros(n)
            er[idx[1:]] = t * w[idx[1:]]
            rnd = np.zeros(n)
            rnd[idx] = rng.normal(size=dim) * w[idx]
            bnds = {"cone-surface": point(kappa, t, mag), "polar-surface": point(-1.0 / kappa, t, mag), "apex": point(0.0, t * 0.0, mag),
                    "axis-positive": point(1.0, t * 0.0, mag), "axis-negative": point(-1.0, t * 0.0, mag)}
            for what, xb in bnds.items():
                for background in (np.zeros(n), bg):
                    for dname, dv in (("normal", en), ("radial", er), ("random", rnd)):
                        self.continuity(xb + background, dv, cname, what)
                    if what in ("cone-surface", "polar-surface"):
                        self.continuity(xb + background, en, cname, what, delta_rel=1e-14)
                self.case("boundary", cname, what)


def worker(c):
    P = core.Part()
    L = drv.Lib("rel")
    L.clear_messages()
    try:
        m, d = cscenes.make(L, c)
        d.forward()
    except drv.MjError as e:
        P.count("model_or_state_rejected")
        P.case(nontrivial=False)
        return P.result()
    name = "%s:%d:%d:c%d" % (c["kind"], c["mseed"], c["sseed"], c.get("cone", 0))
    nefc = d.s("nefc")
    if nefc == 0:
        P.count("skipped_no_constraints")
        P.case(nontrivial=False)
        return P.result()
    rng = np.random.default_rng(c["jseed"])
    rows = cref.rows_from_data(m, d, E)
    J = cref.dense_J(L, m, d)
    witness = {"model": name, "case": {k: v for k, v in c.items() if not k.startswith("_")}, "xml": c.get("_xml")}
    P.count("models")
    P.count("rows", nefc)
    for cls in (cref.QUAD, cref.HUBER, cref.POS, cref.CONE):
        P.count("rows:" + CLASS_NAMES[cls], int((rows.kind == cls).sum()))
    for a, dim, mu in rows.cones:
        P.count("elliptic_contacts:dim%d" % dim)
        if dim >= 3 and float(mu[0]) != float(mu[1]):
            P.count("elliptic_contacts:anisotropic-tangential-friction")
    P.note_max("log10_R_spread", float(np.log10(rows.R.max() / rows.R.min())))
    P.note_max("log10_R_max", float(np.log10(rows.R.max())))
    P.note_max("minus_log10_R_min", float(-np.log10(rows.R.min())))
    if rows.cones:
        P.note_max("minus_log10_min_friction", float(-np.log10(min(float(mu.min()) for _, _, mu in rows.cones))))
    # documented preconditions of the closed-form inverse: D = 1/R and R_j mu_j^2 equal over the friction rows of a contact
    D = np.array(d.arena("efc_D")[:nefc])
    if (np.abs(D * rows.R - 1) > 1e-12).any():
        P.violation("efc_D-is-not-inverse-of-efc_R", dict(witness, row=int(np.argmax(np.abs(D * rows.R - 1)))))
    if rows.coupling_err > 1e-9:
        P.violation("elliptic-R-coupling-violated", dict(witness, err=rows.coupling_err))
    eng = Eng(L, m, d)
    ck = Checker(P, eng, rows, J, name, witness)
    ck.cid_of_row = np.array(d.arena("efc_id")[:nefc])
    ck.run(rng, c["njar"])
    P.count("constraintUpdate_calls", eng.ncall)
    d.free()
    m.free()
    return P.result()


def cases(ctx):
    rng = ctx.rng
    n = ctx.pick(200, 2400)
    cs = []
    for i in range(n):
        kind = ["pile", "contact", "rich", "pile"][i % 4]
        cs.append(dict(kind=kind, mseed=int(rng.integers(0, 2 ** 31)), sseed=int(rng.integers(0, 2 ** 31)), jseed=int(rng.integers(0, 2 ** 31)),
                       steps=int([0, 1, 3, 10, 30][i % 5]), cone=int((i // 2) % 2 if kind != "pile" else (i // 4) % 4 != 0),
                       impratio=float(np.exp(rng.uniform(np.log(0.05), np.log(50)))) if i % 3 else 1.0, njar=50,
                       vel=float([0.3, 1.0, 3.0][i % 3])))
    return cs


def _collect(ctx, cs, res):
    for c, r in zip(cs, res):
        if r is None:
            ctx.inconclusive("worker returned nothing")
        elif "crash" in r:
            ctx.count("worker_crash")
            ctx.inconclusive("worker crashed on %s:%s: %s" % (c["kind"], c["mseed"], r["crash"][-300:]))
        elif "exception" in r:
            ctx.count("harness_exception")
            ctx.inconclusive("harness exception in worker: " + r["exception"] + " " + r.get("trace", "")[-600:])
        else:
            ctx.merge(r)


def run(ctx):
    build.ensure("rel")
    ctx.extra["reference_self_test"] = {k: float(v) for k, v in cref.self_test().items()}
    cs = cases(ctx)
    nb = 4
    for k in range(nb):
        part = cs[k::nb]
        res = par.run("vf.props.c12", "worker", part, nproc=ctx.pick(8, 12), timeout=ctx.pick(300, 900))
        _collect(ctx, part, res)
        if ctx.violations:
            ctx.count("batches_not_run_after_violation", nb - 1 - k)
            break
    rej = ctx.counters.get("model_or_state_rejected", 0) + ctx.counters.get("skipped_no_constraints", 0)
    if rej > 0.5 * len(cs):
        ctx.inconclusive("too many cases without constraints or rejected (%d of %d)" % (rej, len(cs)))
    skipped = ctx.counters.get("fd_stencil_crosses_zone_skipped", 0)
    if skipped > 0.2 * max(1, ctx.counters.get("constraintUpdate_calls", 0)) / 3:
        ctx.inconclusive("too many finite-difference stencils crossed a zone boundary (%d)" % skipped)
    ctx.min_nontrivial = ctx.pick(1500, 20000)


def replay(ctx, path):
    rec = json.load(open(path))
    c = rec["detail"]["case"]
    if rec["detail"].get("xml"):
        c["xml"] = rec["detail"]["xml"]
    ctx.merge(worker(c))
    ctx.min_nontrivial = 1
