"""C24 Rotation and pose utilities implement the group operations."""
import ctypes as C
import itertools
import json
import math

import numpy as np

from .. import build, core, drv, par
from ..mjconst import E
from ..ref import so3

LEVEL = "exploration"
RULE = ("random + grid inputs: rotation angles {0,1e-12,1e-8,1e-4,..,pi-1e-8,pi,pi+1e-8,..,2pi,7} and uniform, random "
        "axes, unit / non-unit / near-zero quaternions, all 216 Euler sequence strings, random poses. Every mju_ "
        "quaternion/pose routine is called through ctypes on the 'rel' build and its result is mapped to a rotation "
        "MATRIX by an independent reference (scipy expm of the skew matrix) and compared there, so quaternion sign and "
        "the axis ambiguity at pi never matter; mjd_subQuat / mjd_quatIntegrate are compared with centred finite "
        "differences of the engine's own mju_subQuat / mju_quatIntegrate under tangent-space (right) perturbations. "
        "distinct = (routine, angle class, input class); non-trivial = angle != 0 or non-identity input")
ASSUMPTIONS = [
    "conversions that take a quaternion are decided on unit quaternions; for non-unit input only the routines that are "
    "documented/implemented to normalise (mju_quatIntegrate, mju_mulPose, mju_mat2Quat output) are checked against the "
    "normalised rotation, and norm < mjMINVAL is expected to give the identity (mju_normalize4)",
    "3x3 quaternion Jacobians are w.r.t. a tangent perturbation applied as q*exp(delta) (the only 3-vector perturbation "
    "of a quaternion the API defines: mju_quatIntegrate) and are laid out D[3*i+j] = d out_i / d in_j",
    "finite differences of mju_subQuat are skipped within 1e-3 of the relative angle pi (the function wraps there, "
    "'when axis-angle is larger than pi, rotation is in the opposite direction')",
    "mju_mat2Rot is an iterative refinement ('refining the input quaternion'): checked only when started within 1 rad "
    "of the answer on matrices with condition number <= 3, to 1e-6",
]

PI = math.pi
ANGLES = [0.0, 1e-12, 1e-8, 1e-4, 0.1, 1.0, PI / 2, PI - 1e-4, PI - 1e-8, PI, PI + 1e-8, PI + 1e-4, 3.5, 5.0,
          2 * PI - 1e-6, 2 * PI, 7.0, -1e-8, -1.0, -PI]
SEQS = ["".join(s) for s in itertools.product("xyzXYZ", repeat=3)]

_P = C.c_void_p
_D = C.c_double
_SIGS = {
    "mju_rotVecQuat": (None, [_P, _P, _P]), "mju_negQuat": (None, [_P, _P]), "mju_mulQuat": (None, [_P, _P, _P]),
    "mju_mulQuatAxis": (None, [_P, _P, _P]), "mju_axisAngle2Quat": (None, [_P, _P, _D]),
    "mju_quat2Vel": (None, [_P, _P, _D]), "mju_subQuat": (None, [_P, _P, _P]), "mju_quat2Mat": (None, [_P, _P]),
    "mju_mat2Quat": (None, [_P, _P]), "mju_quatIntegrate": (None, [_P, _P, _D]), "mju_quatZ2Vec": (None, [_P, _P]),
    "mju_mat2Rot": (C.c_int, [_P, _P]), "mju_mulPose": (None, [_P] * 6), "mju_negPose": (None, [_P] * 4),
    "mju_trnVecPose": (None, [_P] * 4), "mju_euler2Quat": (None, [_P, _P, C.c_char_p]),
    "mjd_subQuat": (None, [_P] * 4), "mjd_quatIntegrate": (None, [_P, _D, _P, _P, _P]),
}


class F:
    """Direct ctypes bindings (pure functions, no error trap needed)."""

    def __init__(self, flavour="rel"):
        self.L = drv.Lib(flavour)
        for name, (res, args) in _SIGS.items():
            f = getattr(self.L.lib, name)
            f.restype = res
            f.argtypes = args
            setattr(self, name[4:] if name.startswith("mju_") else name, f)


def _p(a):
    return a.ctypes.data


def _arr(x):
    return np.ascontiguousarray(x, dtype=np.float64)


# ---------------------------------------------------------------------------------------- wrappers

def quat2Mat(f, q):
    r = np.zeros(9)
    f.quat2Mat(_p(r), _p(q))
    return r.reshape(3, 3)


def mat2Quat(f, R):
    q = np.zeros(4)
    R = _arr(R).reshape(9)
    f.mat2Quat(_p(q), _p(R))
    return q


def mulQuat(f, a, b):
    r = np.zeros(4)
    f.mulQuat(_p(r), _p(a), _p(b))
    return r


def subQuat(f, qa, qb):
    r = np.zeros(3)
    f.subQuat(_p(r), _p(qa), _p(qb))
    return r


def quatIntegrate(f, q, v, h):
    q = q.copy()
    f.quatIntegrate(_p(q), _p(v), float(h))
    return q


# ------------------------------------------------------------------------------------------ inputs

def _unit(rng, n=3):
    while True:
        v = rng.normal(size=n)
        s = np.linalg.norm(v)
        if s > 1e-3:
            return v / s


def _axis(rng):
    r = rng.random()
    if r < 0.15:
        a = np.zeros(3)
        a[int(rng.integers(0, 3))] = rng.choice([-1.0, 1.0])
        return a
    return _unit(rng)


def _angle(rng):
    if rng.random() < 0.6:
        i = int(rng.integers(0, len(ANGLES)))
        return ANGLES[i], "g%d" % i
    a = float(rng.uniform(-2 * PI, 2 * PI))
    return a, "u%d" % int(abs(a) // (PI / 4))


def _quat(rng):
    a, cls = _angle(rng)
    ax = _axis(rng)
    q = so3.qexp(ax * a)
    if rng.random() < 0.5:
        q = -q
    return _arr(q), a, ax, cls


def _maxabs(a):
    return float(np.max(np.abs(a))) if np.size(a) else 0.0


# ------------------------------------------------------------------------------------------ checks

class Chk:
    def __init__(self, P, case):
        self.P = P
        self.case = case

    def near(self, sig, got, want, tol, **detail):
        got = np.asarray(got, dtype=float)
        want = np.asarray(want, dtype=float)
        err = _maxabs(got - want) if np.all(np.isfinite(got)) else float("inf")
        self.P.note_max("err:" + sig.split(":")[0], err / tol if tol else err)
        if not (err <= tol):
            d = {"case": self.case, "got": got, "want": want, "err": err, "tol": tol}
            d.update(detail)
            self.P.violation(sig, d)
            return False
        return True

    def true(self, sig, cond, **detail):
        if not cond:
            d = {"case": self.case}
            d.update(detail)
            self.P.violation(sig, d)
        return cond


def _is_rot(R, tol=1e-13):
    return _maxabs(R @ R.T - np.eye(3)) < tol and abs(np.linalg.det(R) - 1) < tol


def check_conversions(f, rng, K):
    P = K.P
    q, a, ax, cls = _quat(rng)
    Rref = so3.exp_so3(ax * a)
    nontriv = a != 0.0
    # quat -> mat
    R = quat2Mat(f, q)
    K.near("quat2Mat:differs-from-reference-rotation", R, Rref, 1e-12, q=q, angle=a, axis=ax)
    K.true("quat2Mat:not-a-rotation", _is_rot(R, 1e-12), q=q, R=R)
    P.case("quat2Mat|" + cls, nontrivial=nontriv, sample={"fn": "mju_quat2Mat", "q": q, "angle": a})
    # mat -> quat (from the reference matrix), then back to a matrix by the reference
    q2 = mat2Quat(f, Rref)
    K.near("mat2Quat:not-unit", np.linalg.norm(q2), 1.0, 1e-13, R=Rref)
    K.near("mat2Quat:wrong-rotation", so3.quat_to_mat(q2), Rref, 1e-12, R=Rref, q=q2, angle=a, axis=ax)
    # quat -> mat -> quat round trip up to sign
    q3 = mat2Quat(f, R)
    K.true("quat-mat-quat:round-trip-differs", min(_maxabs(q3 - q), _maxabs(q3 + q)) < 1e-7 and
           _maxabs(so3.quat_to_mat(q3) - Rref) < 1e-12, q=q, q_back=q3, angle=a)
    P.case("mat2Quat|" + cls, nontrivial=nontriv)
    # axis-angle -> quat
    qa = np.zeros(4)
    axc = _arr(ax)
    f.axisAngle2Quat(_p(qa), _p(axc), float(a))
    K.near("axisAngle2Quat:not-unit", np.linalg.norm(qa), 1.0, 1e-13, axis=ax, angle=a)
    K.near("axisAngle2Quat:wrong-rotation", so3.quat_to_mat(qa), Rref, 1e-12, axis=ax, angle=a, q=qa)
    if a == 0.0:
        K.true("axisAngle2Quat:zero-angle-not-identity", np.array_equal(qa, [1, 0, 0, 0]), q=qa)
    P.case("axisAngle2Quat|" + cls, nontrivial=nontriv)
    # quat -> velocity (axis-angle / dt)
    dt = float(rng.choice([1.0, 0.5, 0.002, 3.0]))
    v = np.zeros(3)
    f.quat2Vel(_p(v), _p(q), dt)
    K.true("quat2Vel:angle-exceeds-pi", np.linalg.norm(v) * dt <= PI + 1e-12, q=q, v=v, dt=dt)
    K.near("quat2Vel:wrong-rotation", so3.exp_so3(v * dt), Rref, 1e-12, q=q, v=v, dt=dt, angle=a, axis=ax)
    P.case("quat2Vel|" + cls, nontrivial=nontriv)
    # negQuat = inverse rotation
    qn = np.zeros(4)
    f.negQuat(_p(qn), _p(q))
    K.near("negQuat:not-inverse-rotation", so3.quat_to_mat(qn), Rref.T, 1e-12, q=q)
    # rotate vector
    vec = rng.normal(size=3) * float(rng.choice([1.0, 1e-6, 1e3]))
    if rng.random() < 0.05:
        vec = np.zeros(3)
    vec = _arr(vec)
    out = np.zeros(3)
    f.rotVecQuat(_p(out), _p(vec), _p(q))
    sc = max(np.linalg.norm(vec), 1e-300)
    K.near("rotVecQuat:differs-from-matrix-product", out / sc, (Rref @ vec) / sc, 1e-12, q=q, vec=vec, angle=a, axis=ax)
    K.near("rotVecQuat:norm-not-preserved", np.linalg.norm(out) / sc, np.linalg.norm(vec) / sc, 1e-13, q=q, vec=vec)
    P.case("rotVecQuat|" + cls, nontrivial=nontriv and bool(vec.any()))
    # quatZ2Vec
    qz = np.zeros(4)
    tv = vec if rng.random() < 0.7 else _arr(np.array([0, 0, rng.choice([-2.0, 3.0])]) + rng.choice([0.0, 1e-17]) * rng.normal(size=3))
    f.quatZ2Vec(_p(qz), _p(tv))
    nv = np.linalg.norm(tv)
    if nv < E.mjMINVAL:
        K.true("quatZ2Vec:tiny-vector-not-identity", np.array_equal(qz, [1, 0, 0, 0]), vec=tv, q=qz)
    else:
        K.near("quatZ2Vec:not-unit", np.linalg.norm(qz), 1.0, 1e-13, vec=tv)
        K.near("quatZ2Vec:z-axis-not-mapped-to-vector", so3.quat_to_mat(qz) @ np.array([0, 0, 1.0]), tv / nv, 1e-12, vec=tv, q=qz)
    P.case("quatZ2Vec|" + ("tiny" if nv < E.mjMINVAL else "reg"), nontrivial=nv >= E.mjMINVAL)


def check_products(f, rng, K):
    P = K.P
    qa, aa, axa, ca = _quat(rng)
    qb, ab, axb, cb = _quat(rng)
    Ra, Rb = so3.exp_so3(axa * aa), so3.exp_so3(axb * ab)
    qc = mulQuat(f, qa, qb)
    K.near("mulQuat:not-the-matrix-product", so3.quat_to_mat(qc), Ra @ Rb, 1e-12, qa=qa, qb=qb, qc=qc)
    K.near("mulQuat:norm-not-multiplicative", np.linalg.norm(qc), 1.0, 1e-13, qa=qa, qb=qb)
    # non-unit: the Hamilton product itself
    s1, s2 = float(rng.choice([1.0, 0.3, 7.0])), float(rng.choice([1.0, 2.5, 1e-3]))
    qs = mulQuat(f, _arr(qa * s1), _arr(qb * s2))
    K.near("mulQuat:differs-from-hamilton-product", qs / (s1 * s2), so3.qmul(qa, qb), 1e-13, qa=qa * s1, qb=qb * s2)
    # in-place aliasing (res == qa), as used throughout the engine
    qal = qa.copy()
    f.mulQuat(_p(qal), _p(qal), _p(qb))
    K.near("mulQuat:aliased-output-differs", qal, qc, 0.0, qa=qa, qb=qb)
    P.case("mulQuat|%s|%s" % (ca, cb), nontrivial=aa != 0 and ab != 0, sample={"fn": "mju_mulQuat", "qa": qa, "qb": qb})
    # quaternion * axis
    axis = _arr(rng.normal(size=3))
    r = np.zeros(4)
    f.mulQuatAxis(_p(r), _p(qa), _p(axis))
    K.near("mulQuatAxis:differs-from-hamilton-product", r, so3.qmul(qa, np.concatenate([[0.0], axis])), 1e-13, q=qa, axis=axis)
    P.case("mulQuatAxis|" + ca, nontrivial=True)
    # subQuat: qb * quat(res) = qa
    d = subQuat(f, qa, qb)
    K.near("subQuat:qb*exp(res)!=qa", Rb @ so3.exp_so3(d), Ra, 1e-12, qa=qa, qb=qb, res=d)
    K.true("subQuat:angle-exceeds-pi", np.linalg.norm(d) <= PI + 1e-12, qa=qa, qb=qb, res=d)
    P.case("subQuat|%s|%s" % (ca, cb), nontrivial=True)


def check_integrate(f, rng, K):
    P = K.P
    q, a, ax, cls = _quat(rng)
    R0 = so3.exp_so3(ax * a)
    ang, acls = _angle(rng)
    h = float(rng.choice([1.0, 0.002, 0.5, 10.0, 1e-6]))
    if rng.random() < 0.1:
        h = 0.0
    u = _axis(rng)
    v = _arr(u * (ang / h if h else 1.0))
    hv = v * h
    qin = q.copy()
    kind = "unit"
    r = rng.random()
    if r < 0.15:
        qin = _arr(q * float(rng.choice([0.1, 0.5, 2.0, 10.0])))
        kind = "nonunit"
    elif r < 0.2:
        qin = _arr(q * 1e-17)
        kind = "nearzero"
    qo = quatIntegrate(f, qin, v, h)
    K.near("quatIntegrate:result-not-unit", np.linalg.norm(qo), 1.0, 1e-13, q=qin, v=v, h=h)
    Rexp = (np.eye(3) if kind == "nearzero" else R0) @ so3.exp_so3(hv)
    K.near("quatIntegrate:differs-from-R(q)exp(h*v)", so3.quat_to_mat(qo), Rexp, 1e-12, q=qin, v=v, h=h, kind=kind)
    P.case("quatIntegrate|%s|%s|%s" % (cls, acls, kind), nontrivial=bool(hv.any()),
           sample={"fn": "mju_quatIntegrate", "q": qin, "v": v, "h": h})
    # subQuat inverts quatIntegrate
    if kind == "unit":
        d = subQuat(f, qo, q)
        n = np.linalg.norm(hv)
        if n < PI - 1e-6:
            K.near("subQuat(quatIntegrate(q,v,h),q)!=h*v", d, hv, 1e-13,
                   q=q, v=v, h=h, hv=hv)
            P.case("sub-integrate|%s" % acls, nontrivial=n > 0)
        else:
            # beyond pi the difference is the same rotation taken the short way round
            K.near("subQuat(quatIntegrate)-rotation-differs", so3.exp_so3(d), so3.exp_so3(hv), 1e-12, q=q, v=v, h=h)
            P.case("sub-integrate-wrapped|%s" % acls, nontrivial=True)


def check_euler(f, rng, K, seq=None):
    P = K.P
    seq = seq or SEQS[int(rng.integers(0, len(SEQS)))]
    e = np.array([_angle(rng)[0] for _ in range(3)])
    if rng.random() < 0.5:
        e = rng.uniform(-PI, PI, size=3)
    e = _arr(e)
    q = np.zeros(4)
    f.euler2Quat(_p(q), _p(e), seq.encode())
    K.near("euler2Quat:not-unit", np.linalg.norm(q), 1.0, 1e-13, euler=e, seq=seq)
    K.near("euler2Quat:differs-from-sequence-of-axis-rotations", so3.quat_to_mat(q), so3.euler_mat(e, seq), 1e-12,
           euler=e, seq=seq, q=q)
    distinct_axes = len(set(seq.lower())) > 1
    P.case("euler2Quat|" + seq, nontrivial=bool(np.count_nonzero(e) >= 2) and distinct_axes,
           sample={"fn": "mju_euler2Quat", "euler": e, "seq": seq})


def check_pose(f, rng, K):
    P = K.P
    q1, a1, ax1, c1 = _quat(rng)
    q2, a2, ax2, c2 = _quat(rng)
    p1, p2 = _arr(rng.normal(size=3) * rng.choice([1.0, 100.0])), _arr(rng.normal(size=3))
    T1, T2 = np.eye(4), np.eye(4)
    T1[:3, :3], T1[:3, 3] = so3.exp_so3(ax1 * a1), p1
    T2[:3, :3], T2[:3, 3] = so3.exp_so3(ax2 * a2), p2
    sc = 1 + np.linalg.norm(p1) + np.linalg.norm(p2)
    pr, qr = np.zeros(3), np.zeros(4)
    f.mulPose(_p(pr), _p(qr), _p(p1), _p(q1), _p(p2), _p(q2))
    K.near("mulPose:differs-from-homogeneous-product", so3.pose_mat(pr, qr), T1 @ T2, 1e-12 * sc, p1=p1, q1=q1, p2=p2, q2=q2)
    K.near("mulPose:quat-not-unit", np.linalg.norm(qr), 1.0, 1e-13, q1=q1, q2=q2)
    pn, qn = np.zeros(3), np.zeros(4)
    f.negPose(_p(pn), _p(qn), _p(p1), _p(q1))
    K.near("negPose:not-the-inverse-transform", so3.pose_mat(pn, qn), np.linalg.inv(T1), 1e-12 * sc, p=p1, q=q1)
    pi_, qi = np.zeros(3), np.zeros(4)
    f.mulPose(_p(pi_), _p(qi), _p(p1), _p(q1), _p(pn), _p(qn))
    K.near("mulPose(pose,negPose(pose))!=identity", so3.pose_mat(pi_, qi), np.eye(4), 1e-12 * sc, p=p1, q=q1)
    f.mulPose(_p(pi_), _p(qi), _p(pn), _p(qn), _p(p1), _p(q1))
    K.near("mulPose(negPose(pose),pose)!=identity", so3.pose_mat(pi_, qi), np.eye(4), 1e-12 * sc, p=p1, q=q1)
    vec = _arr(rng.normal(size=3))
    out = np.zeros(3)
    f.trnVecPose(_p(out), _p(p1), _p(q1), _p(vec))
    K.near("trnVecPose:differs-from-homogeneous-transform", out, (T1 @ np.append(vec, 1.0))[:3], 1e-12 * sc, p=p1, q=q1, vec=vec)
    back = np.zeros(3)
    f.trnVecPose(_p(back), _p(pn), _p(qn), _p(out))
    K.near("trnVecPose:negPose-does-not-undo", back, vec, 1e-11 * sc, p=p1, q=q1, vec=vec)
    P.case("pose|%s|%s" % (c1, c2), nontrivial=a1 != 0, sample={"fn": "mju_mulPose", "p1": p1, "q1": q1})


def check_mat2rot(f, rng, K):
    P = K.P
    q, a, ax, cls = _quat(rng)
    R = so3.exp_so3(ax * a)
    # well-conditioned stretch, start within 1 rad
    A = rng.normal(size=(3, 3))
    S = A @ A.T
    w, V = np.linalg.eigh(S)
    S = V @ np.diag(1.0 + 2.0 * (w - w.min()) / max(w.max() - w.min(), 1e-9)) @ V.T   # eigenvalues in [1,3]
    M = _arr((R @ S).reshape(9))
    q0 = _arr(so3.qmul(so3.qexp(_unit(rng) * rng.uniform(0, 1.0)), so3.qmul(so3.qexp(ax * a), [1, 0, 0, 0])))
    it = f.mat2Rot(_p(q0), _p(M))
    if it >= 500:
        P.count("mat2rot_no_convergence")
        P.case(nontrivial=False)
        return
    K.near("mat2Rot:not-the-polar-rotation", so3.quat_to_mat(q0), so3.polar_rotation(M.reshape(3, 3)), 1e-6, M=M, q=q0, iters=it)
    P.case("mat2Rot|" + cls, nontrivial=True)


def _fd_subquat(f, qa, qb, eps):
    Da, Db = np.zeros((3, 3)), np.zeros((3, 3))
    for j in range(3):
        d = np.zeros(3)
        d[j] = eps
        qp, qm = _arr(so3.qmul(qa, so3.qexp(d))), _arr(so3.qmul(qa, so3.qexp(-d)))
        Da[:, j] = (subQuat(f, qp, qb) - subQuat(f, qm, qb)) / (2 * eps)
        qp, qm = _arr(so3.qmul(qb, so3.qexp(d))), _arr(so3.qmul(qb, so3.qexp(-d)))
        Db[:, j] = (subQuat(f, qa, qp) - subQuat(f, qa, qm)) / (2 * eps)
    return Da, Db


def check_d_subquat(f, rng, K):
    P = K.P
    qb, ab, axb, cb = _quat(rng)
    ang, acls = _angle(rng)
    ang = math.copysign(min(abs(ang), 2 * PI - abs(ang)) if abs(ang) <= 2 * PI else abs(ang) % PI, 1.0)
    u = _axis(rng)
    qa = _arr(so3.qmul(qb, so3.qexp(u * ang)))
    if abs(abs(ang) - PI) < 1e-3:
        P.count("skipped_dsubquat_near_pi")
        P.case(nontrivial=False)
        return
    Da, Db = np.zeros(9), np.zeros(9)
    f.mjd_subQuat(_p(qa), _p(qb), _p(Da), _p(Db))
    eps = 1e-6
    Fa, Fb = _fd_subquat(f, qa, qb, eps)
    # D grows like (angle/2)/tan(angle/2) near pi: scale tolerance with the magnitude of D and its curvature
    scale = 1.0 + _maxabs(Fa)
    tol = 2e-7 * scale / max((PI - abs(ang)), 1e-3) ** 2 * 1e-3 + 2e-8 * scale
    K.near("mjd_subQuat:Da-differs-from-finite-difference", Da.reshape(3, 3), Fa, tol, qa=qa, qb=qb, angle=ang)
    K.near("mjd_subQuat:Db-differs-from-finite-difference", Db.reshape(3, 3), Fb, tol, qa=qa, qb=qb, angle=ang)
    # nullable outputs
    Da2 = np.zeros(9)
    f.mjd_subQuat(_p(qa), _p(qb), _p(Da2), None)
    Db2 = np.zeros(9)
    f.mjd_subQuat(_p(qa), _p(qb), None, _p(Db2))
    K.true("mjd_subQuat:nullable-output-changes-result", np.array_equal(Da, Da2) and np.array_equal(Db, Db2), qa=qa, qb=qb)
    P.case("mjd_subQuat|" + acls, nontrivial=True, sample={"fn": "mjd_subQuat", "qa": qa, "qb": qb, "angle": ang})


def check_d_integrate(f, rng, K):
    P = K.P
    q, a, ax, cls = _quat(rng)
    n = float(rng.choice([0.0, 1e-9, 1e-5, 1e-2, 1.0 / 32 - 1e-4, 1.0 / 32 + 1e-4, 0.5, 1.0, 2.5]))
    if rng.random() < 0.3:
        n = float(rng.uniform(0, 3.0))
    h = float(rng.choice([1.0, 0.5, 0.01, 2.0, 4.0]))
    v = _arr(_axis(rng) * n / h)
    Dq, Dv, Dh = np.zeros(9), np.zeros(9), np.zeros(3)
    f.mjd_quatIntegrate(_p(v), h, _p(Dq), _p(Dv), _p(Dh))
    y = quatIntegrate(f, q, v, h)
    eps = 1e-6
    Fq, Fv = np.zeros((3, 3)), np.zeros((3, 3))
    for j in range(3):
        d = np.zeros(3)
        d[j] = eps
        yp = quatIntegrate(f, _arr(so3.qmul(q, so3.qexp(d))), v, h)
        ym = quatIntegrate(f, _arr(so3.qmul(q, so3.qexp(-d))), v, h)
        Fq[:, j] = (subQuat(f, yp, y) - subQuat(f, ym, y)) / (2 * eps)
        yp = quatIntegrate(f, q, _arr(v + d), h)
        ym = quatIntegrate(f, q, _arr(v - d), h)
        Fv[:, j] = (subQuat(f, yp, y) - subQuat(f, ym, y)) / (2 * eps)
    Fh = (subQuat(f, quatIntegrate(f, q, v, h + eps), y) - subQuat(f, quatIntegrate(f, q, v, h - eps), y)) / (2 * eps)
    vn = float(np.linalg.norm(v))
    K.near("mjd_quatIntegrate:Dquat-differs-from-finite-difference", Dq.reshape(3, 3), Fq, 1e-8, q=q, v=v, h=h)
    tolv = 1e-8 * (1 + h) + 1e-9 * h * h * (1 + vn)
    errv = _maxabs(Dv.reshape(3, 3) - Fv)
    P.note_max("err:mjd_quatIntegrate.Dvel", errv / tolv)
    if not errv <= tolv:
        wit = {"case": K.case, "q": q, "v": v, "h": h, "Dvel": Dv.reshape(3, 3), "fd_wrt_vel": Fv, "err": errv, "tol": tolv}
        if _maxabs(h * Dv.reshape(3, 3) - Fv) <= tolv:
            # the returned matrix is d q / d (scale*vel): the documented D_v = dq/dv needs a factor `scale`
            P.violation("mjd_quatIntegrate:Dvel-is-derivative-wrt-scale*vel-not-vel(missing-factor-scale)", wit)
        else:
            P.violation("mjd_quatIntegrate:Dvel-differs-from-finite-difference", wit)
    K.near("mjd_quatIntegrate:Dscale-differs-from-finite-difference", Dh, Fh, 1e-8 * (1 + vn) + 1e-9 * vn * vn * (1 + vn), q=q, v=v, h=h)
    P.case("mjd_quatIntegrate|n=%.3g|h=%g" % (n if n in (0.0, 1e-9, 1e-5, 1e-2, 0.5, 1.0, 2.5) else round(n, 1), h), nontrivial=n > 0,
           sample={"fn": "mjd_quatIntegrate", "v": v, "h": h})


CHECKS = [("conv", check_conversions, 4), ("prod", check_products, 3), ("integ", check_integrate, 3), ("euler", check_euler, 3),
          ("pose", check_pose, 2), ("mat2rot", check_mat2rot, 1), ("dsub", check_d_subquat, 2), ("dint", check_d_integrate, 2)]
_BY = {n: fn for n, fn, w in CHECKS}


def _names():
    return [n for n, fn, w in CHECKS for _ in range(w)]


def run_one(f, P, seed, i, only=None):
    rng = np.random.default_rng([seed, i])
    names = _names()
    j = int(rng.integers(0, len(names)))      # always drawn, so that replay sees the same stream
    name = only or names[j]
    _BY[name](f, rng, Chk(P, {"kind": "one", "seed": seed, "i": i, "only": name}))
    P.count("calls_" + name)


def worker(c):
    P = core.Part()
    f = F("rel")
    if c.get("kind") == "euler_all":
        rng = np.random.default_rng(c["seed"])
        for seq in SEQS:
            for _ in range(c["n"]):
                check_euler(f, rng, Chk(P, dict(c)), seq=seq)
        P.count("calls_euler", len(SEQS) * c["n"])
        return P.result()
    if c.get("kind") == "one":
        run_one(f, P, c["seed"], c["i"], c.get("only"))
        return P.result()
    for i in range(c["n"]):
        run_one(f, P, c["seed"], i, c.get("only"))
    return P.result()


def run(ctx):
    build.ensure("rel")
    so3.selftest()
    total = ctx.pick(20000, 400000)
    per = ctx.pick(1250, 12500)           # few large cases: process start-up dominates otherwise
    cs = [{"kind": "mix", "seed": int(ctx.rng.integers(0, 2 ** 31)), "n": per} for _ in range(total // per)]
    cs += [{"kind": "euler_all", "seed": int(ctx.rng.integers(0, 2 ** 31)), "n": ctx.pick(2, 8)} for _ in range(ctx.pick(2, 8))]
    res = par.run("vf.props.c24", "worker", cs, nproc=16, timeout=ctx.pick(300, 1500))
    for c, r in zip(cs, res):
        if r is None:
            ctx.inconclusive("worker returned nothing")
        elif "crash" in r:
            ctx.count("worker_crash")
            ctx.inconclusive("worker crashed: " + str(r.get("rc")) + " " + r["crash"][-300:])
        elif "exception" in r:
            ctx.count("harness_exception")
            ctx.inconclusive("harness exception in worker: " + r["exception"] + r.get("trace", "")[-600:])
        else:
            ctx.merge(r)
    nsk = ctx.counters.get("skipped_dsubquat_near_pi", 0) + ctx.counters.get("mat2rot_no_convergence", 0)
    if nsk > 0.1 * max(1, ctx.evaluations):
        ctx.inconclusive("too many skipped cases: %d" % nsk)
    ctx.extra["euler_sequences_covered"] = len([k for k in ctx.distinct if k.startswith("euler2Quat|")])
    # 24 of the 216 strings use one axis letter three times; they are exercised but can never be non-trivial by the rule
    if ctx.extra["euler_sequences_covered"] < 192:
        ctx.inconclusive("not every Euler sequence string was exercised non-trivially")
    ctx.min_nontrivial = ctx.pick(2000, 3000)


def replay(ctx, path):
    rec = json.load(open(path))
    c = rec["detail"]["case"]
    ctx.merge(worker(c))
    ctx.case("replay", sample=c)
    ctx.min_nontrivial = 1
