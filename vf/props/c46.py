"""C46 Bounded least squares respects bounds and never gets worse (python/mujoco/minimize.py)."""
import io
import json
import math
import re

import numpy as np

from .. import core, par

LEVEL = "exploration"
RULE = ("hypothesis-generated problems (seeded from VERIF_SEED, database off): residual family {linear full-rank, linear "
        "rank-deficient, quadratic, Rosenbrock-like chain, exp-sum} x dimension 1..8 x bounds {none, normal, tight "
        "(4..64 finite-difference steps wide), wide (1e6..1e9, stands in for one-sided), mixed per coordinate} x start "
        "point per coordinate {inside, on a bound, 1 ulp inside a bound, outside} x x_scale {None, scalar, vector over 6 "
        "decades, 'jac'} x {finite-difference, analytic Jacobian} x eps {default, 1e-6, 1e-4}. The user's residual is "
        "wrapped in a recording proxy (every column of every call is compared with the box); icontract post-conditions "
        "on least_squares and jacobian_fd decide the clauses. distinct = (family, n, bounds mode, x_scale kind, jacobian "
        "kind, start classes, active-set size at the solution); non-trivial = bounds given and >= 1 Jacobian evaluated")
ASSUMPTIONS = [
    "the compiled mujoco.mju_boxQP of the installed wheel is a dependency of minimize.py, not the code under test",
    "bounds must be finite in this tree (least_squares raises ValueError('bounds must be finite')), so one-sided/infinite "
    "boxes are represented by very wide finite ones",
    "precondition of the statement: every box side is at least 4 finite-difference steps eps*max(1,|bound|) wide",
    "objective comparisons between the harness's numpy evaluation and the solver's own arithmetic tolerate "
    "8*(m+2) ulps of the larger objective; the solver-reported trace is compared exactly",
    "global-minimum clause only for full-column-rank linear residuals (singular values in [0.5,5]) when the solver "
    "reports convergence (norm(gradient) < tol or norm(dx) < tol); reference = scipy.optimize.lsq_linear(bvls) whose "
    "KKT conditions are re-verified in numpy, gap tolerance 1e-8*(obj(clip(x0))+obj*)",
    "a case whose residual returned a non-finite value (exp overflow far outside any box) is only judged on the bounds clauses",
]

FAMILIES = ["linear", "linear_deficient", "quadratic", "rosenbrock", "expsum"]
EPS0 = float(np.finfo(np.float64).eps ** 0.5)


# ------------------------------------------------------------------------------------------------------------------
# contract violation classes (explicit error= of every contract)
class ContractViolation(AssertionError):
    signature = "contract"


class ResidualCalledOutsideBounds(ContractViolation):
    signature = "residual-arg-outside-bounds"


class FiniteDifferenceProbeOutsideBounds(ContractViolation):
    signature = "fd-probe-outside-bounds"


class ReturnedPointOutsideBounds(ContractViolation):
    signature = "returned-x-outside-bounds"


class ObjectiveWorseThanClippedStart(ContractViolation):
    signature = "objective-worse-than-clipped-start"


class TraceObjectiveIncreased(ContractViolation):
    signature = "trace-objective-increased"


class TraceInconsistent(ContractViolation):
    signature = "trace-inconsistent-with-candidates"


class LinearOptimumMissed(ContractViolation):
    signature = "linear-bounded-optimum-missed"


# ------------------------------------------------------------------------------------------------------------------
class RecordingProxy:
    """The boundary of the system under test: what the solver does to the user's residual."""

    def __init__(self, fn, lo, hi):
        self.fn = fn
        self.lo = None if lo is None else np.asarray(lo, float).reshape(-1, 1).copy()
        self.hi = None if hi is None else np.asarray(hi, float).reshape(-1, 1).copy()
        self.calls = 0
        self.columns = 0
        self.in_fd = 0
        self.fd_columns = 0
        self.outside = []          # dicts: context, column values, excess, magnitude
        self.nonfinite_arg = 0
        self.nonfinite_out = 0
        self.on_bound_columns = 0
        self.max_excess_ulps = 0.0
        self.seen_abs = None       # per coordinate: largest |value| the solver has asked for so far
        self.point = None          # the last single point asked for outside jacobian_fd (the iterate being differenced)

    def mark(self):
        return self.own_fd_outside()

    def own_fd_outside(self):
        return sum(1 for o in self.outside if o["context"] == "fd")

    def __call__(self, x):
        xa = np.array(x, dtype=np.float64, copy=True)
        if xa.ndim == 1:
            xa = xa.reshape(-1, 1)
        ctx = "fd" if self.in_fd else ("initial" if self.calls == 0 else "candidate")
        if not self.in_fd and xa.shape[1] == 1:
            self.point = xa.copy()
        self.calls += 1
        self.columns += xa.shape[1]
        if self.in_fd:
            self.fd_columns += xa.shape[1]
        if not np.all(np.isfinite(xa)):
            self.nonfinite_arg += 1
        prev_abs = self.seen_abs
        cur = np.max(np.abs(xa), axis=1, keepdims=True)
        self.seen_abs = cur if prev_abs is None else np.maximum(prev_abs, cur)
        if self.lo is not None:
            below = self.lo - xa
            above = xa - self.hi
            exc = np.maximum(below, above)
            self.on_bound_columns += int(np.any((xa == self.lo) | (xa == self.hi), axis=0).sum())
            bad = exc > 0
            if np.any(bad):
                for c in np.nonzero(np.any(bad, axis=0))[0][:4]:
                    i = int(np.argmax(exc[:, c]))
                    e = float(exc[i, c])
                    # rounding scale of x + D*dx: the violated bound and the iterates this coordinate came from
                    bnd = float(self.lo[i, 0]) if below[i, c] > 0 else float(self.hi[i, 0])
                    ref = max(abs(bnd), float(prev_abs[i, 0]) if prev_abs is not None else 0.0, np.finfo(float).tiny)
                    ulps = e / float(np.spacing(ref))
                    self.max_excess_ulps = max(self.max_excess_ulps, ulps)
                    cx = ctx
                    if ctx == "fd" and self.point is not None and self.point.shape[0] == xa.shape[0] \
                            and (self.point[i, 0] < self.lo[i, 0] or self.point[i, 0] > self.hi[i, 0]):
                        cx = "fd-inherited"      # the iterate being differenced was already outside in this coordinate
                    self.outside.append({"context": cx, "call": self.calls - 1, "column": int(c), "coordinate": i,
                                         "value": float(xa[i, c]), "lo": float(self.lo[i, 0]), "hi": float(self.hi[i, 0]),
                                         "excess": e, "excess_ulps": ulps, "magnitude": "rounding" if ulps <= 8 else "gross"})
        r = self.fn(xa)
        if not np.all(np.isfinite(r)):
            self.nonfinite_out += 1
        return r


class Monitor:
    def __init__(self):
        self.evals = {}
        self.last = None
        self.extra = {}

    def hit(self, name):
        self.evals[name] = self.evals.get(name, 0) + 1


MON = Monitor()


def _objective(fn, x):
    r = np.asarray(fn(np.asarray(x, float).reshape(-1, 1)), float)
    return 0.5 * float(np.sum(r * r)), r.size


def _tol(m, *objs):
    return 8.0 * (m + 2) * np.finfo(float).eps * max([abs(o) for o in objs] + [np.finfo(float).tiny])


# ---- named condition functions (icontract resolves their parameters by name) -------------------------------------
def residual_called_only_inside_bounds(residual):
    MON.hit("residual_called_only_inside_bounds")
    return len(residual.outside) == 0


def fd_probes_inside_bounds(residual, OLD):
    MON.hit("fd_probes_inside_bounds")
    return residual.own_fd_outside() == OLD.mark


def fd_jacobian_shape_and_count(result, x, r, n_res):
    MON.hit("fd_jacobian_shape_and_count")
    jac, n_new = result
    return jac.shape == (r.shape[0], x.size) and n_new == n_res + x.size


def returned_x_within_bounds(result, bounds, x0):
    MON.hit("returned_x_within_bounds")
    x = np.asarray(result[0], float)
    if x.shape != np.asarray(x0).shape or not np.all(np.isfinite(x)):
        return False
    if bounds is None:
        return True
    return bool(np.all(x.ravel() >= np.asarray(bounds[0]).ravel()) and np.all(x.ravel() <= np.asarray(bounds[1]).ravel()))


def objective_not_worse_than_clipped_start(result, x0, residual, bounds):
    MON.hit("objective_not_worse_than_clipped_start")
    xs = np.asarray(x0, float).ravel()
    if bounds is not None:
        xs = np.clip(xs, np.asarray(bounds[0]).ravel(), np.asarray(bounds[1]).ravel())
    f0, m = _objective(residual.fn, xs)
    f1, _ = _objective(residual.fn, np.asarray(result[0], float).ravel())
    MON.extra["obj0"], MON.extra["obj1"] = f0, f1
    if not (math.isfinite(f0) and math.isfinite(f1)):
        MON.extra["nonfinite_objective"] = True
        return True
    return f1 <= f0 + _tol(m, f0, f1)


def trace_objective_non_increasing(result):
    MON.hit("trace_objective_non_increasing")
    objs = [float(t.objective) for t in result[1]]
    MON.extra["trace_len"] = len(objs)
    if not all(math.isfinite(o) for o in objs):
        MON.extra["nonfinite_objective"] = True
        return True
    return all(b <= a for a, b in zip(objs, objs[1:]))


def trace_matches_candidates(result, residual):
    MON.hit("trace_matches_candidates")
    x, trace = result
    if len(trace) == 0:
        return False
    if not np.array_equal(np.asarray(trace[-1].candidate).ravel(), np.asarray(x).ravel()):
        return False
    for t in trace:
        f, m = _objective(residual.fn, np.asarray(t.candidate, float).ravel())
        o = float(t.objective)
        if not (math.isfinite(f) and math.isfinite(o)):
            continue
        if abs(f - o) > _tol(m, f, o):
            return False
    return True


def linear_bounded_optimum_reached(result, residual, bounds, x0):
    MON.hit("linear_bounded_optimum_reached")
    ref = MON.extra.get("linear_ref")
    if ref is None or not MON.extra.get("converged"):
        return True
    f1, m = _objective(residual.fn, np.asarray(result[0], float).ravel())
    f0 = max(MON.extra.get("obj0", f1), MON.extra.get("restart_obj0", 0.0))    # the problem's scale: objective at the original start
    MON.extra["gap"] = f1 - ref
    return f1 <= ref + 1e-8 * (abs(f0) + abs(ref)) + _tol(m, f0, ref)


LS_CLAUSES = [
    (residual_called_only_inside_bounds, ResidualCalledOutsideBounds),
    (returned_x_within_bounds, ReturnedPointOutsideBounds),
    (objective_not_worse_than_clipped_start, ObjectiveWorseThanClippedStart),
    (trace_objective_non_increasing, TraceObjectiveIncreased),
    (trace_matches_candidates, TraceInconsistent),
    (linear_bounded_optimum_reached, LinearOptimumMissed),
]

_INSTR = {}


def _instrument():
    """Wrap the repository's minimize.least_squares / jacobian_fd with icontract contracts (once per process)."""
    if _INSTR:
        return _INSTR
    import icontract
    from .. import pyrepo
    mz = pyrepo.load("mujoco.minimize")
    orig_fd = mz.jacobian_fd
    orig_ls = mz.least_squares

    def jacobian_fd(residual, x, r, eps, n_res, bounds=None):
        proxied = isinstance(residual, RecordingProxy)
        if proxied:
            residual.in_fd += 1
        try:
            return orig_fd(residual, x, r, eps, n_res, bounds)
        finally:
            if proxied:
                residual.in_fd -= 1

    fd = icontract.ensure(fd_jacobian_shape_and_count, error=TraceInconsistent)(jacobian_fd)
    fd = icontract.ensure(fd_probes_inside_bounds, error=FiniteDifferenceProbeOutsideBounds)(fd)
    fd = icontract.snapshot(lambda residual: residual.mark() if isinstance(residual, RecordingProxy) else 0, name="mark")(fd)

    def guarded_fd(residual, x, r, eps, n_res, bounds=None):
        # the solver must keep running after a probe left the box: the proxy has recorded it, the least_squares
        # post-condition reports it; the jacobian_fd contract only tags the mechanism.
        if not isinstance(residual, RecordingProxy):
            return orig_fd(residual, x, r, eps, n_res, bounds)
        try:
            return fd(residual, x, r, eps, n_res, bounds)
        except FiniteDifferenceProbeOutsideBounds:
            MON.extra["fd_contract_failed"] = True
            return jacobian_fd(residual, x, r, eps, n_res, bounds)

    mz.jacobian_fd = guarded_fd

    def least_squares(x0, residual, bounds=None, jacobian=None, eps=EPS0, x_scale=None, max_iter=100, output=None):
        res = orig_ls(x0, residual, bounds=bounds, jacobian=jacobian, eps=eps, x_scale=x_scale, max_iter=max_iter,
                      verbose=mz.Verbosity.FINAL, output=output)
        MON.last = res
        text = output.getvalue() if output is not None else ""
        mm = re.search(r"Terminated after (\d+) iterations: (.*?) y:", text)
        MON.extra["status"] = mm.group(2) if mm else "?"
        MON.extra["converged"] = bool(mm and mm.group(2) in ("norm(dx) < tol.", "norm(gradient) < tol."))
        return res

    ls = least_squares
    for cond, err in LS_CLAUSES:                # icontract evaluates stacked post-conditions in order of application
        ls = icontract.ensure(cond, error=err)(ls)
    _INSTR.update(mz=mz, ls=ls, raw_ls=orig_ls)
    return _INSTR


# ------------------------------------------------------------------------------------------------------------------
# problems
def problem_specs():
    from hypothesis import strategies as st

    unit = st.floats(min_value=0.0, max_value=1.0, allow_nan=False)

    @st.composite
    def spec(draw):
        n = draw(st.integers(1, 8))
        fam = draw(st.sampled_from(FAMILIES))
        bmode = draw(st.sampled_from(["none", "normal", "tight", "wide", "mixed", "mixed"]))
        s = {
            "family": fam, "n": n, "extra": draw(st.integers(0, 4)), "dseed": draw(st.integers(0, 2 ** 32 - 1)),
            "bmode": bmode,
            "bkind": [draw(st.sampled_from(["normal", "tight", "wide", "onesided_lo", "onesided_hi"])) for _ in range(n)],
            "start": [draw(st.sampled_from(["inside", "inside", "on_lo", "on_hi", "ulp_lo", "ulp_hi", "out_lo", "out_hi"]))
                      for _ in range(n)],
            "u": [draw(unit) for _ in range(n)],
            "xscale": draw(st.sampled_from(["none", "scalar", "vector", "jac"])),
            "jac": draw(st.sampled_from(["fd", "fd", "user"])),
            "eps": draw(st.sampled_from(["default", "default", "1e-6", "1e-4"])),
            "active": draw(st.booleans()),
        }
        if draw(st.integers(0, 3 if fam == "linear_deficient" else 9)) == 0:
            s["restart"] = True
        return s

    return spec()


def build_problem(s):
    """spec -> dict(fn, jac, x0, bounds, x_scale, eps, linear=(A,b)|None). Deterministic in the spec."""
    n = s["n"]
    rng = np.random.default_rng([int(s["dseed"]), 46])
    fam = s["family"]
    eps = {"default": EPS0, "1e-6": 1e-6, "1e-4": 1e-4}[s["eps"]]
    xt = rng.uniform(-2, 2, n)                       # where the unconstrained problem likes to be
    # ---- residual family
    lin = None
    if fam in ("linear", "linear_deficient"):
        m = n + s["extra"]
        U, _ = np.linalg.qr(rng.standard_normal((m, m)))
        V, _ = np.linalg.qr(rng.standard_normal((n, n)))
        sv = rng.uniform(0.5, 5.0, n)
        if fam == "linear_deficient" and n > 1:
            sv[rng.integers(0, n)] = 0.0
            if n > 3 and rng.random() < 0.5:
                sv[rng.integers(0, n)] = 0.0
        A = (U[:, :n] * sv) @ V.T
        b = A @ xt + 0.3 * rng.standard_normal(m)
        lin = (A, b, bool(np.all(sv > 0)))

        def fn(x, A=A, b=b):
            return A @ x - b[:, None]

        def jac(x, r, A=A):
            return A.copy()
    elif fam == "quadratic":
        k = max(1, s["extra"])
        B = rng.standard_normal((k, n))
        a = rng.uniform(0.3, 2.0, n)
        c = a * xt * xt + 0.2 * rng.standard_normal(n)
        d = B @ xt + 0.2 * rng.standard_normal(k)

        def fn(x, B=B, a=a, c=c, d=d):
            return np.vstack([a[:, None] * x * x - c[:, None], B @ x - d[:, None]])

        def jac(x, r, B=B, a=a):
            return np.vstack([np.diag(2 * a * x.ravel()), B])
    elif fam == "rosenbrock":
        w = float(rng.choice([1.0, 3.0, 10.0]))
        sh = rng.uniform(0.5, 1.5, n)

        def fn(x, w=w, sh=sh):
            if x.shape[0] == 1:
                return np.vstack([w * (x[0] ** 2 - sh[0]), 1 - x[0]])
            return np.vstack([w * (x[1:] - x[:-1] ** 2), sh[:-1, None] - x[:-1]])

        def jac(x, r, w=w):
            x = x.ravel()
            nn = x.size
            if nn == 1:
                return np.array([[2 * w * x[0]], [-1.0]])
            J = np.zeros((2 * (nn - 1), nn))
            for i in range(nn - 1):
                J[i, i] = -2 * w * x[i]
                J[i, i + 1] = w
                J[nn - 1 + i, i] = -1.0
            return J
    else:  # expsum
        m = n + max(1, s["extra"])
        Aw = rng.uniform(-1, 1, (m, n))
        K = rng.uniform(-1, 1, (m, n))
        bb = np.sum(Aw * np.exp(K * xt[None, :]), axis=1) + 0.1 * rng.standard_normal(m)

        def fn(x, Aw=Aw, K=K, bb=bb):
            with np.errstate(over="ignore", invalid="ignore"):
                return np.einsum("ji,jik->jk", Aw, np.exp(K[:, :, None] * x[None, :, :])) - bb[:, None]

        def jac(x, r, Aw=Aw, K=K):
            with np.errstate(over="ignore", invalid="ignore"):
                return Aw * K * np.exp(K * x.ravel()[None, :])
    # ---- bounds
    tame = fam == "expsum"      # keep exp() finite: no very wide boxes / far-away starts for this family
    bounds = None
    lo = hi = None
    if s["bmode"] != "none":
        lo = np.empty(n)
        hi = np.empty(n)
        for i in range(n):
            kind = s["bkind"][i] if s["bmode"] == "mixed" else s["bmode"]
            if tame and kind in ("wide", "onesided_lo", "onesided_hi"):
                kind = "normal"
            # an "active" box is placed away from where the residual wants to be
            cen = xt[i] + (rng.choice([-1, 1]) * rng.uniform(0.5, 3.0) if s["active"] and rng.random() < 0.6 else rng.uniform(-0.3, 0.3))
            if kind == "normal":
                w = 10 ** rng.uniform(-1.5, 1)
                lo[i], hi[i] = cen - w / 2, cen + w / 2
            elif kind == "tight":
                if rng.random() < 0.3:
                    cen *= 10 ** rng.uniform(0, 3)       # large |x|: the step scales with max(1,|x|)
                k = rng.uniform(4, 64)
                lo[i] = cen
                hi[i] = cen + k * eps * max(1.0, abs(cen) * (1 + 1e-6) + 1e-3)
            elif kind == "wide":
                w = 10 ** rng.uniform(6, 9)
                lo[i], hi[i] = -w, w * rng.uniform(0.5, 1.5)
            elif kind == "onesided_lo":
                lo[i], hi[i] = cen - 10 ** rng.uniform(-1, 0.5), 10 ** rng.uniform(6, 9)
            else:
                lo[i], hi[i] = -10 ** rng.uniform(6, 9), cen + 10 ** rng.uniform(-1, 0.5)
        # honour the statement's precondition with the realised endpoints
        for i in range(n):
            need = 4 * eps * max(1.0, abs(lo[i]), abs(hi[i]))
            if hi[i] - lo[i] < need:
                hi[i] = lo[i] + need
        bounds = [lo.copy(), hi.copy()]
    # ---- start
    x0 = np.empty(n)
    for i in range(n):
        a_, b_ = (lo[i], hi[i]) if bounds is not None else (xt[i] - 2, xt[i] + 2)
        if abs(a_) > 1e5:
            a_ = (b_ if abs(b_) < 1e5 else 0.0) - 3
        if abs(b_) > 1e5:
            b_ = a_ + 6
        kind = s["start"][i]
        u = s["u"][i]
        if kind == "inside" or bounds is None:
            x0[i] = a_ + u * (b_ - a_)
        elif kind == "on_lo":
            x0[i] = lo[i]
        elif kind == "on_hi":
            x0[i] = hi[i]
        elif kind == "ulp_lo":
            x0[i] = np.nextafter(lo[i], np.inf)
        elif kind == "ulp_hi":
            x0[i] = np.nextafter(hi[i], -np.inf)
        elif kind == "out_lo":
            x0[i] = (lo[i] if abs(lo[i]) < 1e5 else a_) - (1e-9 + 3 * u)
        else:
            x0[i] = (hi[i] if abs(hi[i]) < 1e5 else b_) + (1e-9 + 3 * u)
    # ---- scaling
    if s["xscale"] == "none":
        xs = None
    elif s["xscale"] == "scalar":
        xs = float(10 ** rng.uniform(-3, 3))
    elif s["xscale"] == "vector":
        xs = 10 ** rng.uniform(-3, 3, n)
    else:
        xs = "jac"
    return {"fn": fn, "jac": jac if s["jac"] == "user" else None, "x0": x0, "bounds": bounds, "x_scale": xs, "eps": eps,
            "linear": lin}


def _linear_reference(lin, bounds):
    """Bounded optimum of 0.5|Ax-b|^2 by scipy (independent of the code under test) with a numpy KKT re-check."""
    A, b, full = lin
    if not full:
        return None
    if bounds is None:
        xs = np.linalg.lstsq(A, b, rcond=None)[0]
        g = A.T @ (A @ xs - b)
        if np.max(np.abs(g)) > 1e-9 * (1 + np.linalg.norm(b)):
            return None
        return 0.5 * float(np.sum((A @ xs - b) ** 2))
    from scipy.optimize import lsq_linear
    try:
        sol = lsq_linear(A, b, bounds=(bounds[0], bounds[1]), method="bvls", tol=1e-14, max_iter=2000)
    except Exception:
        return None
    xs = np.clip(sol.x, bounds[0], bounds[1])
    g = A.T @ (A @ xs - b)
    sc = 1e-9 * (1 + np.linalg.norm(A, 2) * np.linalg.norm(b))
    width = bounds[1] - bounds[0]
    at_lo = xs - bounds[0] <= 1e-12 * np.maximum(1.0, np.abs(bounds[0]))
    at_hi = bounds[1] - xs <= 1e-12 * np.maximum(1.0, np.abs(bounds[1]))
    ok = np.where(at_lo & at_hi, True, np.where(at_lo, g >= -sc, np.where(at_hi, g <= sc, np.abs(g) <= sc)))
    if not np.all(ok) or np.any(width <= 0):
        return None
    return 0.5 * float(np.sum((A @ xs - b) ** 2))


def _viol(P, sig, det):
    """Keep at most 2 witnesses per signature per worker (a frequent known finding must not crowd out others)."""
    P.count("violations:" + sig)
    if P.counters["violations:" + sig] <= 2:
        P.violation(sig, det)


def check_problem(s, P):
    """Run one problem through the contract-instrumented solver; record everything on P (core.Part or Ctx)."""
    ins = _instrument()
    pr = build_problem(s)
    restart_obj0 = None
    if s.get("restart"):
        restart_obj0 = _objective(pr["fn"], pr["x0"] if pr["bounds"] is None else np.clip(pr["x0"], *pr["bounds"]))[0]
        # history relation: the monitored solve starts at the point an earlier (unmonitored) solve of the same problem returned -
        # mu = 0 at an (almost) stationary point, where a singular Gauss-Newton Hessian yields null-space steps whose objective
        # change is pure rounding; every clause of the property applies to this start point like to any other
        try:
            mjx0 = ins["raw_ls"](pr["x0"].copy(), pr["fn"], bounds=None if pr["bounds"] is None else [b.copy() for b in pr["bounds"]],
                                 jacobian=pr["jac"], eps=pr["eps"], x_scale=pr["x_scale"], max_iter=100,
                                 verbose=ins["mz"].Verbosity.SILENT, output=io.StringIO())[0]
            mjx0 = np.asarray(mjx0, float).ravel()
            if mjx0.shape == pr["x0"].shape and np.all(np.isfinite(mjx0)):
                pr["x0"] = mjx0.copy()
                P.count("restart_at_returned_point")
        except Exception:
            P.count("restart_first_solve_raised")
    proxy = RecordingProxy(pr["fn"], *(pr["bounds"] if pr["bounds"] is not None else (None, None)))
    MON.last = None
    MON.extra = {}
    if restart_obj0 is not None and math.isfinite(restart_obj0):
        MON.extra["restart_obj0"] = restart_obj0
    if pr["linear"] is not None:
        MON.extra["linear_ref"] = _linear_reference(pr["linear"], pr["bounds"])
    x0_in = pr["x0"].copy()
    b_in = None if pr["bounds"] is None else [pr["bounds"][0].copy(), pr["bounds"][1].copy()]
    kwargs = dict(x0=x0_in, residual=proxy, bounds=b_in, jacobian=pr["jac"], eps=pr["eps"], x_scale=pr["x_scale"],
                  max_iter=100, output=io.StringIO())
    failed = []
    try:
        ins["ls"](**kwargs)
    except ContractViolation as e:
        failed.append(type(e))
        # the first failing clause stopped icontract; evaluate the remaining named conditions on the same observation
        if MON.last is not None:
            seen = False
            for cond, err in LS_CLAUSES:
                if err is type(e):
                    seen = True
                    continue
                if not seen:
                    continue
                names = cond.__code__.co_varnames[:cond.__code__.co_argcount]
                args = {k: (MON.last if k == "result" else kwargs[k]) for k in names}
                if not cond(**args):
                    failed.append(err)
    except Exception as e:      # valid input (finite x0, lo < hi, positive x_scale): the solver must return
        _viol(P, "solver-raised:" + type(e).__name__, {"spec": s, "message": str(e)[:300]})
        P.case(None, nontrivial=False)
        return
    if proxy.nonfinite_out or MON.extra.get("nonfinite_objective"):
        failed = [e for e in failed if e in (ResidualCalledOutsideBounds, FiniteDifferenceProbeOutsideBounds)]
    res = MON.last
    if res is None:       # a contract inside the solver (jacobian_fd result shape/count) fired before it returned
        _viol(P, failed[0].signature + ":inside-solver", {"spec": s})
        return
    # ---- accounting
    x = np.asarray(res[0], float).ravel()
    nact = 0 if pr["bounds"] is None else int(np.sum((x == pr["bounds"][0]) | (x == pr["bounds"][1])))
    starts = "".join(sorted(set(k[0] + k[-1] for k in s["start"]))) if pr["bounds"] is not None else "-"
    nontrivial = pr["bounds"] is not None and len(res[1]) >= 2
    key = "%s|n%d|%s|%s|%s|%s|a%d" % (s["family"], s["n"], s["bmode"], s["xscale"], s["jac"], starts, nact)
    P.case(key, nontrivial=nontrivial, sample={"spec": s, "x": x, "status": MON.extra.get("status"), "residual_calls": proxy.calls,
                                                 "columns_checked": proxy.columns})
    P.count("residual_calls", proxy.calls)
    P.count("residual_columns_checked", proxy.columns)
    P.count("fd_probe_columns", proxy.fd_columns)
    P.count("columns_touching_a_bound", proxy.on_bound_columns)
    P.count("solutions_with_active_bounds", 1 if nact else 0)
    P.count("status:" + str(MON.extra.get("status")))
    P.count("iterations", max(0, len(res[1]) - 1))
    if proxy.nonfinite_out or MON.extra.get("nonfinite_objective"):
        P.count("skipped_nonfinite_residual")
    if pr["linear"] is not None:
        if MON.extra.get("linear_ref") is None:
            P.count("linear_reference_unavailable" if pr["linear"][2] else "linear_rank_deficient_no_global_clause")
        elif not MON.extra.get("converged"):
            P.count("linear_not_converged_tolerated")
        else:
            P.count("linear_global_minimum_compared")
            if "gap" in MON.extra:
                P.note_max("linear_gap_rel", MON.extra["gap"] / (abs(MON.extra.get("obj0", 0)) + abs(MON.extra["linear_ref"]) + 1e-300))
    if MON.extra.get("obj0") is not None and MON.extra.get("obj1") is not None and MON.extra["obj1"] < MON.extra["obj0"]:
        P.count("strict_improvements")
    P.note_max("excess_ulps", proxy.max_excess_ulps)
    # ---- violations (mechanism-level signatures)
    for err in failed:
        sig = err.signature
        det = {"spec": s, "status": MON.extra.get("status"), "x": x, "obj0": MON.extra.get("obj0"), "obj1": MON.extra.get("obj1")}
        if err is ResidualCalledOutsideBounds:
            ctxs = sorted(set((o["context"], o["magnitude"]) for o in proxy.outside if o["context"] != "fd-inherited"))
            P.count("fd_columns_inheriting_an_outside_iterate", sum(1 for o in proxy.outside if o["context"] == "fd-inherited"))
            det["outside"] = proxy.outside[:6]
            for c, mag in ctxs:
                _viol(P, "%s:%s:%s" % (sig, c, mag), det)
            continue
        if err is ReturnedPointOutsideBounds:
            lo, hi = pr["bounds"] if pr["bounds"] is not None else (x, x)
            if x.shape == lo.shape and np.all(np.isfinite(x)):
                exc = np.maximum(lo - x, x - hi)
                i = int(np.argmax(exc))
                bnd = lo[i] if (lo - x)[i] > 0 else hi[i]
                seen = float(proxy.seen_abs[i, 0]) if proxy.seen_abs is not None else 0.0
                ulps = float(exc[i] / np.spacing(max(abs(bnd), seen, np.finfo(float).tiny)))
                det.update(coordinate=i, excess=float(exc[i]), excess_ulps=ulps, lo=lo[i], hi=hi[i])
                sig += ":rounding" if ulps <= 8 else ":gross"
            else:
                sig += ":shape-or-nonfinite"
        if err is TraceObjectiveIncreased:
            det["trace_objective"] = [float(t.objective) for t in res[1]]
        if err is LinearOptimumMissed:
            mu = [float(t.regularizer) for t in res[1]]
            det.update(reference=MON.extra.get("linear_ref"), gap=MON.extra.get("gap"), regularizer=mu)
            f0 = MON.extra.get("obj0") or 0.0
            if mu and mu[-1] > 0 and f0 >= 1e12 * (1.0 + abs(MON.extra.get("linear_ref") or 0.0)):
                # start ~1e6+ away from a well-conditioned optimum: mju_boxQP reports 'no descent' on the huge gradient,
                # the solver answers by inflating mu until norm(dx) < xtol*|x| and calls that convergence
                sig += ":far-start-regularizer-inflated"
        _viol(P, sig, det)
    if MON.extra.get("fd_contract_failed"):
        P.count("fd_contract_failures")


# ------------------------------------------------------------------------------------------------------------------
# Witnesses of mechanisms found earlier, re-run on every run (a regression corpus; the random generator reaches these
# configurations about once in 10^4 problems).  [0]: rank-deficient linear problem, far start, mu = 0 at an almost stationary
# point: mju_boxQP returns a null-space step with grad.dx > 0 and the Armijo test used to accept a (rounding-sized)
# objective increase (fixed in the repository: 533253662).
DIRECTED_SPECS = [
    {"family": "linear_deficient", "n": 4, "extra": 3, "dseed": 4, "bmode": "mixed", "bkind": ["onesided_hi"] * 4,
     "start": ["out_lo", "out_lo", "out_lo", "ulp_hi"],
     "u": [0.8057722855292575, 0.3284269317070257, 0.9148996346202796, 0.9148996346202796],
     "xscale": "vector", "jac": "fd", "eps": "1e-6", "active": False},
]


def worker(case):
    if case.get("directed"):
        P = core.Part()
        MON.evals = {}
        for s in DIRECTED_SPECS:
            with np.errstate(all="ignore"):
                check_problem(dict(s), P)
            P.count("directed_witness_specs")
        for k, v in MON.evals.items():
            P.count("contract_evals:" + k, v)
        return P.result()
    import hypothesis
    from hypothesis import HealthCheck, Phase, given, settings
    P = core.Part()
    MON.evals = {}
    seen = set()

    @hypothesis.seed(case["hseed"])
    @settings(max_examples=case["n"], database=None, deadline=None, derandomize=False,
              phases=[Phase.generate], suppress_health_check=list(HealthCheck))
    @given(problem_specs())
    def drive(s):
        h = json.dumps(s, sort_keys=True)
        if h in seen:
            P.count("duplicate_examples")
            return
        seen.add(h)
        with np.errstate(all="ignore"):
            check_problem(s, P)

    drive()
    for k, v in MON.evals.items():
        P.count("contract_evals:" + k, v)
    return P.result()


def run(ctx):
    total = ctx.pick(2400, 60000)
    per = ctx.pick(150, 750)
    cases = [{"hseed": core.stable_hash("C46", ctx.seed, i) % (2 ** 63), "n": per} for i in range(total // per)]
    cases.append({"directed": True})
    results = par.run("vf.props.c46", "worker", cases, nproc=16, timeout=ctx.pick(600, 3000), chunk=1)
    viols = []
    for c, r in zip(cases, results):
        if r is None or "crash" in r or "exception" in r:
            ctx.inconclusive("worker failed: %s" % json.dumps(r)[:600])
            continue
        viols += r.pop("violations", [])
        ctx.merge(r)
    # only the first 20 violations get a replay file: put one witness of every signature first
    first, rest, seen = [], [], set()
    for v in viols:
        (rest if v["signature"] in seen else first).append(v)
        seen.add(v["signature"])
    for v in first + rest:
        ctx.violation(v["signature"], v["detail"])
    evals = sum(v for k, v in ctx.counters.items() if k.startswith("contract_evals:"))
    if evals == 0:
        ctx.inconclusive("no contract was evaluated")
    for cond, _ in LS_CLAUSES:
        if ctx.counters.get("contract_evals:" + cond.__name__, 0) == 0:
            ctx.inconclusive("contract %s never evaluated" % cond.__name__)
    if ctx.counters.get("contract_evals:fd_probes_inside_bounds", 0) == 0:
        ctx.inconclusive("jacobian_fd contract never evaluated")
    if ctx.counters.get("linear_global_minimum_compared", 0) < ctx.pick(50, 500):
        ctx.inconclusive("too few linear problems compared with the reference optimum")
    if ctx.counters.get("skipped_nonfinite_residual", 0) > 0.05 * max(1, ctx.evaluations):
        ctx.inconclusive("too many cases with non-finite residuals")
    ctx.min_nontrivial = ctx.pick(300, 2000)


def replay(ctx, path):
    rec = json.load(open(path))
    s = rec["detail"]["spec"]
    MON.evals = {}
    with np.errstate(all="ignore"):
        check_problem(s, ctx)
    print("replayed spec:", json.dumps(s))
    print("contract evaluations:", MON.evals)
    ctx.min_nontrivial = 0
    if not ctx.samples:
        ctx.samples.append({"spec": s})
