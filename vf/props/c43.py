"""C43 MJX reproduces the MuJoCo C engine (mjx/mujoco/mjx/_src: forward, smooth, passive, collision_*, constraint, solver,
sensor, support, scan, math, io)."""
import json

import numpy as np

from .. import core, par

LEVEL = "exploration"
RULE = ("random MJCF models straddling MJX's feature lattice (tree of 2-5 bodies with branching; free/ball/hinge/slide "
        "joints with damping/stiffness/armature/frictionloss/limits/margins; sphere/capsule/box/ellipsoid/cylinder/plane "
        "geoms with condim 1/3/4/6, margin/gap, priority, solmix, pairs, excludes; fixed and spatial tendons with "
        "pulley/sphere/cylinder wrapping and side sites; motor/position/velocity/damper/intvelocity/general/muscle "
        "actuators over joint/jointinparent/ball/tendon/site transmissions with all supported dyn/gain/bias types; "
        "connect/weld/joint/tendon equalities, mocap welds; 30 sensor kinds with cutoffs and reference frames; gravcomp, "
        "fluid; Euler/RK4/implicitfast x pyramidal/elliptic x Newton/CG x dense/sparse/auto x random disable flags; "
        "plus a 'gate' profile injecting one unsupported feature) x random states/controls/applied forces; plus a 'capcap' "
        "profile: free capsules placed pairwise in penetrating CLIPPED segment-segment configurations (closest points of the "
        "axis lines outside a segment: cap-side, cap-cap, non-crossing). "
        "Every non-gate model additionally receives a want-list from an agenda that rotates over all feature classes of "
        "doc/mjx.rst Feature Parity (MJX-JAX column) and the option flag list that the sandbox can generate (joint / geom / "
        "transmission / dyn / gain / bias / equality incl. inactive / tendon + wrap kinds / condim / solver / sensor kinds / "
        "flags, gravcomp x actuatorgravcomp x joint actuatorfrcrange x actuator forcerange/ctrlrange 'clamp stacks'); the run is "
        "inconclusive if a class was never generated or a listed clamp / row interaction never ENGAGED in a state (counters "
        "feature[..], engaged[..]). "
        "distinct = (profile, integrator, cone, solver, sorted feature-tag set bucket, #active contacts bucket, "
        "#constraint rows bucket); non-trivial = put_model accepted it and it has nv>0")
ASSUMPTIONS = [
    "VERDICT oracle = the C engine of the installed mujoco 3.13.0 wheel on the identical MjModel (MJX can only ingest the "
    "installed binding's MjModel; MJX's own tests do the same). The repository is 3.12.1 and the statement names 'the C engine "
    "built from this tree': every unexplained difference on a field the ctypes driver exposes by name (mjData arrays, next "
    "state, sensordata slices) is re-evaluated on the tree's own C build (drv.Lib('rel'), same XML and state). It is counted as "
    "reference_skew_wheel_vs_tree[field] and not judged ONLY IF (a) MJX agrees with the tree's value at the field's own "
    "tolerance (the tolerance that raised the difference) AND (b) the tree's value differs from the wheel's by more than that "
    "tolerance; in every other case (tree == wheel, tree unavailable, MJX differs from both) the difference is judged against "
    "the wheel. Counters tree_build_* record how many differences were decided this way (observed skew: 3.13.0 clamps ctrl in "
    "the implicitfast actuator velocity derivative, the tree does not)",
    "a difference is reported under the signature of a known finding only when that finding's mechanism is CONFIRMED on the "
    "case at hand: either structurally on the differing value itself (e.g. MJX value exactly zero / equal to the C formula "
    "without the missing term / equal to the un-clipped value) or by a counterfactual re-run in which exactly that mechanism is "
    "neutralised (C engine with the feature switched off or with the term removed in a staged pipeline that is first validated "
    "to reproduce mj_forward/mj_step bit-for-bit-ish, <=1e-9; or MJX fed the compensating input) and the difference must then "
    "vanish at the field's own tolerance; scopes are explicit field / row-type / mjtSensor lists. Anything not confirmed keeps its "
    "generic field signature and is a violation",
    "float64 (jax_enable_x64) relative tolerance 1e-6 of max(1,|field|_inf) for closed-form quantities; 1e-4 for quantities "
    "that depend on the iterative constraint solver (both solvers run to tolerance 1e-12, <=100/400 iterations); the "
    "float32 subsample uses 2e-3 / 3e-2 relative to the operands: efc_aref relative to |B||J||qvel| + |K*I*(pos-margin)| (also for "
    "CONTACT rows in float64, whose Jacobian rows only agree to the contact-frame tolerance 2e-3: witness capsule-capsule friction row, "
    "aref error 3e-3 of |aref| but 1e-4 of B|J||qvel|), "
    "force/torque/accelerometer/touch sensors relative to the gross constraint + actuator force entering them; in float32 the next velocity/position of Euler and implicitfast (which recompute the "
    "acceleration from qfrc_smooth + qfrc_constraint) additionally gets the operand-scaled allowance h*|M^-1|_inf*2e-3*max_j "
    "sum_i |J_ij||efc_force_i|: J^T efc_force cancels gross constraint forces that a float32 minimiser resolves to about "
    "sqrt(eps32) only (witness: gross 1.2e4, error 7.9 = 6e-4 of it, x64 agrees to 1e-6); float64 comparisons are unchanged",
    "contacts are compared as sets (MJX orders contacts by condim/geom-type group) matched on geom pair and position; "
    "constraint rows are compared as sets matched on (type, Jacobian row, pos, D, aref)",
    "put_model raising NotImplementedError is the documented gate (doc/mjx.rst Feature Parity: 'MJX will raise an "
    "exception if asked to copy an mjModel to the device that references unsupported features') and is counted, not judged",
    "implicitfast: the C engine reinstates the gyroscopic derivative for standalone free bodies (computation/index.rst), MJX has no "
    "such term and doc/mjx.rst is silent: a next-state difference is counted as documented_difference_not_judged[...] only if both "
    "engines agree again (same state) after the free bodies' inertia is made spherical in both models (counterfactual)",
    "implicitfast: the C engine restricts the velocity-derivative matrix D to the sparsity pattern of M (computation/index.rst, "
    "Integrators: 'This restriction will exclude damping in tendons which connect bodies that are on different branches of the "
    "kinematic tree'), MJX's dense update keeps the full D. A next-state difference is counted as "
    "documented_difference_not_judged[...] only if C's update recomputed WITH the excluded entries (from C's own actuator moments "
    "and tendon Jacobians; formula validated to reproduce mj_implicit to 1e-9) reproduces MJX's next state at the field tolerance",
    "NOT GENERATED (counted as not_generated[...]): implicitfast with a free-joint body in the random profiles (it stays in the "
    "capsule-capsule profile, which has no actuators): the check's recomputation of C's implicitfast update does not validate on "
    "such models, so the known qDeriv findings could not be confirmed there; actearly together with exactly one of the spring/damper flags disabled; RK4 "
    "together with connect/weld equalities and exactly one of the spring/damper flags disabled - the known differences of these "
    "combinations could not be neutralised jointly and a difference there could not be confirmed; RK4 with exactly one of the "
    "spring/damper flags disabled (the compensation that confirms the passive-forces finding is exact for a single forward "
    "evaluation only)",
    "contact-set equality is judged only for geom pairs whose narrow phase is the same closed-form algorithm in both engines "
    "(calibrated empirically on the unchanged tree: plane-sphere, plane-capsule, plane-ellipsoid, sphere-sphere, "
    "sphere-capsule, capsule-capsule). Pairs involving boxes (doc/mjx.rst: 'BOX is implemented as a mesh': SAT/clipping "
    "with <=4 points vs up to 8 in C) and non-plane ellipsoid/cylinder pairs (MJX: SDF gradient descent, C: convex "
    "solver) give different manifolds by design: a state with such an active pair is judged on contact-independent fields only",
    "contact geometry tolerance 2e-3 and 2e-2 downstream of an active contact: math.closest_segment_point regularises with "
    "+1e-6 (float32 safety) which moves capsule normals by ~1e-4 even in float64; contact tangent directions are not "
    "specified by the documentation (mjContact.frame: 'normal is in [0-2]'): states whose tangent frames differ are judged "
    "on contact geometry only (pyramidal/elliptic rows depend on the tangents)",
    "convex-mesh collisions excluded (trimesh absent in the sandbox)",
]

# fields dropped from the verdict set because of reference-version skew / documented representation differences
SKEW = {
}

POS_FIELDS = ["xpos", "xquat", "xmat", "xipos", "ximat", "xanchor", "xaxis", "geom_xpos", "geom_xmat", "site_xpos",
              "site_xmat", "cam_xpos", "cam_xmat", "subtree_com", "cdof", "ten_length", "actuator_length"]
VEL_FIELDS = ["cvel", "cdof_dot", "qfrc_bias", "qfrc_gravcomp", "qfrc_fluid", "qfrc_passive"]
ACT_FIELDS = ["actuator_force", "qfrc_actuator", "act_dot", "qfrc_smooth", "qacc_smooth"]
SOLVER_FIELDS = ["qfrc_constraint", "qacc"]
IMPL_FIELDS = ["cinert", "ten_velocity", "actuator_velocity"]
STATE_FIELDS = ["qpos", "qvel", "act", "time"]

# MJX's segment routines are regularised for float32 (math.closest_segment_point divides by |ab|^2 + 1e-6), which moves
# capsule contact normals by ~1e-4 even in float64: contact geometry and everything downstream of an active contact is
# compared with this tolerance instead of 1e-6
TOL_CONTACT_GEOM = 2e-3
TOL_CONTACT_DOWNSTREAM = 2e-2


def _tols(x64):
    return (1e-6, 1e-4) if x64 else (2e-3, 3e-2)


def _relerr(a, b):
    a = np.asarray(a, float).ravel()
    b = np.asarray(b, float).ravel()
    if a.shape != b.shape:
        return float("inf")
    if a.size == 0:
        return 0.0
    if not (np.all(np.isfinite(a)) and np.all(np.isfinite(b))):
        return float("inf") if not np.array_equal(np.isfinite(a), np.isfinite(b)) or \
            not np.allclose(a[np.isfinite(a)], b[np.isfinite(b)]) else 0.0
    return float(np.max(np.abs(a - b)) / max(1.0, np.max(np.abs(b))))


_JIT = {}


def _raise_site(e):
    """innermost frame of the traceback that lies in the MJX sources: 'module.function'"""
    import traceback
    site = "unknown"
    for fr in traceback.extract_tb(e.__traceback__):
        if "/mjx/_src/" in fr.filename:
            site = "%s.%s" % (fr.filename.rsplit("/", 1)[1][:-3], fr.name)
    return site


def _fs(R):
    if "fs" not in _JIT:
        mjx, jax = R.mjx, R.jax
        _JIT["fs"] = jax.jit(lambda m, d: (mjx.forward(m, d), mjx.step(m, d)))
        _JIT["fullm"] = jax.jit(R.src["support"].full_m)
    return _JIT["fs"], _JIT["fullm"]


def _to_mjx_data(R, m, mx, d):
    """State transfer that does not go through put_data (that is C44): make_data + explicit state fields."""
    jp = R.jp
    dx = R.mjx.make_data(m)
    kw = dict(qpos=jp.array(d.qpos), qvel=jp.array(d.qvel), act=jp.array(d.act), ctrl=jp.array(d.ctrl),
              qfrc_applied=jp.array(d.qfrc_applied), xfrc_applied=jp.array(d.xfrc_applied),
              mocap_pos=jp.array(d.mocap_pos), mocap_quat=jp.array(d.mocap_quat),
              qacc_warmstart=jp.array(d.qacc_warmstart), time=jp.array(d.time, dtype=dx.time.dtype),
              eq_active=jp.array(d.eq_active.astype(bool)) if d.eq_active.size else dx.eq_active)
    kw = {k: v.astype(getattr(dx, k).dtype) if hasattr(v, "astype") else v for k, v in kw.items()}
    return dx.replace(**kw)


def _contact_excluded_pair(mj, m, g1, g2):
    """True for geom-type pairs whose contact manifold / narrow-phase algorithm differs by design (see ASSUMPTIONS)."""
    G = mj.mjtGeom
    exact = {frozenset(p) for p in ((G.mjGEOM_PLANE, G.mjGEOM_SPHERE), (G.mjGEOM_PLANE, G.mjGEOM_CAPSULE),
                                    (G.mjGEOM_PLANE, G.mjGEOM_ELLIPSOID), (G.mjGEOM_SPHERE,),
                                    (G.mjGEOM_SPHERE, G.mjGEOM_CAPSULE), (G.mjGEOM_CAPSULE,))}
    exact = {frozenset(int(x) for x in p) for p in exact}
    return frozenset((int(m.geom_type[g1]), int(m.geom_type[g2]))) not in exact


_CMATCH = {"last": None}    # C contact index -> MJX contact index of the last fully matched contact comparison


def _compare_contacts(R, m, dc, dxf, tol, P, sig_prefix):
    """Returns (ok_for_efc, problems). Contacts as sets."""
    mj = R.mujoco
    _CMATCH["last"] = None
    c = dxf._impl.contact
    xd = np.asarray(c.dist)
    xim = np.asarray(c.includemargin)
    xact = np.nonzero(xd < xim)[0]
    cact = [i for i in range(dc.ncon) if dc.contact.dist[i] < dc.contact.includemargin[i]]
    # documented manifold differences
    pairs = set()
    for i in cact:
        pairs.add((int(dc.contact.geom[i][0]), int(dc.contact.geom[i][1])))
    xg = np.asarray(c.geom)
    for j in xact:
        pairs.add((int(xg[j][0]), int(xg[j][1])))
    for g1, g2 in pairs:
        if _contact_excluded_pair(mj, m, g1, g2):
            P.count("states_with_documented_manifold_difference")
            return None, []
    problems = []
    if len(cact) != len(xact):
        problems.append(("contact-count", {"c": len(cact), "mjx": int(len(xact)),
                                           "c_pairs": [[int(a) for a in dc.contact.geom[i]] for i in cact],
                                           "mjx_pairs": [[int(a) for a in xg[j]] for j in xact]}))
        return False, problems
    used = set()
    frames_differ = []
    xp = np.asarray(c.pos)
    xf = np.asarray(c.frame).reshape(-1, 9)
    match = {}
    for i in cact:
        ci = dc.contact[i]
        best, bj = None, None
        for j in xact:
            if j in used:
                continue
            gj = (int(xg[j][0]), int(xg[j][1]))
            if set(gj) != {int(ci.geom[0]), int(ci.geom[1])}:
                continue
            dd = float(np.linalg.norm(xp[j] - ci.pos))
            if best is None or dd < best:
                best, bj = dd, j
        if bj is None:
            problems.append(("contact-unmatched", {"c_contact": i, "geom": [int(a) for a in ci.geom]}))
            continue
        used.add(bj)
        match[i] = int(bj)
        flip = int(xg[bj][0]) != int(ci.geom[0])
        if _relerr(xf[bj] * (-1 if flip else 1), ci.frame) > TOL_CONTACT_GEOM:
            frames_differ.append(i)
        for name, a, b in (("dist", xd[bj], ci.dist), ("pos", xp[bj], ci.pos),
                           ("normal", xf[bj][:3] * (-1 if flip else 1), ci.frame[:3]),
                           ("includemargin", xim[bj], ci.includemargin),
                           ("friction", np.asarray(c.friction)[bj], ci.friction),
                           ("solref", np.asarray(c.solref)[bj], ci.solref),
                           ("solreffriction", np.asarray(c.solreffriction)[bj], ci.solreffriction),
                           ("solimp", np.asarray(c.solimp)[bj], ci.solimp),
                           ("dim", np.asarray(c.dim)[bj], ci.dim)):
            e = _relerr(a, b)
            P.note_max("relerr_contact_" + name, e)
            if e > (max(tol, TOL_CONTACT_GEOM) if name in ("dist", "pos", "normal") else tol):
                problems.append(("contact-" + name, {"c_contact": i, "mjx_contact": int(bj), "c": np.asarray(b).tolist(),
                                                     "mjx": np.asarray(a).tolist(), "relerr": e,
                                                     "geomtypes": [int(m.geom_type[g]) for g in ci.geom]}))
    if frames_differ and not problems:
        P.count("states_with_different_contact_tangent_frame")
        return None, problems
    _CMATCH["last"] = match if not problems else None
    return (not problems), problems


def _efc_row_meta(mj, m, dc, i):
    """Identity of C constraint row i: type, owning object, and (for elliptic contacts) whether it is a friction row."""
    T = mj.mjtConstraint
    t, oid = int(dc.efc_type[i]), int(dc.efc_id[i])
    meta = {"type": t, "efc_id": oid}
    if t == int(T.mjCNSTR_EQUALITY):
        meta["eq_type"] = int(m.eq_type[oid])
    if t in (int(T.mjCNSTR_CONTACT_ELLIPTIC), int(T.mjCNSTR_CONTACT_PYRAMIDAL), int(T.mjCNSTR_CONTACT_FRICTIONLESS)):
        con = dc.contact[oid]
        meta["includemargin"] = float(con.includemargin)
        meta["friction_row"] = bool(t == int(T.mjCNSTR_CONTACT_ELLIPTIC) and i != int(con.efc_address))
    return meta


def _compare_efc(R, m, dc, dxf, tol, tol_s, P, cmatch=None):
    """Constraint rows as sets. Rows of a contact can only be matched to rows of the MJX contact it was matched with
    (`cmatch`): torsional / rolling rows of two contacts of the same body against the same plane have IDENTICAL Jacobians, and
    matching them across contacts would book one contact's values against the other's."""
    mj = R.mujoco
    problems = []
    nv = m.nv
    J = np.zeros((dc.nefc, nv))
    if dc.nefc:
        if mj.mj_isSparse(m):
            mj.mju_sparse2dense(J, dc.efc_J, dc.efc_J_rownnz, dc.efc_J_rowadr, dc.efc_J_colind)
        else:
            J = np.array(dc.efc_J).reshape(-1, nv)[:dc.nefc]
    I = dxf._impl
    xJ = np.asarray(I.efc_J)
    xact = np.nonzero((xJ != 0).any(axis=1))[0]
    # rows of C with all-zero Jacobian carry no force and cannot be matched: drop them on both sides
    cact = [i for i in range(dc.nefc) if np.any(J[i] != 0)]
    if len(cact) != len(xact):
        problems.append(("efc-row-count", {"c": len(cact), "mjx": int(len(xact)),
                                           "c_types": [int(t) for t in np.array(dc.efc_type)[cact]],
                                           "mjx_types": [int(t) for t in np.asarray(I.efc_type)[xact]]}))
        return problems
    xtype = np.asarray(I.efc_type)
    feats = {"efc_pos": "efc_pos", "efc_margin": "efc_margin", "efc_D": "efc_D", "efc_aref": "efc_aref",
             "efc_frictionloss": "efc_frictionloss"}
    xv = {k: np.asarray(getattr(I, k)) for k in feats}
    cv = {k: np.array(getattr(dc, k)) for k in feats}
    xforce = np.asarray(I.efc_force)
    used = set()
    Jscale = max(1.0, np.abs(J).max() if J.size else 1.0)
    T = mj.mjtConstraint
    contact_types = (int(T.mjCNSTR_CONTACT_FRICTIONLESS), int(T.mjCNSTR_CONTACT_PYRAMIDAL), int(T.mjCNSTR_CONTACT_ELLIPTIC))
    xadr, xdim = np.asarray(I.contact.efc_address), np.asarray(I.contact.dim)

    def rows_of_mjx_contact(c, t):
        n = 1 if (t == contact_types[0] or xdim[c] == 1) else (int(xdim[c]) if t == contact_types[2] else 2 * (int(xdim[c]) - 1))
        return set(range(int(xadr[c]), int(xadr[c]) + n))
    for i in cact:
        best, bj = None, None
        allowed = None
        if cmatch is not None and int(dc.efc_type[i]) in contact_types and int(dc.efc_id[i]) in cmatch:
            allowed = rows_of_mjx_contact(cmatch[int(dc.efc_id[i])], int(dc.efc_type[i]))
        for j in xact:
            if j in used or int(xtype[j]) != int(dc.efc_type[i]) or (allowed is not None and int(j) not in allowed):
                continue
            dd = np.max(np.abs(xJ[j] - J[i])) / Jscale
            for k in feats:   # set equality of full row tuples: every compared quantity takes part in the matching
                dd += abs(xv[k][j] - cv[k][i]) / max(1.0, abs(cv[k][i]))
            if best is None or dd < best:
                best, bj = dd, j
        if bj is None:
            problems.append(("efc-row-unmatched", {"c_row": i, "type": int(dc.efc_type[i])}))
            continue
        used.add(bj)
        meta = _efc_row_meta(mj, m, dc, i)
        meta.update({"c_row": i, "mjx_row": int(bj), "c_pm": float(cv["efc_pos"][i] - cv["efc_margin"][i]),
                     "mjx_pm": float(xv["efc_pos"][bj] - xv["efc_margin"][bj])})
        e = _relerr(xJ[bj], J[i])
        P.note_max("relerr_efc_J", e)
        if e > tol:
            problems.append(("efc_J", dict(meta, relerr=e, tol=tol, c=J[i].tolist(), mjx=xJ[bj].tolist())))
        for k in feats:
            if k in SKEW:
                continue
            e = _relerr(xv[k][bj], cv[k][i])
            if k == "efc_aref" and (not R.x64 or (tol >= TOL_CONTACT_GEOM and int(dc.efc_type[i]) in contact_types)):
                # float32, and contact rows in float64 (whose Jacobian rows carry the contact-frame tolerance TOL_CONTACT_GEOM):
                # aref = -B*(J.qvel) - K*I*(pos-margin) is compared relative to the terms being summed
                KB = np.array(dc.efc_KBIP).reshape(-1, 4)[i]
                scale = abs(KB[1]) * float(np.abs(J[i]) @ np.abs(np.array(dc.qvel))) + abs(KB[0] * KB[2] * (cv["efc_pos"][i] - cv["efc_margin"][i]))
                e = abs(xv[k][bj] - cv[k][i]) / max(1.0, abs(cv[k][i]), scale)
            P.note_max("relerr_" + k, e)
            if e > tol:
                problems.append((k, dict(meta, relerr=e, tol=tol, c=float(cv[k][i]), mjx=float(xv[k][bj]))))
        e = abs(xforce[bj] - dc.efc_force[i]) / max(1.0, np.abs(dc.efc_force).max())
        P.note_max("relerr_efc_force", e)
        if e > tol_s:
            problems.append(("efc_force", dict(meta, relerr=float(e), tol=tol_s, c=float(dc.efc_force[i]),
                                               mjx=float(xforce[bj]))))
    return problems


def _sensor_stage_map(R, m):
    mj = R.mujoco
    out = {}
    for i in range(m.nsensor):
        nm = mj.mjtSensor(m.sensor_type[i]).name.replace("mjSENS_", "").lower()
        out[i] = (nm, int(m.sensor_needstage[i]), int(m.sensor_adr[i]), int(m.sensor_dim[i]))
    return out


def _compare_state(R, m, mx, dcf, dcs, dxf, dxs, x64, P, smap, integ, clip_acc_cutoff=False):
    """All field comparisons of one state: C forward data `dcf` / stepped `dcs` against MJX `dxf` / `dxs`.
    Returns (problems, info); each problem is (name, detail) and detail["tol"] is the tolerance that raised it."""
    mj = R.mujoco
    tol, tol_s = _tols(x64)
    _, fullm = _fs(R)
    problems = []

    def cmp(name, a, b, t):
        if name in SKEW:
            return
        e = _relerr(a, b)
        P.note_max("relerr_" + name, e)
        if e > t:
            problems.append((name, {"relerr": e, "tol": t, "c": np.asarray(b).tolist(), "mjx": np.asarray(a).tolist()}))

    for f in POS_FIELDS + VEL_FIELDS + ACT_FIELDS:
        cmp(f, getattr(dxf, f), getattr(dcf, f), tol)
    for f in IMPL_FIELDS:
        cmp(f, getattr(dxf._impl, f), getattr(dcf, f), tol)
    # inertia matrix, actuator moment, tendon Jacobian (dense on the MJX side)
    Mc = np.zeros((m.nv, m.nv))
    mj.mj_fullM(m, dcf, Mc)
    cmp("M", fullm(mx, dxf), Mc, tol)
    if m.nu:
        mom = np.zeros((m.nu, m.nv))
        mj.mju_sparse2dense(mom, dcf.actuator_moment, dcf.moment_rownnz, dcf.moment_rowadr, dcf.moment_colind)
        cmp("actuator_moment", dxf._impl.actuator_moment, mom, tol)
    if m.ntendon:
        tj = np.zeros((m.ntendon, m.nv))
        try:
            mj.mju_sparse2dense(tj, dcf.ten_J, m.ten_J_rownnz, m.ten_J_rowadr, m.ten_J_colind)
        except Exception:
            tj = np.array(dcf.ten_J).reshape(m.ntendon, m.nv)
        cmp("ten_J", dxf._impl.ten_J, tj, tol)
    ok_c, pc = _compare_contacts(R, m, dcf, dxf, tol, P, "")
    for name, det in pc:
        det.setdefault("tol", tol)
    problems += pc
    contact_dependent_ok = ok_c is not None
    nact = sum(1 for i in range(dcf.ncon) if dcf.contact.dist[i] < dcf.contact.includemargin[i])
    if nact:
        tol_s = max(tol_s, TOL_CONTACT_DOWNSTREAM)
    if contact_dependent_ok and ok_c:
        problems += _compare_efc(R, m, dcf, dxf, max(tol, TOL_CONTACT_GEOM) if nact else tol, tol_s, P, cmatch=_CMATCH["last"])
    xsens = np.array(dxf.sensordata)
    if clip_acc_cutoff:     # counterfactual of the cutoff finding: apply the missing cutoff to MJX's framelinacc / frameangacc
        for i_, (nm_, stage_, adr_, dim_) in smap.items():
            if nm_ in ("framelinacc", "frameangacc") and m.sensor_cutoff[i_] > 0:
                xsens[adr_:adr_ + dim_] = np.clip(xsens[adr_:adr_ + dim_], -m.sensor_cutoff[i_], m.sensor_cutoff[i_])

    gross = 0.0
    if not x64 and int(dcf.nefc):
        # float32: force / torque / accelerometer / touch read sums of constraint forces: compared relative to the gross
        # generalized constraint force entering them (max_j sum_i |J_ij||efc_force_i|), not to the cancelled net value
        Jg = np.zeros((dcf.nefc, m.nv))
        if mj.mj_isSparse(m):
            mj.mju_sparse2dense(Jg, dcf.efc_J, dcf.efc_J_rownnz, dcf.efc_J_rowadr, dcf.efc_J_colind)
        else:
            Jg = np.array(dcf.efc_J).reshape(-1, m.nv)[:dcf.nefc]
        gross = float((np.abs(Jg).T @ np.abs(np.array(dcf.efc_force))).max()) + float(np.abs(np.array(dcf.qfrc_actuator)).max() if m.nv else 0.0)

    def sens(i, nm, stage, adr, dim, t):
        e = _relerr(xsens[adr:adr + dim], dcf.sensordata[adr:adr + dim])
        if gross and nm in ("force", "torque", "accelerometer", "touch"):
            e = float(np.max(np.abs(xsens[adr:adr + dim] - dcf.sensordata[adr:adr + dim])) /
                      max(1.0, float(np.max(np.abs(dcf.sensordata[adr:adr + dim]))), gross))
        P.note_max("relerr_sensor_" + nm, e)
        if ("sensor_" + nm) not in SKEW and e > t:
            problems.append(("sensor_" + nm, {"relerr": e, "tol": t, "sensor": i, "stype": int(m.sensor_type[i]),
                                              "stage": stage, "adr": adr, "dim": dim, "nefc_mjx": int(dxf._impl.nefc),
                                              "c": dcf.sensordata[adr:adr + dim].tolist(),
                                              "mjx": xsens[adr:adr + dim].tolist()}))

    if contact_dependent_ok:
        for f in SOLVER_FIELDS:
            cmp(f, getattr(dxf, f), getattr(dcf, f), tol_s)
        for i, (nm, stage, adr, dim) in smap.items():
            sens(i, nm, stage, adr, dim, tol_s if stage == 3 or nm in ("touch", "force", "torque", "accelerometer") else tol)
        # float32 only: Euler (implicit damping) and implicitfast recompute the acceleration from qfrc_smooth + qfrc_constraint;
        # qfrc_constraint = J^T efc_force cancels gross forces G_j = sum_i |J_ij||efc_force_i| that a float32 minimiser resolves
        # to ~sqrt(eps32) only (observed 6e-4 of G): the next velocity inherits h*|M^-1|*tol*max(G) (operand-scaled allowance)
        extra = 0.0
        if not x64 and int(dcf.nefc) and integ[4:] in ("Euler", "implicitfast"):
            Jc = np.zeros((dcf.nefc, m.nv))
            if mj.mj_isSparse(m):
                mj.mju_sparse2dense(Jc, dcf.efc_J, dcf.efc_J_rownnz, dcf.efc_J_rowadr, dcf.efc_J_colind)
            else:
                Jc = np.array(dcf.efc_J).reshape(-1, m.nv)[:dcf.nefc]
            G = float((np.abs(Jc).T @ np.abs(np.array(dcf.efc_force))).max())
            extra = float(m.opt.timestep) * float(np.abs(np.linalg.inv(Mc)).sum(axis=1).max()) * tol * G
            P.note_max("f32_step_allowance_from_gross_constraint_force", extra)
        for f in STATE_FIELDS:
            e = _relerr(getattr(dxs, f), getattr(dcs, f))
            P.note_max("relerr_step_%s_%s" % (f, integ[4:]), e)
            t = tol_s if f != "time" else tol
            if f in ("qvel", "qpos") and extra:
                t += (extra if f == "qvel" else extra * float(m.opt.timestep)) / max(1.0, float(np.max(np.abs(getattr(dcs, f)))))
            if e > t:
                problems.append(("step_%s[%s]" % (f, integ[4:]), {"relerr": e, "tol": t, "c": np.asarray(getattr(dcs, f)).tolist(),
                                                                  "mjx": np.asarray(getattr(dxs, f)).tolist()}))
    else:
        for i, (nm, stage, adr, dim) in smap.items():
            if stage < 3 and nm not in ("touch",):
                sens(i, nm, stage, adr, dim, tol)
    return problems, {"nact": nact, "contact_dependent_ok": contact_dependent_ok}


def _count_engaged(mj, m, dcf, P):
    """which clamps / force sources are ACTIVE in this state (C engine's forward data): presence of a feature in the model is
    not enough, the interaction has to engage"""
    dis = int(m.opt.disableflags)
    actuation = m.nu and not dis & int(mj.mjtDisableBit.mjDSBL_ACTUATION)
    if actuation:
        fr, af = np.array(m.actuator_forcerange), np.array(dcf.actuator_force)[:m.nu]
        fl = np.array(m.actuator_forcelimited).astype(bool)
        if np.any(fl & ((af <= fr[:, 0]) | (af >= fr[:, 1]))):
            P.count("engaged[actuator_forcerange_clamp]")
        if np.any(fl & (af > fr[:, 0]) & (af < fr[:, 1]) & (af != 0)):
            P.count("engaged[actuator_forcerange_present_not_clamping]")
        cl, cr, ct = np.array(m.actuator_ctrllimited).astype(bool), np.array(m.actuator_ctrlrange), np.array(dcf.ctrl)
        if not dis & int(mj.mjtDisableBit.mjDSBL_CLAMPCTRL) and np.any(cl & ((ct < cr[:, 0]) | (ct > cr[:, 1]))):
            P.count("engaged[ctrlrange_clamp]")
    jl = np.array(m.jnt_actfrclimited).astype(bool)
    if m.nv and jl.any():
        dj = np.array(m.dof_jntid)
        rng_ = np.array(m.jnt_actfrcrange)[dj]
        qa = np.array(dcf.qfrc_actuator)
        on = jl[dj] & ((qa <= rng_[:, 0] + 1e-12) | (qa >= rng_[:, 1] - 1e-12))
        if on.any():
            P.count("engaged[jnt_actfrcrange_clamp]")
            gc = np.array(dcf.qfrc_gravcomp) * np.array(m.jnt_actgravcomp)[dj]
            if np.any(on & (gc != 0)):
                P.count("engaged[jnt_actfrcrange_clamp_on_dof_with_actuator_gravcomp]")
                if actuation and np.any(on & (gc != 0) & (np.abs(qa - gc) > 0)):
                    P.count("engaged[jnt_actfrcrange_clamp+actuator_gravcomp+actuator_force_on_same_dof]")
        if np.any(jl[dj] & ~on & (qa != 0)):
            P.count("engaged[jnt_actfrcrange_present_not_clamping]")
    if m.nv and np.any(np.array(dcf.qfrc_gravcomp) != 0):
        P.count("engaged[gravcomp_force]")
    if m.neq:
        ne_static = int(sum({int(mj.mjtEq.mjEQ_CONNECT): 3, int(mj.mjtEq.mjEQ_WELD): 6}.get(int(t), 1) for t in m.eq_type))
        if not dis & int(mj.mjtDisableBit.mjDSBL_EQUALITY) and int(dcf.ne) < ne_static:
            P.count("engaged[inactive_equality(d.ne<ne)]")
            if int(dcf.nf) or int(dcf.nl):
                P.count("engaged[inactive_equality_with_friction_or_limit_rows]")
    if int(dcf.nf):
        P.count("engaged[frictionloss_rows]")
    if int(dcf.nl):
        P.count("engaged[limit_rows]")


def _pkey(name, det):
    """Identity of a difference inside one state (used to ask whether it survives a counterfactual re-run)."""
    if not isinstance(det, dict):
        return name
    if name.startswith("efc") and "c_row" in det:
        return "%s@row%d" % (name, det["c_row"])
    if name.startswith("sensor_"):
        return "%s@%d" % (name, det["sensor"])
    if name.startswith("contact") and "c_contact" in det:
        return "%s@%d" % (name, det["c_contact"])
    return name


def check_model(R, xml, tags, states, P, x64=True, detail_base=None):
    """Runs all states of one model. `states` is a list of state dicts or None entries (-> random from rng)."""
    mj, mjx = R.mujoco, R.mjx
    try:
        m = mj.MjModel.from_xml_string(xml)
    except Exception as e:
        P.count("skipped_xml_rejected_by_wheel")
        return
    gate_tags = [t for t in tags if t.startswith("gate:")]
    try:
        mx = mjx.put_model(m)
        dx0 = mjx.make_data(m)
    except NotImplementedError as e:
        P.count("gate_rejected")
        P.count("gate_rejected[%s]" % (gate_tags[0] if gate_tags else str(e).split("(")[0][:40].strip()))
        P.case("gate|" + (gate_tags[0] if gate_tags else "other"), nontrivial=False)
        return
    if gate_tags:
        P.count("gate_accepted[%s]" % gate_tags[0])
    if m.nv == 0:
        P.count("skipped_nv0")
        return
    fs, fullm = _fs(R)
    integ = [t for t in tags if t.startswith("int:")][0]
    smap = _sensor_stage_map(R, m)
    from .. import mjxrepo
    for t in tags:
        if t.startswith("not_generated:"):
            P.count("not_generated[%s]" % t[14:])
    if not gate_tags:
        for t in sorted(mjxrepo.feature_classes(tags)):
            P.count("feature[%s]" % t)
        P.count("feature[%s]" % integ)
        P.count("feature[cone:%s]" % mj.mjtCone(m.opt.cone).name[7:].lower())
        for fl in mjxrepo.FEATURE_FLAGS:
            if int(m.opt.disableflags) & int(getattr(mj.mjtDisableBit, "mjDSBL_" + fl[5:].upper())):
                P.count("feature[%s]" % fl)
    for si, st in enumerate(states):
        d = mj.MjData(m)
        mjxrepo.set_state_dict(m, d, st)
        dx = _to_mjx_data(R, m, mx, d)
        dcf = mj.MjData(m)
        mjxrepo.set_state_dict(m, dcf, st)
        mj.mj_forward(m, dcf)
        dcs = mj.MjData(m)
        mjxrepo.set_state_dict(m, dcs, st)
        mj.mj_step(m, dcs)
        if not (np.all(np.isfinite(dcf.qacc)) and np.all(np.isfinite(dcs.qpos)) and np.abs(dcf.qacc).max() < 1e6
                and np.all(np.isfinite(dcs.qvel)) and np.abs(dcs.qvel).max() < 1e4
                and (dcf.nefc == 0 or (np.all(np.isfinite(dcf.efc_force)) and np.abs(dcf.efc_force).max() < 1e6))):
            P.count("skipped_c_engine_unstable")
            continue
        _count_engaged(mj, m, dcf, P)
        try:
            dxf, dxs = fs(mx, dx)
            R.jax.block_until_ready(dxs.qpos)
        except NotImplementedError as e:
            P.count("gate_rejected_at_trace_time")
            P.count("gate_rejected[trace:%s]" % str(e)[:40])
            return
        except Exception as e:  # an accepted model that MJX cannot simulate at all
            where = _raise_site(e)
            P.count("mjx_raised_on_accepted_model")
            P.case("raise|" + where, nontrivial=True)
            dd = dict(detail_base or {})
            dd.update({"xml": xml, "tags": tags, "state": st, "field": "exception", "x64": x64,
                       "diff": {"exception": "%s: %s" % (type(e).__name__, str(e)[:300]), "where": where}})
            P.violation("mjx-raises-on-model-accepted-by-put_model:%s@%s" % (type(e).__name__, where), dd)
            return
        problems, info = _compare_state(R, m, mx, dcf, dcs, dxf, dxs, x64, P, smap, integ)
        nact = info["nact"]
        nrow = int(dcf.nefc)
        feat = [t for t in tags if t.split(":")[0] in ("jnt", "act", "eq", "tendon", "wrap", "geom") or t in
                ("fluid", "gravcomp", "mocap", "frictionloss", "pair", "margin")]
        key = "|".join([tags and [t for t in tags if t in ("smooth", "constrained", "contact", "gate")][0] or "", integ,
                        [t for t in tags if t.startswith("cone:")][0], [t for t in tags if t.startswith("solver:")][0],
                        "f64" if x64 else "f32", "ncon%d" % min(nact, 3), "nefc%d" % min(nrow // 4, 3),
                        "h%x" % (core.stable_hash(*feat) & 0xfff)])
        P.case(key, nontrivial=True, sample={"tags": tags, "nv": int(m.nv), "nactive_contacts": nact, "nefc": nrow}
               if si == 0 else None)
        P.count("states_compared")
        P.count("fields_compared", len(POS_FIELDS + VEL_FIELDS + ACT_FIELDS + IMPL_FIELDS) + 3 + m.nsensor)
        if nact:
            P.count("states_with_active_contacts")
            if "capcap" in tags:
                P.count("capsule_capsule_clipped_segment_states")
        if nrow:
            P.count("states_with_constraint_rows")
        P.note_max("active_contacts", nact)
        P.note_max("nefc", nrow)
        if not problems:
            continue
        P.count("states_with_differences")
        tree_box = {}

        def get_tree():
            if "v" not in tree_box:
                tree_box["v"] = _tree_values(xml, st) or False
                P.count("tree_build_consulted_states" if tree_box["v"] else "tree_build_unavailable_states")
            return tree_box["v"]
        cf = _Counterfactuals(R, m, mx, st, dx, (dcf, dcs, dxf, dxs), x64, smap, integ, P, get_tree)
        causes = _known_causes(R, m, mx, st, dcf, dcs, dxf, dxs, cf)
        seen = set()
        for name, det in problems:
            sig = name
            if isinstance(det, dict) and "mjx" in det and "tol" in det and not name.startswith(("contact", "efc")):
                # reference-version skew triage (see ASSUMPTIONS): tree sides with MJX at the field's own tolerance AND
                # differs from the wheel by more than it
                tree = get_tree()
                verdict = _reference_skew(name, det, tree) if tree else None
                if verdict is not None:
                    P.count("tree_build_decisions")
                    P.count("tree_build_decided[%s]" % verdict)
                if verdict == "skew":
                    P.count("reference_skew_wheel_vs_tree[%s]" % name.split("[")[0])
                    continue
            cause = _attribute(name, det, causes, cf, P)
            if cause is not None and cause.startswith("documented:"):
                P.count("documented_difference_not_judged[%s]" % cause[11:])
                continue
            if cause is not None:
                sig = cause
            if sig in seen:
                continue
            seen.add(sig)
            dd = dict(detail_base or {})
            dd.update({"xml": xml, "tags": tags, "state": st, "field": name, "x64": x64, "diff": det})
            P.violation("mjx-differs-from-c-engine:%s" % sig, dd)


# ------------------------------------------------------------------------------------------------------------------
# reference-version skew triage: the tree's own C build
_TREE = {}


def _tree_values(xml, st):
    """Side channel: the tree's own C build (rel flavour) on the same XML and state -> (forward Data, stepped Data) or None."""
    import numpy as _np
    try:
        from .. import drv
        if "L" not in _TREE:
            _TREE["L"] = drv.Lib("rel")
        L = _TREE["L"]
        out = []
        for what in ("forward", "step"):
            tm = L.load_xml_string(xml)
            td = tm.make_data()
            for k in ("qpos", "qvel", "act", "ctrl", "qfrc_applied", "mocap_pos", "mocap_quat", "qacc_warmstart",
                      "xfrc_applied", "eq_active"):
                a = td[k]
                if getattr(a, "size", 0):
                    a[...] = _np.asarray(st[k]).reshape(a.shape)
            td.view_time = None
            try:
                td["time"][...] = st["time"]
            except Exception:
                pass
            if what == "forward":
                td.forward()
            else:
                td.step(1)
            out.append(td)
        return out
    except Exception:
        return None


def _reference_skew(name, det, tree):
    """'skew'   : the tree's C engine reproduces MJX's value at the field's own tolerance AND differs from the wheel's value
                  by more than that tolerance (the wheel is the odd one out: version skew, not judged);
       'judged' : the tree build was evaluated and does not clear MJX (tree == wheel, or MJX differs from both);
       None     : the tree build does not expose this field under that name/shape (judged against the wheel)."""
    tf, ts = tree
    t = float(det["tol"])
    try:
        if name.startswith("step_"):
            ref = ts[name[5:].split("[")[0]]
        elif name.startswith("sensor_"):
            ref = np.asarray(tf["sensordata"], float).ravel()[det["adr"]:det["adr"] + det["dim"]]
        else:
            ref = tf[name]
        ref = np.asarray(ref, float).ravel()
        xv = np.asarray(det["mjx"], float).ravel()
        wv = np.asarray(det["c"], float).ravel()
        if ref.shape != xv.shape or ref.shape != wv.shape:
            return None
    except Exception:
        return None
    if _relerr(xv, ref) <= t and _relerr(ref, wv) > t:
        return "skew"
    return "judged"


# ------------------------------------------------------------------------------------------------------------------
# counterfactual machinery
def _staged_forward(mj, m, d, hooks=(), sensors=True):
    """mj_forward as its public stages, with `hooks` run between mj_fwdAcceleration and mj_fwdConstraint (efc_aref is final
    there). Validated against mj_forward by the caller before any hook is trusted."""
    mj.mj_fwdPosition(m, d)
    if sensors:
        mj.mj_sensorPos(m, d)
    mj.mj_fwdVelocity(m, d)
    if sensors:
        mj.mj_sensorVel(m, d)
    mj.mj_fwdActuation(m, d)
    mj.mj_fwdAcceleration(m, d)
    for h in hooks:
        h(m, d)
    mj.mj_fwdConstraint(m, d)
    if sensors:
        mj.mj_sensorAcc(m, d)


_RK4_A = ((0.5, 0.0, 0.0), (0.0, 0.5, 0.0), (0.0, 0.0, 1.0))
_RK4_B = (1.0 / 6.0, 1.0 / 3.0, 1.0 / 3.0, 1.0 / 6.0)


def _staged_rk4(mj, m, d, hooks):
    """mj_RungeKutta(N=4) re-enacted on top of _staged_forward (d already holds the staged forward of stage 0)."""
    import copy
    h, t0 = float(m.opt.timestep), float(d.time)
    q0, v0, a0 = d.qpos.copy(), d.qvel.copy(), d.act.copy()
    X = [v0.copy()]
    F = [(d.qacc.copy(), d.act_dot.copy())]
    for i in range(1, 4):
        dv = sum(_RK4_A[i - 1][j] * X[j] for j in range(i))
        da = sum(_RK4_A[i - 1][j] * F[j][0] for j in range(i))
        dact = sum(_RK4_A[i - 1][j] * F[j][1] for j in range(i))
        q = q0.copy()
        mj.mj_integratePos(m, q, dv, h)
        d.qpos[:] = q
        d.qvel[:] = v0 + h * da
        if m.na:
            d.act[:] = a0 + h * dact
        d.time = t0 + sum(_RK4_A[i - 1][:i]) * h
        _staged_forward(mj, m, d, hooks, sensors=False)
        X.append(d.qvel.copy())
        F.append((d.qacc.copy(), d.act_dot.copy()))
    dv = sum(_RK4_B[j] * X[j] for j in range(4))
    da = sum(_RK4_B[j] * F[j][0] for j in range(4))
    dact = sum(_RK4_B[j] * F[j][1] for j in range(4))
    d.time = t0
    d.qpos[:] = q0
    d.qvel[:] = v0
    if m.na:
        d.act[:] = a0
        d.act_dot[:] = dact
    d.qacc[:] = da
    # mj_advance(act_dot, qacc, qvel=dv): mj_Euler without implicit damping advances act/qvel/time identically; qpos is redone
    m2 = copy.copy(m)
    m2.opt.disableflags = int(m.opt.disableflags) | int(mj.mjtDisableBit.mjDSBL_EULERDAMP)
    mj.mj_Euler(m2, d)
    q = q0.copy()
    mj.mj_integratePos(m, q, dv, h)
    d.qpos[:] = q


def _dense_qderiv(mj, m, d):
    D = np.zeros((m.nv, m.nv))
    src = m if hasattr(m, "D_rownnz") else d
    mj.mju_sparse2dense(D, d.qDeriv, src.D_rownnz, src.D_rowadr, src.D_colind)
    return D


def _velocity_update_numeric(mj, m, d, delta, skew=None, tree_qvel=None, P=None):
    """Next state of the Euler / implicitfast integrator recomputed in numpy from C's forward data `d`:
        qvel+ = qvel + h * (M - h*(D + delta))^-1 (qfrc_smooth + qfrc_constraint)
    implicitfast: D = C's qDeriv as used by mj_implicit (lower triangle on M's sparsity pattern, mirrored);
    Euler: D = -diag(dof_damping) when the C engine integrates joint damping implicitly (neither eulerdamp nor damper disabled),
    else 0. Returns an object with qpos/qvel/act/time, or None when the formula with delta = 0 does not reproduce the C
    integrator itself to 1e-9 (the formula is only trusted after that validation; for the undamped Euler branch, which uses
    the solver's qacc without a linear solve, the validation is done on C's damped branch instead - see below). `skew` (optional): a modelled difference
    between the wheel's and the tree's D; it is added only when the tree build's next velocity `tree_qvel` differs from the
    wheel's and the formula with `skew` reproduces it to 1e-7 - the counterfactual is then about the tree's engine."""
    import types
    d2 = mj.MjData(m)
    mj.mj_copyData(d2, m, d)
    h = float(m.opt.timestep)
    M = np.zeros((m.nv, m.nv))
    mj.mj_fullM(m, d, M)
    if int(m.opt.integrator) == int(mj.mjtIntegrator.mjINT_EULER):
        mj.mj_Euler(m, d2)
        dis = int(m.opt.disableflags)
        damped = not (dis & int(mj.mjtDisableBit.mjDSBL_EULERDAMP)) and not (dis & int(mj.mjtDisableBit.mjDSBL_DAMPER))
        Dsym = -np.diag(np.array(m.dof_damping)) if damped else np.zeros((m.nv, m.nv))
    else:
        mj.mj_implicit(m, d2)
        D = _dense_qderiv(mj, m, d2)
        L = np.tril(D) * (M != 0)
        Dsym = L + L.T - np.diag(np.diag(L))
    f = np.array(d.qfrc_smooth) + np.array(d.qfrc_constraint)

    def nxt(dl):
        return np.array(d.qvel) + h * np.linalg.solve(M - h * (Dsym + dl), f)
    validated = _relerr(nxt(0.0), d2.qvel) <= 1e-9
    via_damped_branch = False
    if not validated and int(m.opt.integrator) == int(mj.mjtIntegrator.mjINT_EULER) and not damped \
            and np.any(np.array(m.dof_damping) > 0):
        # C's UNDAMPED Euler branch performs no linear solve: it advances with the solver's qacc itself, so the formula with
        # delta = 0 differs from it by h*(M^-1 (qfrc_smooth + qfrc_constraint) - qacc), the residual of C's constraint solver
        # (CG far from tolerance-exact at large |qacc|), which says nothing about the formula. The formula is then validated,
        # at the same 1e-9, on the branch of the C integrator that DOES solve (M + h*diag(damping)) x = qfrc_smooth +
        # qfrc_constraint: mj_Euler on the same forward data with the eulerdamp/damper flags cleared for that call only; and
        # the undamped branch must be exactly qvel + h*qacc.
        import copy
        md = copy.copy(m)
        md.opt.disableflags = int(m.opt.disableflags) & ~int(mj.mjtDisableBit.mjDSBL_EULERDAMP) & ~int(mj.mjtDisableBit.mjDSBL_DAMPER)
        d3 = mj.MjData(m)
        mj.mj_copyData(d3, m, d)
        mj.mj_Euler(md, d3)
        v_damped = np.array(d.qvel) + h * np.linalg.solve(M + h * np.diag(np.array(m.dof_damping, float)), f)
        validated = _relerr(v_damped, d3.qvel) <= 1e-9 and _relerr(v_damped, d2.qvel) > 1e-9 \
            and _relerr(np.array(d.qvel) + h * np.array(d.qacc), d2.qvel) <= 1e-12
        via_damped_branch = validated
        if validated and P is not None:
            P.count("counterfactual_euler_formula_validated_on_damped_branch_of_C_integrator")
    if not validated:
        return None
    if skew is not None and tree_qvel is not None and np.any(skew != 0) and _relerr(np.asarray(tree_qvel, float), d2.qvel) > 1e-9:
        # known wheel-vs-tree skew in qDeriv (see _known_causes): use the TREE's update, reconstructed as the wheel's formula
        # plus the skew term, but only if that reconstruction reproduces the tree build's own next velocity
        if _relerr(nxt(skew), np.asarray(tree_qvel, float)) <= 1e-7:
            delta = delta + skew
            if P is not None:
                P.count("counterfactual_on_tree_update_reconstructed_from_wheel_plus_validated_skew")
        elif P is not None:
            P.count("counterfactual_skew_term_not_validated_by_tree")
    # formula validated on the damped branch only: with nothing added, the update IS the C integrator's own (undamped) one
    v = np.array(d2.qvel) if (via_damped_branch and not np.any(np.asarray(delta) != 0)) else nxt(delta)
    q = np.array(d.qpos)
    mj.mj_integratePos(m, q, v, h)
    return types.SimpleNamespace(qpos=q, qvel=v, act=np.array(d2.act), time=float(d2.time))


class _Counterfactuals:
    """Lazy counterfactual re-runs of one state. A cause contributes a `spec` (dict) with any of
         c_model(m2)           edit a copy of the wheel's MjModel (feature switched off in the C engine)
         c_hook(m, d)          edit mjData between mj_fwdAcceleration and mj_fwdConstraint of every forward evaluation
         c_delta  (nv x nv)    add to the velocity-derivative matrix D of C's Euler / implicitfast velocity update
         mjx_data(dx) -> dx    edit MJX's input data            mjx_model(mx) -> mx    edit MJX's model
         mjx_rebuild() -> (mx, dx)   MJX model/data rebuilt from an edited MjModel (applied first)
       remaining(specs) -> set of _pkey of the differences that SURVIVE the counterfactual (None if it cannot be run)."""

    def __init__(self, R, m, mx, st, dx, base, x64, smap, integ, P, get_tree=None):
        self.R, self.m, self.mx, self.st, self.dx, self.base = R, m, mx, st, dx, base
        self.x64, self.smap, self.integ, self.P = x64, smap, integ, P
        self.cache = {}
        self.get_tree = get_tree
        self.skew_delta = None      # set by _known_causes: modelled wheel-vs-tree difference of qDeriv

    def remaining(self, named_specs):
        key = tuple(sorted(n for n, _ in named_specs))
        if key not in self.cache:
            try:
                self.cache[key] = self._run([s for _, s in named_specs])
            except Exception as e:
                self.P.count("counterfactual_failed[%s]" % type(e).__name__)
                self.cache[key] = None
            self.P.count("counterfactual_runs" if self.cache[key] is not None else "counterfactual_unavailable")
        return self.cache[key]

    def _c_side(self, specs):
        import copy
        from .. import mjxrepo
        mj, m = self.R.mujoco, self.m
        edits = [s["c_model"] for s in specs if "c_model" in s]
        hooks = [s["c_hook"] for s in specs if "c_hook" in s]
        deltas = [s["c_delta"] for s in specs if "c_delta" in s]
        dcf, dcs = self.base[0], self.base[1]
        if not (edits or hooks or deltas):
            return dcf, dcs
        m2 = m
        if edits:
            m2 = copy.copy(m)
            for e in edits:
                e(m2)
        integ = int(m.opt.integrator)
        I = mj.mjtIntegrator

        def sim(hk, dl, validating=False):
            f = mj.MjData(m2)
            mjxrepo.set_state_dict(m2, f, self.st)
            _staged_forward(mj, m2, f, hk)
            s = mj.MjData(m2)
            mj.mj_copyData(s, m2, f)
            if integ == int(I.mjINT_RK4):
                _staged_rk4(mj, m2, s, hk)
            elif dl is not None:
                tq = None
                if self.skew_delta is not None and not edits and not validating and self.get_tree is not None:
                    tree = self.get_tree()
                    tq = np.array(tree[1]["qvel"], float) if tree else None
                s = _velocity_update_numeric(mj, m2, f, dl, skew=self.skew_delta, tree_qvel=tq, P=self.P)
            elif integ == int(I.mjINT_EULER):
                mj.mj_Euler(m2, s)
            else:
                mj.mj_implicit(m2, s)
            return f, s
        if hooks or deltas:
            # trust the staged pipeline only if, without hooks, it reproduces mj_forward / mj_step of the same model
            rf = mj.MjData(m2)
            mjxrepo.set_state_dict(m2, rf, self.st)
            mj.mj_forward(m2, rf)
            rs = mj.MjData(m2)
            mjxrepo.set_state_dict(m2, rs, self.st)
            mj.mj_step(m2, rs)
            f0, s0 = sim([], 0.0 if deltas else None, validating=True)
            if s0 is None or max(_relerr(f0.qacc, rf.qacc), _relerr(f0.sensordata, rf.sensordata),
                                 _relerr(f0.efc_force, rf.efc_force) if rf.nefc == f0.nefc else 1.0,
                                 _relerr(s0.qpos, rs.qpos), _relerr(s0.qvel, rs.qvel), _relerr(s0.act, rs.act)) > 1e-9:
                self.P.count("counterfactual_staged_pipeline_not_validated")
                return None
            self.P.count("counterfactual_staged_pipeline_validated")
            f, s = sim(hooks, sum(deltas) if deltas else None)
            return (f, s) if s is not None else None
        f = mj.MjData(m2)
        mjxrepo.set_state_dict(m2, f, self.st)
        mj.mj_forward(m2, f)
        s = mj.MjData(m2)
        mjxrepo.set_state_dict(m2, s, self.st)
        mj.mj_step(m2, s)
        return f, s

    def _run(self, specs):
        R = self.R
        c = self._c_side(specs)
        if c is None:
            return None
        mx2, dx2 = self.mx, self.dx
        changed = False
        for s in specs:
            if "mjx_rebuild" in s:
                mx2, dx2 = s["mjx_rebuild"]()
                changed = True
        for s in specs:
            if "mjx_model" in s:
                mx2, changed = s["mjx_model"](mx2), True
            if "mjx_data" in s:
                dx2, changed = s["mjx_data"](dx2), True
        if changed:
            fs, _ = _fs(R)
            dxf, dxs = fs(mx2, dx2)
            R.jax.block_until_ready(dxs.qpos)
        else:
            dxf, dxs = self.base[2], self.base[3]
        probs, _ = _compare_state(R, self.m, mx2, c[0], c[1], dxf, dxs, self.x64, core.Part(), self.smap, self.integ,
                                  clip_acc_cutoff=any(s.get("clip_acc_cutoff") for s in specs))
        return {_pkey(n, d) for n, d in probs}


def _attribute(name, det, causes, cf, P):
    """Signature of the known finding whose mechanism is CONFIRMED to produce this difference, else None."""
    key = _pkey(name, det)
    inscope = [c for c in causes if c["scope"](name, det)]
    for c in inscope:
        if c.get("root") is not None and c["root"](name, det):
            P.count("attributed_by_structural_test[%s]" % c["sig"])
            return c["sig"]
        if c.get("spec") is not None:
            rem = cf.remaining([(c["sig"], c["spec"])])
            if rem is not None and key not in rem:
                P.count("attributed_by_counterfactual[%s]" % c["sig"])
                return c["sig"]
    # several known mechanisms active in the same state: neutralise all of them together
    withspec = [c for c in causes if c.get("spec") is not None]
    if inscope and len(withspec) >= 2 and any(c.get("spec") is not None for c in inscope):
        rem = cf.remaining([(c["sig"], c["spec"]) for c in withspec])
        if rem is not None and key not in rem:
            c = [c for c in inscope if c.get("spec") is not None][0]
            P.count("attributed_by_joint_counterfactual[%s]" % c["sig"])
            return c["sig"]
    for c in inscope:
        P.count("in_scope_but_not_confirmed[%s]" % c["sig"])
    return None


def _tree_pattern(m):
    """sparsity pattern of the C engine's inertia matrix: dof pairs in ancestor relation"""
    pat = np.zeros((m.nv, m.nv), bool)
    for i in range(m.nv):
        k = i
        while k >= 0:
            pat[i, k] = pat[k, i] = True
            k = int(m.dof_parentid[k])
    return pat


def mjx_sparse(R, m):
    try:
        return bool(R.src["support"].is_sparse(m))
    except Exception:
        return False


def _scope(fields=(), step=(), sensors=(), efc=None):
    fields, step, sensors = set(fields), set(step), {int(s) for s in sensors}

    def f(name, det):
        if name in fields:
            return True
        if name.startswith("step_"):
            return name[5:].split("[")[0] in step
        if name.startswith("sensor_"):
            return int(det.get("stype", -1)) in sensors
        if efc is not None and name.startswith("efc"):
            return bool(efc(name, det))
        return False
    return f


def _known_causes(R, m, mx, st, dcf, dcs, dxf, dxs, cf):
    """Known findings that can be ACTIVE in this model/state. Each entry: sig, scope(name, det) (explicit fields, constraint-row
    kinds and mjtSensor types the mechanism can reach), and a confirmation: root(name, det) = structural test on the
    differing value itself, and/or spec = counterfactual in which exactly this mechanism is neutralised (see _Counterfactuals).
    Order matters only when two confirmed mechanisms reach the same field."""
    mj, jp = R.mujoco, R.jp
    S, T, D = mj.mjtSensor, mj.mjtConstraint, mj.mjtDisableBit
    out = []
    dis = int(m.opt.disableflags)
    off = lambda bit: bool(dis & int(bit))
    ACC_BODY = [S.mjSENS_ACCELEROMETER, S.mjSENS_FORCE, S.mjSENS_TORQUE, S.mjSENS_FRAMELINACC, S.mjSENS_FRAMEANGACC,
                S.mjSENS_TOUCH]          # acceleration-stage sensors that read cacc / cfrc_int / efc_force
    ACT_FRC = [S.mjSENS_ACTUATORFRC, S.mjSENS_JOINTACTFRC, S.mjSENS_TENDONACTFRC]
    allzero = lambda v: bool(np.all(np.asarray(v, float) == 0))
    tolof = lambda det: float(det.get("tol", 1e-6))
    any_efc_force = lambda name, det: name == "efc_force"

    # 0. euler(): joint damping integrated implicitly although the damper flag is disabled --------------------------------
    if int(m.opt.integrator) == int(mj.mjtIntegrator.mjINT_EULER) and off(D.mjDSBL_DAMPER) and not off(D.mjDSBL_EULERDAMP) \
            and np.any(np.array(m.dof_damping) > 0):
        out.append({
            "sig": "euler-integrates-joint-damping-implicitly-although-damper-flag-disabled",
            "scope": _scope(step=["qpos", "qvel"]),
            # C's Euler velocity update recomputed with M + h*diag(dof_damping) (what MJX solves) must reproduce MJX
            "spec": {"c_delta": -np.diag(np.array(m.dof_damping, float))},
        })
    # 1. passive(): early return when EITHER spring or damper is disabled -----------------------------------------------
    if off(D.mjDSBL_SPRING) != off(D.mjDSBL_DAMPER) and allzero(dxf.qfrc_passive) and allzero(dxf.qfrc_gravcomp) \
            and not (allzero(dcf.qfrc_passive) and allzero(dcf.qfrc_gravcomp)):
        actgc = np.array(m.jnt_actgravcomp)[np.array(m.dof_jntid)].astype(float) if m.nv else np.zeros(0)
        comp = np.array(dcf.qfrc_passive, float)
        # the zeroed qfrc_gravcomp is also missing from qfrc_actuator of actuatorgravcomp joints (added BEFORE the joint
        # actuatorfrcrange clamp): confirmed by the C engine with BOTH flags disabled (all passive forces and gravcomp off, which
        # is what MJX computed), whose qfrc_actuator must equal MJX's; the difference is then part of the compensation
        act_gc_confirmed = False
        if np.any(actgc != 0) and np.any(np.array(dcf.qfrc_gravcomp) * actgc != 0):
            import copy
            from .. import mjxrepo
            mb = copy.copy(m)
            mb.opt.disableflags = int(m.opt.disableflags) | int(D.mjDSBL_SPRING) | int(D.mjDSBL_DAMPER)
            db = mj.MjData(mb)
            mjxrepo.set_state_dict(mb, db, st)
            mj.mj_forward(mb, db)
            if _relerr(np.asarray(dxf.qfrc_actuator), db.qfrc_actuator) <= 1e-6 if R.x64 else 2e-3:
                act_gc_confirmed = True
                comp = comp + (np.array(dcf.qfrc_actuator, float) - np.asarray(dxf.qfrc_actuator, float))
        out.append({
            "sig": "passive-forces-skipped-when-only-one-of-spring-damper-disabled",
            "scope": _scope(fields=["qfrc_passive", "qfrc_gravcomp", "qfrc_smooth", "qacc_smooth", "qacc", "qfrc_constraint"]
                            + (["qfrc_actuator"] if act_gc_confirmed else []),
                            step=["qpos", "qvel"], sensors=ACC_BODY + ([S.mjSENS_JOINTACTFRC] if act_gc_confirmed else []),
                            efc=any_efc_force),
            # root: MJX's early return leaves exact zeros in both arrays (qfrc_actuator: see act_gc_confirmed above)
            "root": lambda name, det: (name in ("qfrc_passive", "qfrc_gravcomp") and allzero(det["mjx"]))
            or (act_gc_confirmed and (name == "qfrc_actuator" or det.get("stype") == int(S.mjSENS_JOINTACTFRC))),
            # downstream: give MJX the missing generalized force as qfrc_applied; everything must then agree with C
            "spec": {"mjx_data": lambda dx, comp=comp: dx.replace(qfrc_applied=dx.qfrc_applied + jp.array(comp, dtype=dx.qfrc_applied.dtype))},
        })
    # 2. actuation disabled: C zeroes actuator_velocity ------------------------------------------------------------------
    if off(D.mjDSBL_ACTUATION) and m.nu:
        out.append({
            "sig": "actuator_velocity-not-zeroed-when-actuation-disabled",
            "scope": _scope(fields=["actuator_velocity"], sensors=[S.mjSENS_ACTUATORVEL]),
            "root": lambda name, det: allzero(det["c"]),
        })
    if off(D.mjDSBL_ACTUATION) and m.na:
        alim = np.zeros(m.na, bool)
        arng = np.zeros((m.na, 2))
        for i in range(m.nu):
            if int(m.actuator_actadr[i]) >= 0 and m.actuator_actlimited[i]:
                j = int(m.actuator_actadr[i]) + int(m.actuator_actnum[i]) - 1
                alim[j], arng[j] = True, m.actuator_actrange[i]
        act0 = np.array(st["act"], float)

        def act_root(name, det):
            c, x = np.asarray(det["c"], float), np.asarray(det["mjx"], float)
            # the C engine does not touch act; MJX equals it except where it clamped a limited activation into its actrange
            return bool(np.array_equal(c, act0) and np.all((x == c) | (alim & (np.abs(x - np.clip(c, arng[:, 0], arng[:, 1])) <= 1e-12))))
        out.append({
            "sig": "activations-clamped-to-actrange-although-actuation-disabled",
            "scope": _scope(step=["act"]),
            "root": act_root,
        })
    # 3. public field qfrc_fluid never written ---------------------------------------------------------------------------
    if float(m.opt.density) > 0 or float(m.opt.viscosity) > 0:
        out.append({
            "sig": "qfrc_fluid-field-never-written",
            "scope": _scope(fields=["qfrc_fluid"]),
            "root": lambda name, det: allzero(det["mjx"]),
        })
    # 4. static, body-local inside-test of the side site ----------------------------------------------------------------
    wrap_geom = np.nonzero(np.isin(np.array(m.wrap_type), [int(mj.mjtWrap.mjWRAP_SPHERE), int(mj.mjtWrap.mjWRAP_CYLINDER)]))[0]
    static = np.asarray(mx._impl.is_wrap_inside).astype(bool)
    if len(wrap_geom) and static.shape == (len(wrap_geom),):
        side = np.round(np.array(m.wrap_prm)[wrap_geom]).astype(int)
        gid = np.array(m.wrap_objid)[wrap_geom]
        # C (mju_wrap): side site inside iff |site_xpos[side] - geom_xpos| < radius, evaluated at this state in the world frame
        truth = np.array([s >= 0 and np.linalg.norm(dcf.site_xpos[s] - dcf.geom_xpos[g]) < m.geom_size[g, 0]
                          for s, g in zip(side, gid)], bool)
        if np.any(truth != static):
            arm = bool(np.any(np.array(m.tendon_armature) > 0)) if hasattr(m, "tendon_armature") else False
            TEN_ROWS = (int(T.mjCNSTR_FRICTION_TENDON), int(T.mjCNSTR_LIMIT_TENDON))

            def wrap_efc(name, det):
                if name == "efc_force":
                    return True
                return det.get("type") in TEN_ROWS or (det.get("type") == int(T.mjCNSTR_EQUALITY)
                                                      and det.get("eq_type") == int(mj.mjtEq.mjEQ_TENDON))
            out.append({
                "sig": "wrap-inside-test-uses-body-local-coordinates-of-sidesite-and-geom",
                "scope": _scope(fields=["ten_length", "ten_J", "ten_velocity", "actuator_length", "actuator_moment",
                                        "actuator_velocity", "actuator_force", "qfrc_actuator", "qfrc_passive", "qfrc_smooth",
                                        "qacc_smooth", "qacc", "qfrc_constraint", "efc-row-count"] + (["M"] if arm else []),
                                step=["qpos", "qvel"], efc=wrap_efc,
                                sensors=[S.mjSENS_TENDONPOS, S.mjSENS_TENDONVEL, S.mjSENS_ACTUATORPOS, S.mjSENS_ACTUATORVEL]
                                + ACT_FRC + ACC_BODY),
                # give MJX the flag that the world-frame test yields at this state; everything must then agree with C
                "spec": {"mjx_model": lambda mx_, truth=truth: mx_.tree_replace({"_impl.is_wrap_inside": truth})},
            })
    # 4b. tendon armature: coupling between dofs of DIFFERENT branches --------------------------------------------------------
    if m.ntendon and np.any(np.array(m.tendon_armature) > 0) and not mjx_sparse(R, m):
        tj = np.zeros((m.ntendon, m.nv))
        try:
            mj.mju_sparse2dense(tj, dcf.ten_J, m.ten_J_rownnz, m.ten_J_rowadr, m.ten_J_colind)
        except Exception:
            tj = np.array(dcf.ten_J).reshape(m.ntendon, m.nv)
        full = sum(float(m.tendon_armature[t]) * np.outer(tj[t], tj[t]) for t in range(m.ntendon))
        dropped = full * ~_tree_pattern(m)
        if np.any(np.abs(dropped) > 0):
            def rebuild():
                import copy
                from .. import mjxrepo
                m2 = copy.copy(m)
                m2.opt.jacobian = int(mj.mjtJacobian.mjJAC_SPARSE)
                mx2 = R.mjx.put_model(m2)
                d2 = mj.MjData(m2)
                mjxrepo.set_state_dict(m2, d2, st)
                return mx2, _to_mjx_data(R, m2, mx2, d2)
            out.append({
                "sig": "dense-M-keeps-tendon-armature-coupling-between-branches-that-the-C-engine-drops",
                "scope": _scope(fields=["M", "qacc_smooth", "qacc", "qfrc_constraint", "qfrc_bias", "qfrc_smooth", "efc-row-count"],
                                step=["qpos", "qvel"], sensors=ACC_BODY + ACT_FRC,
                                efc=lambda name, det: name in ("efc_force", "efc_D", "efc_aref")),
                # root (M itself): MJX - C is exactly the out-of-pattern part of sum_t armature_t J_t^T J_t
                "root": lambda name, det: name == "M" and _relerr(np.asarray(det["mjx"], float) - np.asarray(det["c"], float), dropped)
                <= max(tolof(det), 1e-6),
                # downstream: MJX with the sparse inertia-matrix layout (which restricts J^T A J to M's pattern like C) must agree
                "spec": {"mjx_rebuild": rebuild},
            })
    # 4c. violated tendon limit on a tendon with an all-zero Jacobian ------------------------------------------------------
    if m.ntendon and not off(D.mjDSBL_LIMIT) and not off(D.mjDSBL_CONSTRAINT):
        tj0 = np.zeros((m.ntendon, m.nv))
        try:
            mj.mju_sparse2dense(tj0, dcf.ten_J, m.ten_J_rownnz, m.ten_J_rowadr, m.ten_J_colind)
        except Exception:
            tj0 = np.array(dcf.ten_J).reshape(m.ntendon, m.nv)
        ln, rg, mg = np.array(dcf.ten_length), np.array(m.tendon_range), np.array(m.tendon_margin)
        stuck = [t for t in range(m.ntendon) if m.tendon_limited[t] and not np.any(tj0[t] != 0)
                 and min(ln[t] - rg[t, 0], rg[t, 1] - ln[t]) < mg[t]]
        c_has_row = any(int(dcf.efc_type[i]) == int(T.mjCNSTR_LIMIT_TENDON) and int(dcf.efc_id[i]) in stuck for i in range(int(dcf.nefc)))
        if stuck and not c_has_row:
            wide = np.array(m.tendon_range, float)
            for t in stuck:
                wide[t] = [-1e6, 1e6]
            out.append({
                "sig": "violated-limit-of-tendon-with-zero-jacobian-kept-as-row-and-stalls-solver",
                "scope": _scope(fields=["qacc", "qfrc_constraint"], step=["qpos", "qvel"], sensors=ACC_BODY, efc=any_efc_force),
                # MJX with that limit made unreachable (the C engine skips constraints whose Jacobian is empty) must agree with C
                "spec": {"mjx_model": lambda mx_, wide=wide: mx_.replace(tendon_range=jp.array(wide, dtype=mx_.tendon_range.dtype))},
            })
    # 5. actearly ignored -------------------------------------------------------------------------------------------------
    early = np.array(m.actuator_actearly).astype(bool) & (np.array(m.actuator_dyntype) != int(mj.mjtDyn.mjDYN_NONE)) \
        if m.nu else np.zeros(0, bool)
    if m.nu and early.any() and not off(D.mjDSBL_ACTUATION):
        def no_actearly(m2):
            m2.actuator_actearly[:] = 0
        out.append({
            "sig": "actuator-actearly-ignored",
            "scope": _scope(fields=["actuator_force", "qfrc_actuator", "qfrc_smooth", "qacc_smooth", "qacc", "qfrc_constraint"],
                            step=["qpos", "qvel"], sensors=ACT_FRC + ACC_BODY, efc=any_efc_force),
            # the C engine with actearly switched off must reproduce MJX
            "spec": {"c_model": no_actearly},
        })
    # 6. connect / weld reference acceleration lacks Jdot*v ---------------------------------------------------------------
    ne = int(dcf.ne)
    cw_rows = [i for i in range(ne) if int(dcf.efc_type[i]) == int(T.mjCNSTR_EQUALITY)
               and int(m.eq_type[int(dcf.efc_id[i])]) in (int(mj.mjtEq.mjEQ_CONNECT), int(mj.mjtEq.mjEQ_WELD))]
    if cw_rows and np.any(np.array(st["qvel"], float) != 0):
        def aref_without_jdotv(d, i):
            # mj_referenceConstraint before mj_Jdotv: aref = -B*vel - K*I*(pos - margin), from C's own row quantities
            K = np.array(d.efc_KBIP).reshape(-1, 4)[i]
            return float(-K[1] * d.efc_vel[i] - K[0] * K[2] * (d.efc_pos[i] - d.efc_margin[i]))

        def hook(m_, d_):
            for i in range(int(d_.ne)):
                if int(d_.efc_type[i]) == int(T.mjCNSTR_EQUALITY) and \
                        int(m_.eq_type[int(d_.efc_id[i])]) in (int(mj.mjtEq.mjEQ_CONNECT), int(mj.mjtEq.mjEQ_WELD)):
                    d_.efc_aref[i] = aref_without_jdotv(d_, i)

        def root(name, det):
            if name != "efc_aref" or det.get("c_row") not in cw_rows:
                return False
            ref = aref_without_jdotv(dcf, det["c_row"])
            return abs(det["mjx"] - ref) <= tolof(det) * max(1.0, abs(ref)) and abs(det["c"] - ref) > tolof(det) * max(1.0, abs(ref))
        out.append({
            "sig": "connect-weld-reference-acceleration-lacks-Jdot-v-term",
            "scope": _scope(fields=["qfrc_constraint", "qacc"], step=["qpos", "qvel"], sensors=ACC_BODY,
                            efc=lambda name, det: name == "efc_force" or (name == "efc_aref" and det.get("c_row") in cw_rows)),
            "root": root,
            # the C engine with the Jdot*v term removed from those rows (staged pipeline) must reproduce MJX
            "spec": {"c_hook": hook},
        })
    # 7. cutoff not applied to framelinacc / frameangacc -----------------------------------------------------------------
    if any(int(m.sensor_type[i]) in (int(S.mjSENS_FRAMELINACC), int(S.mjSENS_FRAMEANGACC)) and m.sensor_cutoff[i] > 0
           for i in range(m.nsensor)):
        def cut_root(name, det):
            i = det.get("sensor", -1)
            if i < 0 or int(m.sensor_type[i]) not in (int(S.mjSENS_FRAMELINACC), int(S.mjSENS_FRAMEANGACC)):
                return False
            cut = float(m.sensor_cutoff[i])
            x, c = np.asarray(det["mjx"], float), np.asarray(det["c"], float)
            # C's value is MJX's value clipped to +-cutoff, and the clip is active
            return cut > 0 and bool(np.any(np.abs(x) > cut)) and _relerr(np.clip(x, -cut, cut), c) <= tolof(det)
        out.append({
            "sig": "sensor-cutoff-not-applied-to-framelinacc-frameangacc",
            "scope": lambda name, det: name.startswith("sensor_") and int(det.get("stype", -1)) in
            (int(S.mjSENS_FRAMELINACC), int(S.mjSENS_FRAMEANGACC)) and m.sensor_cutoff[det["sensor"]] > 0,
            "root": cut_root,
            # together with other known mechanisms: the difference must vanish when the cutoff is applied to MJX's value
            "spec": {"clip_acc_cutoff": True},
        })
    # 8. elliptic friction rows carry the contact margin in efc_pos / efc_margin -------------------------------------------
    if int(m.opt.cone) == int(mj.mjtCone.mjCONE_ELLIPTIC):
        def ell_root(name, det):
            t = tolof(det)
            return det.get("type") == int(T.mjCNSTR_CONTACT_ELLIPTIC) and bool(det.get("friction_row")) and det["c"] == 0.0 \
                and det.get("includemargin", 0.0) > 0 and abs(det["mjx"] - det["includemargin"]) <= t \
                and abs(det["mjx_pm"] - det["c_pm"]) <= t
        out.append({
            "sig": "elliptic-friction-rows-report-contact-margin-in-efc_pos-and-efc_margin",
            "scope": _scope(efc=lambda name, det: name in ("efc_pos", "efc_margin")),
            "root": ell_root,
        })
    # 9. forward() returns before sensor_acc when there are no constraint rows ---------------------------------------------
    if int(dxf._impl.nefc) == 0:
        acc_types = {int(m.sensor_type[i]) for i in range(m.nsensor) if int(m.sensor_needstage[i]) == int(mj.mjtStage.mjSTAGE_ACC)}
        out.append({
            "sig": "acc-stage-sensors-skipped-when-model-has-no-constraint-rows",
            "scope": _scope(sensors=acc_types),
            "root": lambda name, det: det.get("stage") == int(mj.mjtStage.mjSTAGE_ACC) and det.get("nefc_mjx") == 0
            and allzero(det["mjx"]),
        })
    if int(m.opt.integrator) == int(mj.mjtIntegrator.mjINT_IMPLICITFAST):
        # documented (computation/index.rst, implicitfast: "For standalone free bodies, the dropped gyroscopic derivatives are
        # reinstated with a local unsymmetric solve"); doc/mjx.rst is silent and MJX has no such term. Not judged ONLY IF both
        # engines agree again when the free bodies' inertia is made spherical (gyroscopic torque w x Iw and its derivative vanish)
        free_b = [int(m.jnt_bodyid[j]) for j in range(m.njnt) if int(m.jnt_type[j]) == int(mj.mjtJoint.mjJNT_FREE)]
        free_b = [b for b in free_b if np.ptp(np.array(m.body_inertia[b])) > 1e-9 * max(1e-12, float(np.max(m.body_inertia[b])))]
        spinning = any(np.any(np.array(st["qvel"], float)[int(m.body_dofadr[b]) + 3:int(m.body_dofadr[b]) + 6] != 0) for b in free_b)
        if free_b and spinning:
            iso = np.array(m.body_inertia, float)
            for b in free_b:
                iso[b] = iso[b].mean()

            def c_iso(m2, iso=iso):
                m2.body_inertia[:] = iso
            out.append({
                "sig": "documented:implicitfast-gyroscopic-derivative-of-free-bodies-in-C",
                "scope": _scope(step=["qpos", "qvel"]),
                "spec": {"c_model": c_iso,
                         "mjx_model": lambda mx_, iso=iso: mx_.replace(body_inertia=jp.array(iso, dtype=mx_.body_inertia.dtype))},
            })
    # 10/11. implicitfast: d(actuator force)/d(qvel) ------------------------------------------------------------------------
    if int(m.opt.integrator) == int(mj.mjtIntegrator.mjINT_IMPLICITFAST) and m.nu and not off(D.mjDSBL_ACTUATION):
        mom = np.zeros((m.nu, m.nv))
        mj.mju_sparse2dense(mom, dcf.actuator_moment, dcf.moment_rownnz, dcf.moment_rowadr, dcf.moment_colind)
        d_muscle, d_clamp, d_skew = np.zeros((m.nv, m.nv)), np.zeros((m.nv, m.nv)), np.zeros((m.nv, m.nv))
        for i in range(m.nu):
            aadr = int(m.actuator_actadr[i])
            ca = float(dcf.act[aadr + int(m.actuator_actnum[i]) - 1]) if aadr >= 0 and int(m.actuator_dyntype[i]) != int(mj.mjtDyn.mjDYN_NONE) \
                else float(dcf.ctrl[i])
            force = float(dcf.actuator_force[i])
            lo, hi = m.actuator_forcerange[i]
            clamped = bool(m.actuator_forcelimited[i]) and (force <= lo or force >= hi)
            affine = (float(m.actuator_biasprm[i, 2]) if int(m.actuator_biastype[i]) == int(mj.mjtBias.mjBIAS_AFFINE) else 0.0) + \
                (float(m.actuator_gainprm[i, 2]) * ca if int(m.actuator_gaintype[i]) == int(mj.mjtGain.mjGAIN_AFFINE) else 0.0)
            if not clamped and int(m.actuator_dyntype[i]) == int(mj.mjtDyn.mjDYN_NONE) and m.actuator_ctrllimited[i] \
                    and not off(D.mjDSBL_CLAMPCTRL) and int(m.actuator_gaintype[i]) == int(mj.mjtGain.mjGAIN_AFFINE):
                # version skew (not a finding): the 3.13.0 wheel uses the clamped ctrl in d(force)/d(velocity), the tree (and
                # MJX) the raw ctrl; only used after the tree build itself has validated it (_velocity_update_numeric)
                lo_c, hi_c = m.actuator_ctrlrange[i]
                d_skew += float(m.actuator_gainprm[i, 2]) * (ca - float(np.clip(ca, lo_c, hi_c))) * np.outer(mom[i], mom[i])
            if clamped and affine != 0.0:
                # C drops the whole actuator from qDeriv, MJX keeps its affine velocity terms
                d_clamp += affine * np.outer(mom[i], mom[i])
            elif not clamped and int(m.actuator_gaintype[i]) == int(mj.mjtGain.mjGAIN_MUSCLE):
                ln, vl = float(dcf.actuator_length[i]), float(dcf.actuator_velocity[i])
                hh = 1e-6 * max(1.0, abs(vl))
                g = [mj.mju_muscleGain(ln, v, np.array(m.actuator_lengthrange[i]), float(m.actuator_acc0[i]),
                                       np.array(m.actuator_gainprm[i][:9])) for v in (vl - hh, vl + hh)]
                gv = (g[1] - g[0]) / (2 * hh) * ca
                if gv != 0.0:
                    # C has the muscle force-velocity slope in qDeriv, MJX has no muscle term at all
                    d_muscle -= gv * np.outer(mom[i], mom[i])
        # documented approximation of the C engine (computation/index.rst, Integrators: "we restrict D to have the same sparsity
        # pattern as M ... This restriction will exclude damping in tendons which connect bodies that are on different branches"):
        # MJX's dense update keeps those entries. Not a finding: such a step is judged against C's update WITH the excluded
        # entries put back (independently recomputed from C's moments / tendon Jacobians, formula validated against mj_implicit)
        notpat = ~_tree_pattern(m)
        d_off = np.zeros((m.nv, m.nv))
        for i in range(m.nu):
            aadr = int(m.actuator_actadr[i])
            ca_i = float(dcf.act[aadr + int(m.actuator_actnum[i]) - 1]) if aadr >= 0 and int(m.actuator_dyntype[i]) != int(mj.mjtDyn.mjDYN_NONE) \
                else float(dcf.ctrl[i])
            v_i = (float(m.actuator_biasprm[i, 2]) if int(m.actuator_biastype[i]) == int(mj.mjtBias.mjBIAS_AFFINE) else 0.0) + \
                (float(m.actuator_gainprm[i, 2]) * ca_i if int(m.actuator_gaintype[i]) == int(mj.mjtGain.mjGAIN_AFFINE) else 0.0)
            d_off += v_i * np.outer(mom[i], mom[i]) * notpat
        if m.ntendon and not off(D.mjDSBL_DAMPER):
            tjd = np.zeros((m.ntendon, m.nv))
            try:
                mj.mju_sparse2dense(tjd, dcf.ten_J, m.ten_J_rownnz, m.ten_J_rowadr, m.ten_J_colind)
            except Exception:
                tjd = np.array(dcf.ten_J).reshape(m.ntendon, m.nv)
            for t in range(m.ntendon):
                d_off -= float(m.tendon_damping[t]) * np.outer(tjd[t], tjd[t]) * notpat
        if np.any(d_off != 0) and not mjx_sparse(R, m):
            out.append({
                "sig": "documented:implicitfast-C-restricts-qDeriv-to-the-sparsity-pattern-of-M",
                "scope": _scope(step=["qpos", "qvel"]),
                "spec": {"c_delta": d_off},
            })
        if np.any(d_skew != 0):
            cf.skew_delta = d_skew
            # 12. raw (unclamped) ctrl in MJX's d(force)/d(velocity): a damper-like actuator driven outside its ctrlrange becomes
            # anti-damping, M - h*qDeriv loses positive definiteness and jax cho_factor returns NaN (C's LDL stays finite)
            if not np.all(np.isfinite(np.asarray(dxs.qvel))) and np.all(np.isfinite(np.asarray(dxf.qacc))):
                try:
                    qd = np.asarray(R.src["derivative"].deriv_smooth_vel(mx, dxf), float)
                    Mx = np.asarray(_fs(R)[1](mx, dxf), float)
                    eigmin = float(np.linalg.eigvalsh(Mx - float(m.opt.timestep) * 0.5 * (qd + qd.T)).min())
                except Exception:
                    eigmin = None
                if eigmin is not None and eigmin <= 0:
                    out.append({
                        "sig": "implicitfast-step-nan-when-unclamped-ctrl-makes-M-minus-h-qDeriv-indefinite",
                        "scope": _scope(step=["qpos", "qvel"]),
                        # root: MJX's own matrix (its M and its deriv_smooth_vel at this state) is not positive definite, MJX's
                        # next state is non-finite and the C engine's is finite
                        "root": lambda name, det: (not np.all(np.isfinite(np.asarray(det["mjx"], float))))
                        and bool(np.all(np.isfinite(np.asarray(det["c"], float)))),
                    })
        if np.any(d_muscle != 0):
            out.append({
                "sig": "implicitfast-derivative-omits-muscle-gain-velocity-term",
                "scope": _scope(step=["qpos", "qvel"]),
                # C's implicitfast update recomputed with exactly that term removed from qDeriv must reproduce MJX
                "spec": {"c_delta": d_muscle},
            })
        if np.any(d_clamp != 0):
            out.append({
                "sig": "implicitfast-derivative-ignores-actuator-force-clamp",
                "scope": _scope(step=["qpos", "qvel"]),
                # C's implicitfast update recomputed with the clamped actuators' affine terms put back must reproduce MJX
                "spec": {"c_delta": d_clamp},
            })
    return out


def worker(case):
    from .. import mjxrepo
    P = core.Part()
    R = mjxrepo.load(x64=case["x64"])
    rng = np.random.Generator(np.random.PCG64(case["key"]))
    if "xml" in case:
        xml, tags, states = case["xml"], case["tags"], case["states"]
    elif case["profile"] == "capcap":
        xml, tags = mjxrepo.gen_capcap(rng, integrator=case.get("integrator"))
        m = R.mujoco.MjModel.from_xml_string(xml)
        states = mjxrepo.capcap_states(R, rng, m, R.mujoco.MjData(m), case["nstates"])
    else:
        xml, tags = mjxrepo.gen_model(rng, case["profile"], small=case.get("small", False),
                                      integrator=case.get("integrator"), want=case.get("want", ()), cone=case.get("cone"))
        states = None
    if states is None:
        try:
            m = R.mujoco.MjModel.from_xml_string(xml)
        except Exception:
            P.count("skipped_xml_rejected_by_wheel")
            return P.result()
        d = R.mujoco.MjData(m)
        states = []
        for s in range(case["nstates"]):
            mjxrepo.random_state(R, rng, m, d, scale=[1.0, 0.3, 0.05][s % 3], vel=[1.0, 0.3, 0.0][s % 3])
            states.append(mjxrepo.state_dict(m, d))
    check_model(R, xml, tags, states, P, x64=case["x64"])
    return P.result()


def _cases(ctx):
    n = ctx.pick(16, 240)
    cases = []
    profs = ["contact", "constrained", "contact", "smooth", "gate", "contact", "constrained", "contact"]
    from .. import mjxrepo
    idx = [i for i in range(n) if profs[i % len(profs)] != "gate"]
    agenda = dict(zip(idx, mjxrepo.feature_agenda(ctx.seed, len(idx), lambda j: profs[idx[j] % len(profs)] == "contact")))
    for i in range(n):
        prof = profs[i % len(profs)]
        cases.append({"key": int(core.stable_hash("C43", ctx.seed, i)), "profile": prof, "x64": (i % 8) != 7,
                      "want": agenda.get(i, []),
                      # elliptic cones without a frictional candidate contact raise in MJX (known finding) and the model is
                      # lost: contact-free profiles use the pyramidal cone except for one model per tier that keeps exhibiting it
                      "cone": "pyramidal" if (prof in ("constrained", "smooth") and i != 1) else None,
                      "nstates": ctx.pick(2, 3), "small": ctx.quick or i % 2 == 0,
                      "integrator": "RK4" if i % 10 == 9 else (None if not ctx.quick else ["Euler", "implicitfast"][i % 2])})
    # capsule-capsule pairs in clipped segment-segment configurations (the narrow phase's clip-then-refine branch): two pairs
    # per state; one model = one XLA compile
    for i in range(ctx.pick(2, 8)):
        cases.append({"key": int(core.stable_hash("C43capcap", ctx.seed, i)), "profile": "capcap", "x64": True,
                      "nstates": ctx.pick(4, 8), "integrator": ["Euler", "implicitfast"][i % 2]})
    return cases


def run(ctx):
    cases = _cases(ctx)
    ctx.extra["models_generated"] = len(cases)
    # chunk=1: one process per case, so float32 and float64 cases (jax_enable_x64 is process-global) can share the pool
    results = par.run("vf.props.c43", "worker", cases, nproc=8, timeout=ctx.pick(900, 2400), chunk=1)
    for c, r in zip(cases, results):
        if r is None or "crash" in r or "exception" in r:
            ctx.count("worker_failures")
            ctx.extra.setdefault("worker_failure_samples", [])
            if len(ctx.extra["worker_failure_samples"]) < 3:
                ctx.extra["worker_failure_samples"].append({"case": c, "result": {k: str(v)[-1500:] for k, v in (r or {}).items()}})
            continue
        ctx.merge(r)
    ctx.min_nontrivial = ctx.pick(10, 120)
    from .. import mjxrepo
    required = (list(dict.fromkeys(mjxrepo.FEATURE_GENERAL)) + mjxrepo.FEATURE_CONTACT + mjxrepo.feature_sensors()
                + mjxrepo.FEATURE_FLAGS + ["int:Euler", "int:implicitfast", "int:RK4", "cone:pyramidal", "cone:elliptic",
                                           "jnt:free", "geom:sphere", "geom:capsule", "capcap"])
    required = [r for r in required if not r.startswith(("solver:", "jac:"))] + ["solver:Newton", "solver:CG"]
    never = [r for r in required if not ctx.counters.get("feature[%s]" % r)]
    engaged_required = ["actuator_forcerange_clamp", "actuator_forcerange_present_not_clamping", "ctrlrange_clamp",
                        "jnt_actfrcrange_clamp", "jnt_actfrcrange_clamp_on_dof_with_actuator_gravcomp",
                        "jnt_actfrcrange_clamp+actuator_gravcomp+actuator_force_on_same_dof", "gravcomp_force",
                        "inactive_equality(d.ne<ne)", "inactive_equality_with_friction_or_limit_rows", "frictionloss_rows",
                        "limit_rows"]
    never += ["engaged:" + r for r in engaged_required if not ctx.counters.get("engaged[%s]" % r)]
    ctx.extra["feature_classes_required"] = len(required) + len(engaged_required)
    ctx.extra["feature_classes_never_generated"] = never
    if never:
        ctx.inconclusive("feature classes of doc/mjx.rst Feature Parity / the flag list never generated or never engaged: %s"
                         % ", ".join(never))
    if ctx.counters.get("worker_failures", 0) > len(cases) // 4:
        ctx.inconclusive("too many worker failures (%d of %d)" % (ctx.counters["worker_failures"], len(cases)))
    ctx.extra["skew_dropped_fields"] = SKEW
    ctx.extra["reference"] = "mujoco wheel C engine (see ASSUMPTIONS)"
    c = ctx.counters
    ctx.extra["decided_by_tree_build"] = {
        "differences_evaluated_on_tree_build": int(c.get("tree_build_decisions", 0)),
        "not_judged_as_version_skew(tree==mjx at field tol AND tree!=wheel)": int(c.get("tree_build_decided[skew]", 0)),
        "judged_against_wheel(tree==wheel or mjx differs from both)": int(c.get("tree_build_decided[judged]", 0)),
        "states_where_tree_build_was_consulted": int(c.get("tree_build_consulted_states", 0)),
        "states_where_tree_build_was_unavailable": int(c.get("tree_build_unavailable_states", 0))}


def replay(ctx, path):
    from .. import mjxrepo
    det = json.loads(open(path).read())["detail"]
    R = mjxrepo.load(x64=det.get("x64", True))
    P = core.Part()
    check_model(R, det["xml"], det["tags"], [det["state"]], P, x64=det.get("x64", True))
    ctx.merge(P.result())
