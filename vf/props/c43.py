"""C43 MJX reproduces the MuJoCo C engine (mjx/mujoco/mjx/_src: forward, smooth, passive, collision_*, constraint, solver,
sensor, support, scan, math, io)."""
import json

import numpy as np

from .. import core, par

LEVEL = "exploration"
RULE = ("random MJCF models straddling MJX's feature lattice (tree of 2-5 bodies with branching; free/ball/hinge/slide "
        "joints with damping/stiffness/armature/frictionloss/limits/margins; sphere/capsule/box/ellipsoid/cylinder/plane "
        "geoms with condim 1/3/4/6, margin/gap, priority, solmix, pairs, excludes; fixed and spatial tendons with "
        "pulley/sphere/cylinder wrapping and side sites; motor/position/velocity/damper/intvelocity/general/muscle "
        "actuators over joint/jointinparent/ball/tendon/site transmissions with all supported dyn/gain/bias types; "
        "connect/weld/joint/tendon equalities, mocap welds; 30 sensor kinds with cutoffs and reference frames; gravcomp, "
        "fluid; Euler/RK4/implicitfast x pyramidal/elliptic x Newton/CG x dense/sparse/auto x random disable flags; "
        "plus a 'gate' profile injecting one unsupported feature) x random states/controls/applied forces. "
        "distinct = (profile, integrator, cone, solver, sorted feature-tag set bucket, #active contacts bucket, "
        "#constraint rows bucket); non-trivial = put_model accepted it and it has nv>0")
ASSUMPTIONS = [
    "VERDICT oracle = the C engine of the installed mujoco 3.13.0 wheel on the identical MjModel (MJX can only ingest the "
    "installed binding's MjModel; MJX's own tests do the same). The repository is 3.12.1: a field where the repo's C code "
    "agrees with MJX and differs from the wheel is version skew: every unexplained difference is re-evaluated on the tree's own "
    "C build (drv.Lib('rel'), same XML and state); if that build reproduces MJX's value the case is counted as "
    "reference_skew_wheel_vs_tree[field] and not judged (observed: 3.13.0 clamps ctrl in the implicitfast actuator "
    "velocity derivative, the tree does not)",
    "float64 (jax_enable_x64) relative tolerance 1e-6 of max(1,|field|_inf) for closed-form quantities; 1e-4 for quantities "
    "that depend on the iterative constraint solver (both solvers run to tolerance 1e-12, <=100/400 iterations); the "
    "float32 subsample uses 2e-3 / 2e-2",
    "contacts are compared as sets (MJX orders contacts by condim/geom-type group) matched on geom pair and position; "
    "constraint rows are compared as sets matched on (type, Jacobian row, pos, D, aref)",
    "put_model raising NotImplementedError is the documented gate (doc/mjx.rst Feature Parity: 'MJX will raise an "
    "exception if asked to copy an mjModel to the device that references unsupported features') and is counted, not judged",
    "contact-set equality is judged only for geom pairs whose narrow phase is the same closed-form algorithm in both engines "
    "(calibrated empirically on the unchanged tree: plane-sphere, plane-capsule, plane-ellipsoid, sphere-sphere, "
    "sphere-capsule, capsule-capsule). Pairs involving boxes (doc/mjx.rst: 'BOX is implemented as a mesh': SAT/clipping "
    "with <=4 points vs up to 8 in C) and non-plane ellipsoid/cylinder pairs (MJX: SDF gradient descent, C: convex "
    "solver) give different manifolds by design: a state with such an active pair is judged on contact-independent fields only",
    "contact geometry tolerance 2e-3 and 2e-2 downstream of an active contact: math.closest_segment_point regularises with "
    "+1e-6 (float32 safety) which moves capsule normals by ~1e-4 even in float64; contact tangent directions are not "
    "specified by the documentation (mjContact.frame: 'normal is in [0-2]'): states whose tangent frames differ are judged "
    "on contact geometry only (pyramidal/elliptic rows depend on the tangents)",
    "convex-mesh collisions excluded (trimesh absent in the sandbox)",
]

# fields dropped from the verdict set because of reference-version skew / documented representation differences
SKEW = {
}

POS_FIELDS = ["xpos", "xquat", "xmat", "xipos", "ximat", "xanchor", "xaxis", "geom_xpos", "geom_xmat", "site_xpos",
              "site_xmat", "cam_xpos", "cam_xmat", "subtree_com", "cdof", "ten_length", "actuator_length"]
VEL_FIELDS = ["cvel", "cdof_dot", "qfrc_bias", "qfrc_gravcomp", "qfrc_fluid", "qfrc_passive"]
ACT_FIELDS = ["actuator_force", "qfrc_actuator", "act_dot", "qfrc_smooth", "qacc_smooth"]
SOLVER_FIELDS = ["qfrc_constraint", "qacc"]
IMPL_FIELDS = ["cinert", "ten_velocity", "actuator_velocity"]
STATE_FIELDS = ["qpos", "qvel", "act", "time"]

# MJX's segment routines are regularised for float32 (math.closest_segment_point divides by |ab|^2 + 1e-6), which moves
# capsule contact normals by ~1e-4 even in float64: contact geometry and everything downstream of an active contact is
# compared with this tolerance instead of 1e-6
TOL_CONTACT_GEOM = 2e-3
TOL_CONTACT_DOWNSTREAM = 2e-2


def _tols(x64):
    return (1e-6, 1e-4) if x64 else (2e-3, 3e-2)


def _relerr(a, b):
    a = np.asarray(a, float).ravel()
    b = np.asarray(b, float).ravel()
    if a.shape != b.shape:
        return float("inf")
    if a.size == 0:
        return 0.0
    if not (np.all(np.isfinite(a)) and np.all(np.isfinite(b))):
        return float("inf") if not np.array_equal(np.isfinite(a), np.isfinite(b)) or \
            not np.allclose(a[np.isfinite(a)], b[np.isfinite(b)]) else 0.0
    return float(np.max(np.abs(a - b)) / max(1.0, np.max(np.abs(b))))


_JIT = {}


def _raise_site(e):
    """innermost frame of the traceback that lies in the MJX sources: 'module.function'"""
    import traceback
    site = "unknown"
    for fr in traceback.extract_tb(e.__traceback__):
        if "/mjx/_src/" in fr.filename:
            site = "%s.%s" % (fr.filename.rsplit("/", 1)[1][:-3], fr.name)
    return site


def _fs(R):
    if "fs" not in _JIT:
        mjx, jax = R.mjx, R.jax
        _JIT["fs"] = jax.jit(lambda m, d: (mjx.forward(m, d), mjx.step(m, d)))
        _JIT["fullm"] = jax.jit(R.src["support"].full_m)
    return _JIT["fs"], _JIT["fullm"]


def _to_mjx_data(R, m, mx, d):
    """State transfer that does not go through put_data (that is C44): make_data + explicit state fields."""
    jp = R.jp
    dx = R.mjx.make_data(m)
    kw = dict(qpos=jp.array(d.qpos), qvel=jp.array(d.qvel), act=jp.array(d.act), ctrl=jp.array(d.ctrl),
              qfrc_applied=jp.array(d.qfrc_applied), xfrc_applied=jp.array(d.xfrc_applied),
              mocap_pos=jp.array(d.mocap_pos), mocap_quat=jp.array(d.mocap_quat),
              qacc_warmstart=jp.array(d.qacc_warmstart), time=jp.array(d.time, dtype=dx.time.dtype),
              eq_active=jp.array(d.eq_active.astype(bool)) if d.eq_active.size else dx.eq_active)
    kw = {k: v.astype(getattr(dx, k).dtype) if hasattr(v, "astype") else v for k, v in kw.items()}
    return dx.replace(**kw)


def _contact_excluded_pair(mj, m, g1, g2):
    """True for geom-type pairs whose contact manifold / narrow-phase algorithm differs by design (see ASSUMPTIONS)."""
    G = mj.mjtGeom
    exact = {frozenset(p) for p in ((G.mjGEOM_PLANE, G.mjGEOM_SPHERE), (G.mjGEOM_PLANE, G.mjGEOM_CAPSULE),
                                    (G.mjGEOM_PLANE, G.mjGEOM_ELLIPSOID), (G.mjGEOM_SPHERE,),
                                    (G.mjGEOM_SPHERE, G.mjGEOM_CAPSULE), (G.mjGEOM_CAPSULE,))}
    exact = {frozenset(int(x) for x in p) for p in exact}
    return frozenset((int(m.geom_type[g1]), int(m.geom_type[g2]))) not in exact


def _compare_contacts(R, m, dc, dxf, tol, P, sig_prefix):
    """Returns (ok_for_efc, problems). Contacts as sets."""
    mj = R.mujoco
    c = dxf._impl.contact
    xd = np.asarray(c.dist)
    xim = np.asarray(c.includemargin)
    xact = np.nonzero(xd < xim)[0]
    cact = [i for i in range(dc.ncon) if dc.contact.dist[i] < dc.contact.includemargin[i]]
    # documented manifold differences
    pairs = set()
    for i in cact:
        pairs.add((int(dc.contact.geom[i][0]), int(dc.contact.geom[i][1])))
    xg = np.asarray(c.geom)
    for j in xact:
        pairs.add((int(xg[j][0]), int(xg[j][1])))
    for g1, g2 in pairs:
        if _contact_excluded_pair(mj, m, g1, g2):
            P.count("states_with_documented_manifold_difference")
            return None, []
    problems = []
    if len(cact) != len(xact):
        problems.append(("contact-count", {"c": len(cact), "mjx": int(len(xact)),
                                           "c_pairs": [[int(a) for a in dc.contact.geom[i]] for i in cact],
                                           "mjx_pairs": [[int(a) for a in xg[j]] for j in xact]}))
        return False, problems
    used = set()
    frames_differ = []
    xp = np.asarray(c.pos)
    xf = np.asarray(c.frame).reshape(-1, 9)
    match = {}
    for i in cact:
        ci = dc.contact[i]
        best, bj = None, None
        for j in xact:
            if j in used:
                continue
            gj = (int(xg[j][0]), int(xg[j][1]))
            if set(gj) != {int(ci.geom[0]), int(ci.geom[1])}:
                continue
            dd = float(np.linalg.norm(xp[j] - ci.pos))
            if best is None or dd < best:
                best, bj = dd, j
        if bj is None:
            problems.append(("contact-unmatched", {"c_contact": i, "geom": [int(a) for a in ci.geom]}))
            continue
        used.add(bj)
        match[i] = int(bj)
        flip = int(xg[bj][0]) != int(ci.geom[0])
        if _relerr(xf[bj] * (-1 if flip else 1), ci.frame) > TOL_CONTACT_GEOM:
            frames_differ.append(i)
        for name, a, b in (("dist", xd[bj], ci.dist), ("pos", xp[bj], ci.pos),
                           ("normal", xf[bj][:3] * (-1 if flip else 1), ci.frame[:3]),
                           ("includemargin", xim[bj], ci.includemargin),
                           ("friction", np.asarray(c.friction)[bj], ci.friction),
                           ("solref", np.asarray(c.solref)[bj], ci.solref),
                           ("solreffriction", np.asarray(c.solreffriction)[bj], ci.solreffriction),
                           ("solimp", np.asarray(c.solimp)[bj], ci.solimp),
                           ("dim", np.asarray(c.dim)[bj], ci.dim)):
            e = _relerr(a, b)
            P.note_max("relerr_contact_" + name, e)
            if e > (max(tol, TOL_CONTACT_GEOM) if name in ("dist", "pos", "normal") else tol):
                problems.append(("contact-" + name, {"c_contact": i, "mjx_contact": int(bj), "c": np.asarray(b).tolist(),
                                                     "mjx": np.asarray(a).tolist(), "relerr": e,
                                                     "geomtypes": [int(m.geom_type[g]) for g in ci.geom]}))
    if frames_differ and not problems:
        P.count("states_with_different_contact_tangent_frame")
        return None, problems
    return (not problems), problems


def _compare_efc(R, m, dc, dxf, tol, tol_s, P):
    mj = R.mujoco
    problems = []
    nv = m.nv
    J = np.zeros((dc.nefc, nv))
    if dc.nefc:
        if mj.mj_isSparse(m):
            mj.mju_sparse2dense(J, dc.efc_J, dc.efc_J_rownnz, dc.efc_J_rowadr, dc.efc_J_colind)
        else:
            J = np.array(dc.efc_J).reshape(-1, nv)[:dc.nefc]
    I = dxf._impl
    xJ = np.asarray(I.efc_J)
    xact = np.nonzero((xJ != 0).any(axis=1))[0]
    # rows of C with all-zero Jacobian carry no force and cannot be matched: drop them on both sides
    cact = [i for i in range(dc.nefc) if np.any(J[i] != 0)]
    if len(cact) != len(xact):
        problems.append(("efc-row-count", {"c": len(cact), "mjx": int(len(xact)),
                                           "c_types": [int(t) for t in np.array(dc.efc_type)[cact]],
                                           "mjx_types": [int(t) for t in np.asarray(I.efc_type)[xact]]}))
        return problems
    xtype = np.asarray(I.efc_type)
    feats = {"efc_pos": "efc_pos", "efc_margin": "efc_margin", "efc_D": "efc_D", "efc_aref": "efc_aref",
             "efc_frictionloss": "efc_frictionloss"}
    xv = {k: np.asarray(getattr(I, k)) for k in feats}
    cv = {k: np.array(getattr(dc, k)) for k in feats}
    xforce = np.asarray(I.efc_force)
    used = set()
    Jscale = max(1.0, np.abs(J).max() if J.size else 1.0)
    for i in cact:
        best, bj = None, None
        for j in xact:
            if j in used or int(xtype[j]) != int(dc.efc_type[i]):
                continue
            dd = np.max(np.abs(xJ[j] - J[i])) / Jscale
            for k in feats:   # set equality of full row tuples: every compared quantity takes part in the matching
                dd += abs(xv[k][j] - cv[k][i]) / max(1.0, abs(cv[k][i]))
            if best is None or dd < best:
                best, bj = dd, j
        if bj is None:
            problems.append(("efc-row-unmatched", {"c_row": i, "type": int(dc.efc_type[i])}))
            continue
        used.add(bj)
        e = _relerr(xJ[bj], J[i])
        P.note_max("relerr_efc_J", e)
        if e > tol:
            problems.append(("efc_J", {"c_row": i, "mjx_row": int(bj), "type": int(dc.efc_type[i]), "relerr": e,
                                       "c": J[i].tolist(), "mjx": xJ[bj].tolist()}))
        for k in feats:
            if k in SKEW:
                continue
            e = _relerr(xv[k][bj], cv[k][i])
            P.note_max("relerr_" + k, e)
            if e > tol:
                problems.append((k, {"c_row": i, "mjx_row": int(bj), "type": int(dc.efc_type[i]), "relerr": e,
                                     "c": float(cv[k][i]), "mjx": float(xv[k][bj])}))
        e = abs(xforce[bj] - dc.efc_force[i]) / max(1.0, np.abs(dc.efc_force).max())
        P.note_max("relerr_efc_force", e)
        if e > tol_s:
            problems.append(("efc_force", {"c_row": i, "mjx_row": int(bj), "type": int(dc.efc_type[i]),
                                           "relerr": float(e), "c": float(dc.efc_force[i]), "mjx": float(xforce[bj])}))
    return problems


def _sensor_stage_map(R, m):
    mj = R.mujoco
    out = {}
    for i in range(m.nsensor):
        nm = mj.mjtSensor(m.sensor_type[i]).name.replace("mjSENS_", "").lower()
        out[i] = (nm, int(m.sensor_needstage[i]), int(m.sensor_adr[i]), int(m.sensor_dim[i]))
    return out


def check_model(R, xml, tags, states, P, x64=True, detail_base=None):
    """Runs all states of one model. `states` is a list of state dicts or None entries (-> random from rng)."""
    mj, mjx = R.mujoco, R.mjx
    tol, tol_s0 = _tols(x64)
    try:
        m = mj.MjModel.from_xml_string(xml)
    except Exception as e:
        P.count("skipped_xml_rejected_by_wheel")
        return
    gate_tags = [t for t in tags if t.startswith("gate:")]
    try:
        mx = mjx.put_model(m)
        dx0 = mjx.make_data(m)
    except NotImplementedError as e:
        P.count("gate_rejected")
        P.count("gate_rejected[%s]" % (gate_tags[0] if gate_tags else str(e).split("(")[0][:40].strip()))
        P.case("gate|" + (gate_tags[0] if gate_tags else "other"), nontrivial=False)
        return
    if gate_tags:
        P.count("gate_accepted[%s]" % gate_tags[0])
    if m.nv == 0:
        P.count("skipped_nv0")
        return
    fs, fullm = _fs(R)
    integ = [t for t in tags if t.startswith("int:")][0]
    smap = _sensor_stage_map(R, m)
    for si, st in enumerate(states):
        d = mj.MjData(m)
        from .. import mjxrepo
        mjxrepo.set_state_dict(m, d, st)
        dx = _to_mjx_data(R, m, mx, d)
        dcf = mj.MjData(m)
        mjxrepo.set_state_dict(m, dcf, st)
        mj.mj_forward(m, dcf)
        dcs = mj.MjData(m)
        mjxrepo.set_state_dict(m, dcs, st)
        mj.mj_step(m, dcs)
        if not (np.all(np.isfinite(dcf.qacc)) and np.all(np.isfinite(dcs.qpos)) and np.abs(dcf.qacc).max() < 1e6
                and np.all(np.isfinite(dcs.qvel)) and np.abs(dcs.qvel).max() < 1e4
                and (dcf.nefc == 0 or (np.all(np.isfinite(dcf.efc_force)) and np.abs(dcf.efc_force).max() < 1e6))):
            P.count("skipped_c_engine_unstable")
            continue
        try:
            dxf, dxs = fs(mx, dx)
            R.jax.block_until_ready(dxs.qpos)
        except NotImplementedError as e:
            P.count("gate_rejected_at_trace_time")
            P.count("gate_rejected[trace:%s]" % str(e)[:40])
            return
        except Exception as e:  # an accepted model that MJX cannot simulate at all
            where = _raise_site(e)
            P.count("mjx_raised_on_accepted_model")
            P.case("raise|" + where, nontrivial=True)
            dd = dict(detail_base or {})
            dd.update({"xml": xml, "tags": tags, "state": st, "field": "exception", "x64": x64,
                       "diff": {"exception": "%s: %s" % (type(e).__name__, str(e)[:300]), "where": where}})
            P.violation("mjx-raises-on-model-accepted-by-put_model:%s@%s" % (type(e).__name__, where), dd)
            return
        problems = []
        tol_s = tol_s0

        def cmp(name, a, b, t):
            if name in SKEW:
                return
            e = _relerr(a, b)
            P.note_max("relerr_" + name, e)
            if e > t:
                problems.append((name, {"relerr": e, "c": np.asarray(b).tolist(), "mjx": np.asarray(a).tolist()}))

        for f in POS_FIELDS + VEL_FIELDS + ACT_FIELDS:
            cmp(f, getattr(dxf, f), getattr(dcf, f), tol)
        for f in IMPL_FIELDS:
            cmp(f, getattr(dxf._impl, f), getattr(dcf, f), tol)
        # inertia matrix, actuator moment, tendon Jacobian (dense on the MJX side)
        Mc = np.zeros((m.nv, m.nv))
        mj.mj_fullM(m, dcf, Mc)
        cmp("M", fullm(mx, dxf), Mc, tol)
        if m.nu:
            mom = np.zeros((m.nu, m.nv))
            mj.mju_sparse2dense(mom, dcf.actuator_moment, dcf.moment_rownnz, dcf.moment_rowadr, dcf.moment_colind)
            cmp("actuator_moment", dxf._impl.actuator_moment, mom, tol)
        if m.ntendon:
            tj = np.zeros((m.ntendon, m.nv))
            try:
                mj.mju_sparse2dense(tj, dcf.ten_J, m.ten_J_rownnz, m.ten_J_rowadr, m.ten_J_colind)
            except Exception:
                tj = np.array(dcf.ten_J).reshape(m.ntendon, m.nv)
            cmp("ten_J", dxf._impl.ten_J, tj, tol)
        ok_c, pc = _compare_contacts(R, m, dcf, dxf, tol, P, "")
        problems += pc
        contact_dependent_ok = ok_c is not None
        nact = sum(1 for i in range(dcf.ncon) if dcf.contact.dist[i] < dcf.contact.includemargin[i])
        if nact:
            tol_s = max(tol_s, TOL_CONTACT_DOWNSTREAM)
        if contact_dependent_ok and ok_c:
            problems += _compare_efc(R, m, dcf, dxf, max(tol, TOL_CONTACT_GEOM) if nact else tol, tol_s, P)
        if contact_dependent_ok:
            for f in SOLVER_FIELDS:
                cmp(f, getattr(dxf, f), getattr(dcf, f), tol_s)
            for i, (nm, stage, adr, dim) in smap.items():
                t = tol_s if stage == 3 or nm in ("touch", "force", "torque", "accelerometer") else tol
                e = _relerr(np.asarray(dxf.sensordata)[adr:adr + dim], dcf.sensordata[adr:adr + dim])
                P.note_max("relerr_sensor_" + nm, e)
                if ("sensor_" + nm) not in SKEW and e > t:
                    problems.append(("sensor_" + nm, {"relerr": e, "sensor": i, "stage": stage, "nefc_mjx": int(dxf._impl.nefc),
                                                      "c": dcf.sensordata[adr:adr + dim].tolist(),
                                                      "mjx": np.asarray(dxf.sensordata)[adr:adr + dim].tolist()}))
            for f in STATE_FIELDS:
                e = _relerr(getattr(dxs, f), getattr(dcs, f))
                P.note_max("relerr_step_%s_%s" % (f, integ[4:]), e)
                if e > (tol_s if f != "time" else tol):
                    problems.append(("step_%s[%s]" % (f, integ[4:]), {"relerr": e, "c": np.asarray(getattr(dcs, f)).tolist(),
                                                                      "mjx": np.asarray(getattr(dxs, f)).tolist()}))
        else:
            for i, (nm, stage, adr, dim) in smap.items():
                if stage < 3 and nm not in ("touch",):
                    e = _relerr(np.asarray(dxf.sensordata)[adr:adr + dim], dcf.sensordata[adr:adr + dim])
                    if e > tol and ("sensor_" + nm) not in SKEW:
                        problems.append(("sensor_" + nm, {"relerr": e, "sensor": i, "stage": stage,
                                                          "c": dcf.sensordata[adr:adr + dim].tolist(),
                                                          "mjx": np.asarray(dxf.sensordata)[adr:adr + dim].tolist()}))
        nrow = int(dcf.nefc)
        feat = [t for t in tags if t.split(":")[0] in ("jnt", "act", "eq", "tendon", "wrap", "geom") or t in
                ("fluid", "gravcomp", "mocap", "frictionloss", "pair", "margin")]
        key = "|".join([tags and [t for t in tags if t in ("smooth", "constrained", "contact", "gate")][0] or "", integ,
                        [t for t in tags if t.startswith("cone:")][0], [t for t in tags if t.startswith("solver:")][0],
                        "f64" if x64 else "f32", "ncon%d" % min(nact, 3), "nefc%d" % min(nrow // 4, 3),
                        "h%x" % (core.stable_hash(*feat) & 0xfff)])
        P.case(key, nontrivial=True, sample={"tags": tags, "nv": int(m.nv), "nactive_contacts": nact, "nefc": nrow}
               if si == 0 else None)
        P.count("states_compared")
        P.count("fields_compared", len(POS_FIELDS + VEL_FIELDS + ACT_FIELDS + IMPL_FIELDS) + 3 + m.nsensor)
        if nact:
            P.count("states_with_active_contacts")
        if nrow:
            P.count("states_with_constraint_rows")
        P.note_max("active_contacts", nact)
        P.note_max("nefc", nrow)
        causes = _known_causes(R, m, dcf, dxf, tags)
        seen = set()
        tree = None
        for name, det in problems:
            sig = name
            if isinstance(det, dict) and "mjx" in det and not name.startswith(("contact", "efc", "sensor_")):
                # reference-version skew triage (see ASSUMPTIONS): does the tree's own C build side with MJX?
                if tree is None:
                    tree = _tree_values(xml, st) or False
                if tree and _is_reference_skew(name, det["mjx"], tree, m, max(tol_s, 1e-6)):
                    P.count("reference_skew_wheel_vs_tree[%s]" % name.split("[")[0])
                    continue
            for cause, affected in causes:
                if affected(name):
                    sig = cause
                    break
            if sig in seen:
                continue
            seen.add(sig)
            dd = dict(detail_base or {})
            dd.update({"xml": xml, "tags": tags, "state": st, "field": name, "x64": x64, "diff": det})
            P.violation("mjx-differs-from-c-engine:%s" % sig, dd)


DOWNSTREAM_OF_SMOOTH_FORCE = ("qfrc_smooth", "qacc_smooth", "qacc", "qfrc_constraint", "efc_force", "step_", "sensor_a", "sensor_f", "sensor_t", "sensor_jointactfrc")


_TREE = {}


def _tree_values(xml, st):
    """Side channel: the tree's own C build (rel flavour) on the same XML and state -> (forward Data, stepped Data) or None."""
    import numpy as _np
    try:
        from .. import drv
        if "L" not in _TREE:
            _TREE["L"] = drv.Lib("rel")
        L = _TREE["L"]
        out = []
        for what in ("forward", "step"):
            tm = L.load_xml_string(xml)
            td = tm.make_data()
            for k in ("qpos", "qvel", "act", "ctrl", "qfrc_applied", "mocap_pos", "mocap_quat", "qacc_warmstart",
                      "xfrc_applied", "eq_active"):
                a = td[k]
                if getattr(a, "size", 0):
                    a[...] = _np.asarray(st[k]).reshape(a.shape)
            td.view_time = None
            try:
                td["time"][...] = st["time"]
            except Exception:
                pass
            if what == "forward":
                td.forward()
            else:
                td.step(1)
            out.append(td)
        return out
    except Exception:
        return None


def _is_reference_skew(name, mjx_value, tree, m, tol):
    """True iff the tree's C engine reproduces MJX's value for this field (so the wheel is the odd one out)."""
    if tree is None or mjx_value is None:
        return False
    tf, ts = tree
    try:
        if name.startswith("step_"):
            ref = ts[name[5:].split("[")[0]]
        elif name.startswith("sensor_"):
            return False
        else:
            ref = tf[name]
        return _relerr(np.asarray(mjx_value, float).ravel(), np.asarray(ref, float).ravel()) <= tol
    except Exception:
        return False


def _acc_sensor_names(mj, m):
    return {"sensor_" + mj.mjtSensor(m.sensor_type[i]).name.replace("mjSENS_", "").lower()
            for i in range(m.nsensor) if int(m.sensor_needstage[i]) == 3}


def _known_causes(R, m, dcf, dxf, tags):
    """Mechanism attribution: (signature, predicate over field names) for configurations in which a *specific* documented-
    in-findings defect of the unchanged tree applies.  A difference is attributed to a cause only if the cause's
    precondition holds for this model/state and the field is downstream of it; everything else keeps its field name."""
    mj = R.mujoco
    out = []
    dis = int(m.opt.disableflags)
    spring = bool(dis & int(mj.mjtDisableBit.mjDSBL_SPRING))
    damper = bool(dis & int(mj.mjtDisableBit.mjDSBL_DAMPER))
    if spring != damper:
        out.append(("passive-forces-skipped-when-only-one-of-spring-damper-disabled",
                    lambda f: f in ("qfrc_passive", "qfrc_gravcomp", "qfrc_fluid") or f.startswith(DOWNSTREAM_OF_SMOOTH_FORCE)))
    if dis & int(mj.mjtDisableBit.mjDSBL_ACTUATION) and m.nu:
        out.append(("actuator_velocity-not-zeroed-when-actuation-disabled",
                    lambda f: f in ("actuator_velocity", "sensor_actuatorvel")))
    if "fluid" in tags:
        out.append(("qfrc_fluid-field-never-written", lambda f: f == "qfrc_fluid"))
    if "wrap:sidesite-crossbody" in tags:
        out.append(("wrap-inside-test-uses-body-local-coordinates-of-sidesite-and-geom",
                    lambda f: f in ("ten_length", "ten_J", "ten_velocity", "actuator_length", "actuator_moment",
                                    "actuator_velocity", "actuator_force", "qfrc_actuator", "qfrc_passive", "act_dot", "M")
                    or f.startswith(DOWNSTREAM_OF_SMOOTH_FORCE) or f.startswith("efc")))
    if "actearly" in tags and not dis & int(mj.mjtDisableBit.mjDSBL_ACTUATION):
        out.append(("actuator-actearly-ignored",
                    lambda f: f in ("actuator_force", "qfrc_actuator") or f.startswith(DOWNSTREAM_OF_SMOOTH_FORCE)))
    if any(t in tags for t in ("eq:connect", "eq:weld", "eq:weldmocap")) and not dis & int(mj.mjtDisableBit.mjDSBL_EQUALITY) \
            and not dis & int(mj.mjtDisableBit.mjDSBL_CONSTRAINT):
        out.append(("connect-weld-reference-acceleration-lacks-Jdot-v-term",
                    lambda f: f in ("efc_aref", "efc_force", "qfrc_constraint", "qacc") or f.startswith("step_") or f in _acc_sensor_names(mj, m)))
    for i in range(m.nsensor):
        nm = mj.mjtSensor(m.sensor_type[i]).name.replace("mjSENS_", "").lower()
        if nm in ("framelinacc", "frameangacc") and m.sensor_cutoff[i] > 0:
            out.append(("sensor-cutoff-not-applied-to-framelinacc-frameangacc",
                        lambda f: f in ("sensor_framelinacc", "sensor_frameangacc")))
            break
    if int(m.opt.cone) == int(mj.mjtCone.mjCONE_ELLIPTIC) and (np.any(np.array(m.geom_margin) > 0) or
                                                             (m.npair and np.any(np.array(m.pair_margin) > 0))):
        out.append(("elliptic-friction-rows-report-contact-margin-in-efc_pos-and-efc_margin",
                    lambda f: f in ("efc_pos", "efc_margin")))
    if int(dxf._impl.nefc) == 0:
        acc = set()
        for i in range(m.nsensor):
            if int(m.sensor_needstage[i]) == 3:
                acc.add("sensor_" + mj.mjtSensor(m.sensor_type[i]).name.replace("mjSENS_", "").lower())
        out.append(("acc-stage-sensors-skipped-when-model-has-no-constraint-rows", lambda f, acc=acc: f in acc))
    if int(m.opt.integrator) == int(mj.mjtIntegrator.mjINT_IMPLICITFAST) and m.nu and \
            not dis & int(mj.mjtDisableBit.mjDSBL_ACTUATION):
        if np.any(np.array(m.actuator_gaintype) == int(mj.mjtGain.mjGAIN_MUSCLE)):
            out.append(("implicitfast-derivative-omits-muscle-gain-velocity-term", lambda f: f.startswith("step_")))
        fl = np.array(m.actuator_forcelimited).astype(bool)
        if fl.any():
            fr, af = np.array(m.actuator_forcerange), np.array(dcf.actuator_force)[:m.nu]
            if np.any(fl & ((af <= fr[:, 0]) | (af >= fr[:, 1]))):
                out.append(("implicitfast-derivative-ignores-actuator-force-clamp", lambda f: f.startswith("step_")))
    return out


def worker(case):
    from .. import mjxrepo
    P = core.Part()
    R = mjxrepo.load(x64=case["x64"])
    rng = np.random.Generator(np.random.PCG64(case["key"]))
    if "xml" in case:
        xml, tags, states = case["xml"], case["tags"], case["states"]
    else:
        xml, tags = mjxrepo.gen_model(rng, case["profile"], small=case.get("small", False),
                                      integrator=case.get("integrator"))
        states = None
    if states is None:
        try:
            m = R.mujoco.MjModel.from_xml_string(xml)
        except Exception:
            P.count("skipped_xml_rejected_by_wheel")
            return P.result()
        d = R.mujoco.MjData(m)
        states = []
        for s in range(case["nstates"]):
            mjxrepo.random_state(R, rng, m, d, scale=[1.0, 0.3, 0.05][s % 3], vel=[1.0, 0.3, 0.0][s % 3])
            states.append(mjxrepo.state_dict(m, d))
    check_model(R, xml, tags, states, P, x64=case["x64"])
    return P.result()


def _cases(ctx):
    n = ctx.pick(16, 240)
    cases = []
    profs = ["contact", "constrained", "contact", "smooth", "gate", "contact", "constrained", "contact"]
    for i in range(n):
        prof = profs[i % len(profs)]
        cases.append({"key": int(core.stable_hash("C43", ctx.seed, i)), "profile": prof, "x64": (i % 8) != 7,
                      "nstates": ctx.pick(2, 3), "small": ctx.quick or i % 2 == 0,
                      "integrator": "RK4" if i % 10 == 9 else (None if not ctx.quick else ["Euler", "implicitfast"][i % 2])})
    return cases


def run(ctx):
    cases = _cases(ctx)
    ctx.extra["models_generated"] = len(cases)
    # chunk=1: one process per case, so float32 and float64 cases (jax_enable_x64 is process-global) can share the pool
    results = par.run("vf.props.c43", "worker", cases, nproc=8, timeout=ctx.pick(900, 2400), chunk=1)
    for c, r in zip(cases, results):
        if r is None or "crash" in r or "exception" in r:
            ctx.count("worker_failures")
            ctx.extra.setdefault("worker_failure_samples", [])
            if len(ctx.extra["worker_failure_samples"]) < 3:
                ctx.extra["worker_failure_samples"].append({"case": c, "result": {k: str(v)[-1500:] for k, v in (r or {}).items()}})
            continue
        ctx.merge(r)
    ctx.min_nontrivial = ctx.pick(10, 120)
    if ctx.counters.get("worker_failures", 0) > len(cases) // 4:
        ctx.inconclusive("too many worker failures (%d of %d)" % (ctx.counters["worker_failures"], len(cases)))
    ctx.extra["skew_dropped_fields"] = SKEW
    ctx.extra["reference"] = "mujoco wheel C engine (see ASSUMPTIONS)"


def replay(ctx, path):
    from .. import mjxrepo
    det = json.loads(open(path).read())["detail"]
    R = mjxrepo.load(x64=det.get("x64", True))
    P = core.Part()
    check_model(R, det["xml"], det["tags"], [det["state"]], P, x64=det.get("x64", True))
    ctx.merge(P.result())
