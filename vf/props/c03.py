"""C03 Thread-pool dispatch runs each task exactly once."""
import json
import re

from .. import build, nat

LEVEL = "exploration"
RULE = ("(1) controlled scheduler: the UNMODIFIED src/engine/engine_thread.cc is compiled against instrumented "
        "std::atomic/std::thread stand-ins (native/sched); every atomic load/store/fetch_add/wait/notify, thread start "
        "and join is a scheduling point; schedules are driven by depth-first enumeration with a preemption bound on tiny "
        "create/resize/dispatch/destroy histories (exhaustive under the bound where 'exhausted' is reported), by PCT "
        "(depth 1-3) and by random walks on longer histories; busy-wait loops are parked until the awaited atomic is "
        "written, and a state with no runnable thread is a deadlock. (2) real OS threads (rel and tsan flavours) with "
        "pool sizes 0-8, per-task log through the repo's task hook and seeded delays. Oracle: multiset of executed task "
        "ids == {0..n-1}, all ends before return, thread ids within the pool, stack pointer restored, no worker alive "
        "after destroy. distinct = distinct schedules (hash of the chosen-thread sequence) + distinct real histories")
ASSUMPTIONS = ["the controlled scheduler explores sequentially consistent interleavings only",
               "spin detection: a thread re-loading the same unchanged atomic is parked until it is written (sound for the pool's busy-wait)",
               "tasks for ntask<2 or no pool run inline on thread 0 (documented in mju_dispatch)"]


def _sched_exe():
    shim = str(build.NATIVE / "sched" / "shim.h")
    return build.exe("rel", "h_pool_sched", ["h_pool.cc", "sched/sched.cc"], extra=["-DVF_SCHED"],
                     extra_repo_srcs=["src/engine/engine_thread.cc"], repo_extra=["-include", shim, "-DVF_SCHED"])


def _summary(out):
    m = re.search(r"SUMMARY (.*)", out)
    return dict(kv.split("=") for kv in m.group(1).split()) if m else None


def _rand_history(rng, maxpool, maxtask, nops):
    ops = ["c%d" % rng.integers(1, maxpool + 1)]
    for _ in range(nops):
        r = rng.random()
        if r < 0.2:
            ops.append("c%d" % rng.integers(0, maxpool + 1))
        elif r < 0.27:
            ops.append("x")
        elif r < 0.7:
            ops.append("d%d" % rng.integers(0, maxtask + 1))
        else:
            ops.append("a%d" % rng.integers(2, maxtask + 1))
    ops.append("x")
    return ",".join(ops)


def run(ctx):
    sexe = _sched_exe()
    rexe = {f: build.exe(f, "h_pool", ["h_pool.cc"]) for f in ("rel", "tsan")}
    jobs = []
    # exhaustive-under-bound DFS on tiny configurations
    dfs = [("c1,d2,x", 2), ("c1,d2,d2,x", 2), ("c1,d3,x", 2), ("c1,a2,x", 2), ("c1,d2,c1,d2,x", 2), ("c1,x,c1,d2,x", 2)]
    dfs += [("c2,d2,x", 1), ("c2,d3,x", 1), ("c1,c2,d2,x", 1), ("c2,c1,d2,x", 1), ("c2,d2,d2,x", 1)]
    if not ctx.quick:
        dfs += [("c2,d2,x", 2), ("c2,d3,x", 2), ("c1,c2,d2,x", 2), ("c2,d3,d2,x", 1), ("c1,d2,x", 3), ("c1,d4,x", 2), ("c2,a3,x", 1),
                ("c3,d2,x", 1), ("c2,c0,c2,d2,x", 1), ("c1,d2,d3,d2,x", 2)]
    for h, b in dfs:
        jobs.append(("sched", ["sched", "dfs", str(ctx.seed + 1), str(ctx.pick(400000, 4000000)), h, str(b)]))
    rng = ctx.rng
    for i in range(ctx.pick(24, 300)):
        h = _rand_history(rng, 3, 5, int(rng.integers(2, 6)))
        jobs.append(("sched", ["sched", "random", str(ctx.seed * 1000 + i + 1), str(ctx.pick(100, 600)), h]))
    for i in range(ctx.pick(24, 300)):
        h = _rand_history(rng, 4, 6, int(rng.integers(2, 5)))
        jobs.append(("sched", ["sched", "pct", str(ctx.seed * 1000 + i + 1), str(ctx.pick(100, 600)), h]))
    for i in range(ctx.pick(8, 40)):
        jobs.append(("real-rel", ["real", str(ctx.seed * 100 + i + 1), str(ctx.pick(12, 120)), "8", str(ctx.pick(30, 100)), str(i % 3)]))
    for i in range(ctx.pick(6, 30)):
        jobs.append(("real-tsan", ["real", str(ctx.seed * 100 + i + 1), str(ctx.pick(6, 30)), "8", str(ctx.pick(20, 40)), str(i % 3)]))

    def go(j):
        kind, args = j
        exe = sexe if kind == "sched" else rexe[kind.split("-")[1]]
        fl = "tsan" if kind == "real-tsan" else "rel"
        return j, nat.run_exe(exe, args, fl, timeout=(ctx.pick(600, 3000) if kind == "sched" else ctx.pick(150, 900)), leaks=False)

    for (kind, args), res in nat.pmap(go, jobs, nthreads=14):
        detail = {"kind": kind, "args": args}
        if res["timed_out"]:
            ctx.count("watchdog_timeouts")
            ctx.inconclusive("wall-clock watchdog fired for %s %s (hang is decided on logical progress, not wall time)" % (kind, args))
            continue
        for k, sig, text in res["reports"]:
            ctx.violation(("data-race:" if "Thread" in k else "sanitizer:") + sig, dict(detail, report=text))
        out = res["out"]
        if "DEADLOCK" in out:
            ctx.violation("deadlock:all-threads-blocked", dict(detail, witness=[l for l in out.splitlines() if l.startswith("DEADLOCK")][0][:600]))
        if "STEP-LIMIT" in out:
            ctx.violation("livelock:step-limit", dict(detail, witness=out[-300:]))
        fails = [l for l in out.splitlines() if l.startswith("FAIL ")]
        dec = [l for l in out.splitlines() if l.startswith("DECISIONS ")]
        for f in fails[:3]:
            what = re.sub(r"\d+", "N", f[5:])
            what = what.split(": ", 1)[1] if ": " in what else what
            ctx.violation("dispatch-contract:" + what[:60], dict(detail, witness=f, decisions=dec[:1]))
        s = _summary(out)
        if s is None:
            if not fails and not res["reports"] and "DEADLOCK" not in out:
                ctx.violation("harness-crash:" + kind, dict(detail, rc=res["rc"], stderr=res["err"][-1200:], out=out[-400:]))
            continue
        if kind == "sched":
            n = int(s["distinct_schedules"])
            ctx.case(None, nontrivial=False, n=int(s["schedules"]))
            base = "%s|%s" % (args[1], args[4])
            for i in range(n):
                ctx.distinct.add("%s#%d" % (base, i))
            ctx.count("schedules_" + args[1], int(s["schedules"]))
            ctx.count("scheduling_points", int(s["points"]))
            ctx.count("preemptions", int(s["preemptions"]))
            ctx.count("spin_parks", int(s["spin_parks"]))
            ctx.count("wait_blocks", int(s["wait_blocks"]))
            ctx.count("task_invocations_sched", int(s["invocations"]))
            if args[1] == "dfs":
                ctx.count("dfs_configs_exhausted" if s["exhausted"] == "1" else "dfs_configs_capped")
                ctx.extra.setdefault("dfs", []).append({"history": args[4], "preemption_bound": int(args[5]), "schedules": int(s["schedules"]), "exhausted": s["exhausted"] == "1"})
            if len(ctx.samples) < 3:
                ctx.samples.append(dict(detail, summary=s))
        else:
            ctx.case("%s|%s" % (kind, args[1]), nontrivial=int(s["hooked_invocations"]) > 0, sample=dict(detail, summary=s))
            ctx.count("histories_" + kind, int(s["histories"]))
            ctx.count("dispatches_" + kind, int(s["dispatches"]))
            ctx.count("task_invocations_" + kind, int(s["invocations"]))
            ctx.count("distinct_task_thread_assignments_" + kind, int(s["assignments"]))
    ctx.min_nontrivial = ctx.pick(4000, 100000)


def replay(ctx, path):
    rec = json.load(open(path))
    d = rec["detail"]
    kind, args = d["kind"], d["args"]
    exe = _sched_exe() if kind == "sched" else build.exe(kind.split("-")[1], "h_pool", ["h_pool.cc"])
    res = nat.run_exe(exe, args, "tsan" if kind == "real-tsan" else "rel", timeout=900, leaks=False)
    print(res["out"][-1500:])
    if "DEADLOCK" in res["out"]:
        ctx.violation("deadlock:all-threads-blocked", d)
    for f in [l for l in res["out"].splitlines() if l.startswith("FAIL ")][:3]:
        ctx.violation("dispatch-contract", dict(d, witness=f))
    for k, sig, text in res["reports"]:
        ctx.violation("data-race:" + sig, dict(d, report=text))
    ctx.case("replay", sample=d)
    ctx.min_nontrivial = 1
