"""C20 Exhausted arena memory is handled gracefully."""
import ctypes as C
import json
import os

import numpy as np

from .. import build, common, core, drv, par
from ..gen import corpus, model, piles
from ..mjconst import E

LEVEL = "fault_enumeration"
RULE = ("fault plan over arena sizes: for a (model, state) the step is first run with ample memory to learn the arena it needs "
        "(maxuse_arena A, ncon, nefc, nisland); then the model's arena size is set to each s in {0, 256, 1K, ...} U a grid of "
        "A*f for 40-120 fractions f in (0,1] U {A-8, A-64, A-512, A-4096, A, A+64} U {need_k - 1, need_k : arena-allocation event k, traced through the repo hook on ample memory, that can be the first to fail}, a fresh mjData is made with that arena, the "
        "same state is loaded and forward/step are executed under the error trap with the shadow allocator (repo hook) on, "
        "on the rel flavour and an ASan subsample. Oracle per size: no crash/sanitizer report; outcome is success, a raised "
        "mjWARN_CONTACTFULL/CNSTRFULL warning, or a trapped mju_error; after success the truncated result must be "
        "structurally consistent (contact efc_address < nefc, efc_type/efc_id in range, island maps are in-range permutations, "
        "parena <= narena - pstack); if fewer contacts/constraints than the ample run were produced a warning must have been "
        "raised; if the same counts were produced the accelerations must equal the ample run bit for bit. "
        "distinct = (model, state, size class, outcome)")
ASSUMPTIONS = ["stack exhaustion is documented to raise mju_error; after a trapped error the mjData is discarded",
               "mj_makeData itself may reject an absurdly small arena with an error (counted)",
               "the arena size is varied by editing mjModel.narena before mj_makeData (equivalent to <size memory=.../>)"]


def _load(L, c):
    if c["scene"] == "corpus":
        return L.load_xml(str(build.REPO / c["path"])), c["path"]
    rng = np.random.default_rng(c["mseed"])
    if c["scene"] == "piles":
        xml = piles.pile_xml(rng, nclusters=c["nclusters"], per=c["per"], condim="mix")
    elif c["scene"] == "cloud":
        xml = piles.cloud_xml(rng, n=c["n"])
    else:
        xml, _ = model.gen_profile(rng, c["profile"], equalities=6, tendons=3)
    return L.load_xml_string(xml), "%s:%d" % (c["scene"], c["mseed"])


def _validate(m, d, E_):
    """structural consistency of a (possibly truncated) constraint set; returns a message or None"""
    ncon, nefc, nisl = d.s("ncon"), d.s("nefc"), d.s("nisland")
    if ncon < 0 or nefc < 0 or nisl < 0:
        return "negative count ncon=%d nefc=%d nisland=%d" % (ncon, nefc, nisl)
    if d.s("parena") > d.s("narena") - d.s("pstack"):
        return "parena %d beyond narena-pstack %d" % (d.s("parena"), d.s("narena") - d.s("pstack"))
    ngeom = m.n("ngeom")
    if ncon:
        c = d.contacts()
        if (c["efc_address"] >= nefc).any() or (c["efc_address"] < -1).any():
            return "contact efc_address outside [-1, nefc=%d): %s" % (nefc, c["efc_address"][(c["efc_address"] >= nefc) | (c["efc_address"] < -1)][:4])
        g = c["geom"]
        if ((g >= ngeom) | (g < -1)).any():
            return "contact geom id out of range"
        if (~np.isin(c["dim"], (1, 3, 4, 6))).any():
            return "contact dim invalid"
        if not np.isfinite(c["dist"]).all():
            return "contact dist not finite"
    if nefc:
        af = d.arena_fields()
        t = d.arena("efc_type", af)
        if ((t < 0) | (t > E_.mjCNSTR_CONTACT_ELLIPTIC)).any():
            return "efc_type out of range"
        ids = d.arena("efc_id", af)
        if (ids < 0).any():
            return "efc_id negative"
        cmask = t >= E_.mjCNSTR_CONTACT_FRICTIONLESS
        if (ids[cmask] >= ncon).any():
            return "contact row refers to contact id >= ncon"
        f = d.arena("efc_force", af)
        if f.shape[0] != nefc:
            return "efc_force length != nefc"
    if nisl:
        af = d.arena_fields()
        nv, nidof = m.n("nv"), d.s("nidof")
        for nm, hi, n in (("map_idof2dof", nv, nv), ("map_dof2idof", nv, nv), ("map_efc2iefc", nefc, nefc), ("map_iefc2efc", nefc, nefc)):
            a = d.arena(nm, af)
            if a.shape[0] != n or ((a < 0) | (a >= hi)).any():
                return "%s out of range" % nm
            if len(set(a.tolist())) != n:
                return "%s is not a permutation" % nm
        if ((d.arena("dof_island", af) >= nisl)).any() or (d.arena("efc_island", af) >= nisl).any():
            return "island id >= nisland"
        if nidof < 0 or nidof > nv:
            return "nidof out of range"
    return None


def worker(c):
    P = core.Part()
    L = drv.Lib(c.get("flavour", "rel"))
    lib = L.lib
    lib.vf_mem_violation.restype = C.c_char_p
    for fn in ("vf_mem_track", "vf_mem_forget"):
        getattr(lib, fn).argtypes = [C.c_void_p]
    lib.vf_mem_stats.argtypes = [C.c_void_p, C.POINTER(C.c_longlong)]
    try:
        m, name = _load(L, c)
    except drv.MjError:
        P.count("model_rejected")
        return P.result()
    rng = np.random.default_rng(c["seed"])
    if "opts" in c:
        opts = dict(c["opts"])
    else:
        opts = {"solver": str(rng.choice(common.SOLVERS)), "cone": str(rng.choice(common.CONES)), "jacobian": str(rng.choice(common.JACOBIANS))}
        if rng.random() < 0.3:
            opts["flags"] = ["noisland"]
    common.apply_options(m, opts)
    INT = E.mjSTATE_INTEGRATION
    narena0 = m.n("narena")
    big = max(narena0, 64 << 20)
    m.set_n("narena", big)
    try:
        d = m.make_data()
        d.step(c["presteps"])
        state = d.get_state(INT)
        d.forward()
    except drv.MjError:
        P.count("ample_run_failed")
        return P.result()
    if not (np.isfinite(state).all() and np.isfinite(d["qacc"]).all() and (d.s("ncon") == 0 or np.isfinite(d.contacts()["dist"]).all())):
        # the pre-steps diverged (that is C30's subject): a non-finite state says nothing about arena handling
        P.count("ample_state_not_finite")
        d.free()
        m.free()
        return P.result()
    ref = dict(ncon=d.s("ncon"), nefc=d.s("nefc"), nisland=d.s("nisland"), A=int(d.s("maxuse_arena")), qacc=d["qacc"].copy())
    # arena actually needed by one forward from this state (fresh data => maxuse is that of a single call)
    d2 = m.make_data()
    d2.set_state(state, INT)
    d2.forward()
    A = int(d2.s("maxuse_arena"))
    d2.free()
    d.free()
    # per-event fault plan: trace every arena allocation of the exact call sequence used below on ample memory; event k succeeds
    # iff narena >= need_k (= parena after it + stack in use at that moment), so narena = need_k - 1 makes it fail, and it is the
    # FIRST event to fail when need_k exceeds every earlier need and every earlier transient stack peak
    lib.vf_mem_trace.argtypes = [C.c_int]
    lib.vf_mem_trace_get.argtypes = [C.POINTER(C.c_longlong), C.POINTER(C.c_longlong), C.c_int]
    lib.vf_mem_install(0)
    d3 = m.make_data()
    lib.vf_mem_trace(1)
    ev_sizes = []
    try:
        d3.set_state(state, INT)
        d3.forward()
        d3.step(1)
        d3.forward()
    except drv.MjError:
        P.count("trace_run_failed")
    lib.vf_mem_trace(0)
    need = (C.c_longlong * 8192)()
    byt = (C.c_longlong * 8192)()
    peak = (C.c_longlong * 8192)()
    lib.vf_mem_trace_peaks.argtypes = [C.POINTER(C.c_longlong), C.c_int]
    nev = min(int(lib.vf_mem_trace_get(need, byt, 8192)), 8192)
    lib.vf_mem_trace_peaks(peak, 8192)
    lib.vf_mem_forget(d3.ptr)
    d3.free()
    # event k can be the first thing to fail iff it needs more than everything before it did (earlier arena allocations AND
    # earlier transient stack peaks): need_k > peak_k; then narena = need_k - 1 fails exactly there
    firsts = [int(need[k]) for k in range(nev) if need[k] > peak[k]]
    if os.environ.get("VF_C20_DEBUG"):
        print("C20-TRACE", name, opts, [(k, int(byt[k]), int(need[k]), int(peak[k])) for k in range(nev)][-40:], flush=True)
    firsts = sorted(set(firsts))
    cap = c.get("nevents", 60)
    if len(firsts) > cap:
        keep = set(firsts[-cap // 2:]) | set(int(x) for x in rng.choice(firsts[:-cap // 2], size=cap // 2, replace=False))
        firsts = sorted(keep)
    for t in firsts:
        ev_sizes += [t - 1, t]
    P.count("arena_events_traced", nev)
    P.count("arena_events_made_first_to_fail", len(firsts))
    if ref["ncon"] == 0 and ref["nefc"] == 0:
        P.count("state_without_constraints")
    nsz = c["nsizes"]
    # most of the needed space is stack: small sizes all end in the documented stack-overflow error, the interesting
    # failures (individual arena allocations) live close to the top, so the grid is dense there
    fr = np.unique(np.concatenate([np.linspace(0.05, 0.7, nsz // 4), np.linspace(0.7, 1.02, nsz), 1 - 0.5 ** np.arange(2, 14),
                                   rng.uniform(0.6, 1.0, nsz // 2)]))
    sizes = sorted(set([0, 256, 1024, 4096] + [int(A * f) for f in fr] + [max(0, A - k) for k in (8, 64, 512, 4096)] + [A, A + 64] + [x for x in ev_sizes if x >= 0]))
    ev_set = set(ev_sizes)
    st = (C.c_longlong * 12)()
    lib.vf_mem_install(0)
    for s in sizes:
        m.set_n("narena", s)
        lib.vf_mem_clear()
        L.clear_messages()
        outcome = None
        dd = None
        try:
            dd = m.make_data()
        except drv.MjError as e:
            outcome = "makedata-error"
        if dd is not None:
            lib.vf_mem_track(dd.ptr)
            w0 = dd.sv("warning")["number"].copy()
            try:
                dd.set_state(state, INT)
                dd.forward()
                dd.step(1)
                dd.forward()
                outcome = "ok"
            except drv.MjError as e:
                msg = str(e)
                outcome = "trapped-error:" + ("stack" if "stack overflow" in msg else msg.split(":")[0][:40])
                lib.vf_mem_forget(dd.ptr)
            if outcome == "ok":
                w = dd.sv("warning")["number"] - w0
                full = int(w[E.mjWARN_CONTACTFULL]) + int(w[E.mjWARN_CNSTRFULL])
                # re-evaluate the first forward for the comparison with the ample run
                try:
                    dd.set_state(state, INT)
                    dd.forward()
                    w = dd.sv("warning")["number"] - w0
                    full = int(w[E.mjWARN_CONTACTFULL]) + int(w[E.mjWARN_CNSTRFULL])
                    msg = _validate(m, dd, E)
                    if msg:
                        P.violation("inconsistent-truncated-result:" + msg.split(":")[0].split(" ")[0][:40], {"model": name, "case": c, "options": opts, "narena": s, "needed": A, "message": msg})
                    trunc = dd.s("ncon") < ref["ncon"] or dd.s("nefc") < ref["nefc"]
                    if trunc and not full:
                        P.violation("truncated-without-warning", {"model": name, "case": c, "options": opts, "narena": s, "needed": A,
                                                                  "ncon": [dd.s("ncon"), ref["ncon"]], "nefc": [dd.s("nefc"), ref["nefc"]]})
                    if trunc or full:
                        outcome = "ok-truncated-with-warning" if full else "ok-truncated"
                    elif dd.s("nisland") == ref["nisland"] and not drv.bits_equal(dd["qacc"], ref["qacc"]):
                        P.violation("result-depends-on-arena-size", {"model": name, "case": c, "options": opts, "narena": s, "needed": A})
                    if dd.s("nisland") < ref["nisland"] and not trunc:
                        outcome = "ok-islands-skipped"
                except drv.MjError as e:
                    outcome = "trapped-error:second-forward"
                    lib.vf_mem_forget(dd.ptr)
            lib.vf_mem_stats(None, st)
            for i in range(min(8, int(st[5]))):
                mm = lib.vf_mem_violation(i).decode()
                P.violation("shadow-allocator:" + mm.split(":")[0][:50], {"model": name, "case": c, "narena": s, "message": mm})
            lib.vf_mem_forget(dd.ptr)
            if outcome.startswith("trapped"):
                try:
                    dd.reset()
                except drv.MjError:
                    pass
            dd.free()
        cls = "0" if s == 0 else ("<10%" if s < 0.1 * A else "<50%" if s < 0.5 * A else "<100%" if s < A else ">=100%")
        P.case("%s|%s|%s|%s" % (name, json.dumps(opts, sort_keys=True), cls, outcome), nontrivial=ref["nefc"] > 0 or ref["ncon"] > 0,
               sample={"model": name, "options": opts, "narena": s, "needed": A, "outcome": outcome, "ample": {k: ref[k] for k in ("ncon", "nefc", "nisland")}})
        P.count("outcome:" + outcome)
        if s in ev_set:
            P.count("event-plan-outcome:" + outcome)
    P.count("sizes_tried", len(sizes))
    lib.vf_mem_uninstall()
    m.set_n("narena", narena0)
    m.free()
    return P.result()


def run(ctx):
    rng = ctx.rng
    cs = []
    for i in range(ctx.pick(40, 300)):
        k = i % 4
        base = {"seed": int(rng.integers(0, 2 ** 31)), "mseed": int(rng.integers(0, 2 ** 31)), "presteps": int(rng.integers(5, 60)), "nsizes": ctx.pick(40, 120), "nevents": ctx.pick(60, 400)}
        if k == 0:
            cs.append(dict(base, scene="piles", nclusters=int(rng.integers(2, 8)), per=int(rng.integers(3, 8))))
        elif k == 1:
            cs.append(dict(base, scene="cloud", n=int(rng.integers(20, 70))))
        else:
            cs.append(dict(base, scene="gen", profile=["rich", "contact"][k % 2]))
    # stratified option grid on constraint-rich scenes with little or no collision work: there the transient stack peaks are small,
    # so the later arena allocations of a step (efc_* arrays, the dual solvers' efc_Y*, island maps) can be the FIRST thing to fail;
    # every path that allocates from the arena is selected at least once per run (solver x jacobian x {islands, noslip, diagexact})
    grid = []
    for sol in common.SOLVERS:
        for jac in ("mjJAC_DENSE", "mjJAC_SPARSE"):
            for extra in ({}, {"flags": ["noisland"]}, {"noslip": 3}, {"flags": ["diagexact"]}):
                grid.append(dict({"solver": sol, "jacobian": jac}, **extra))
    for j in range(ctx.pick(1, 6)):
        for gi, o in enumerate(grid):
            o = dict(o, cone=common.CONES[(gi + j) % 2])
            cs.append({"scene": "gen", "profile": ["smooth", "conservative", "rich"][(gi + j) % 3], "opts": o, "seed": int(rng.integers(0, 2 ** 31)),
                       "mseed": int(rng.integers(0, 2 ** 31)), "presteps": int(rng.integers(5, 40)), "nsizes": ctx.pick(10, 40), "nevents": ctx.pick(80, 400)})
    corp = [c for c in corpus.loadable() if (c["ncon"] >= 2 or c["nefc"] >= 4) and c["nv"] < 400 and c["nflex"] == 0]
    idx = rng.permutation(len(corp))
    for i in idx[: ctx.pick(20, len(corp))]:
        c = corp[int(i)]
        cs.append({"scene": "corpus", "path": c["path"], "seed": int(rng.integers(0, 2 ** 31)), "presteps": int(rng.integers(5, 60)), "nsizes": ctx.pick(40, 120), "nevents": ctx.pick(60, 400)})
    res = par.run("vf.props.c20", "worker", cs, nproc=12, timeout=ctx.pick(600, 1800), chunk=1)
    acs = [dict(c, flavour="asan", nsizes=ctx.pick(12, 40)) for c in cs[: ctx.pick(6, 60)]]
    ares = par.run("vf.props.c20", "worker", acs, nproc=8, timeout=ctx.pick(900, 2400), asan=True, chunk=1)
    for c, r in list(zip(cs, res)) + list(zip(acs, ares)):
        if r is None:
            ctx.inconclusive("worker returned nothing")
        elif "crash" in r:
            ctx.violation("crash-or-sanitizer-report-with-small-arena:" + c.get("flavour", "rel"), {"case": c, "rc": r.get("rc"), "stderr": r["crash"][-3000:]})
        elif "exception" in r:
            ctx.inconclusive("harness exception: " + r["exception"] + r.get("trace", "")[-500:])
        else:
            if c.get("flavour") == "asan":
                ctx.count("asan_cases")
            ctx.merge(r)
    ctx.min_nontrivial = ctx.pick(150, 2000)


def replay(ctx, path):
    rec = json.load(open(path))
    c = rec["detail"]["case"]
    ctx.merge(worker(c))
    ctx.min_nontrivial = 1
