"""C30 Numerical blow-ups are contained (mj_checkPos / mj_checkVel / mj_checkAcc, mju_isBad, bad-ctrl handling)."""
import json
import os
import re
import subprocess

import numpy as np

from .. import build, common, core, drv, par
from ..gen import model
from ..mjconst import E

LEVEL = "fault_enumeration"
RULE = ("fault injection matrix on generated models (profiles rich/contact/smooth with mocap bodies and every actuator kind): "
        "value in {NaN, +-Inf, +-mjMAXVAL exactly, +-nextafter(mjMAXVAL) on both sides, +-1e300, denormals, 0} written into one "
        "element of {qpos, qvel, ctrl, qfrc_applied, xfrc_applied, mocap_pos, mocap_quat, act} chosen by index class (joint type "
        "and component, first/last element, limited/unlimited ctrl, world/non-world body) x autoreset {on, off} x integrator "
        "{Euler, RK4, implicit, implicitfast} after a random warm-up history; then one mj_step on the real code. The expected "
        "warning set is derived from an independent predicate (NaN or |x| > mjMAXVAL) applied to the injected qpos/qvel/clamped "
        "ctrl and to qacc of a twin mjData on which only mj_forward ran; the expected post-state after a triggered reset is a "
        "twin driven by mj_resetData + mj_step. Organic blow-ups: stiff models with huge timesteps stepped 40 times with the "
        "same per-step monitors. Sleep-enabled class (mjENBL_SLEEP): generated multi-tree models (3-6 trees rooted in "
        "free/hinge/slide/ball joints with 0-2 child joints; each tree asleep via sleep='init', asleep by stepping while "
        "stationary, or awake; orders asleep-first / asleep-last / interleaved / random) with the same value set written into "
        "{qpos, qvel, qfrc_applied, xfrc_applied, ctrl} at an element of an AWAKE tree whose dof address lies behind a sleeping "
        "tree (awake_hi), of an awake tree in front of every sleeping tree (awake_lo) or of a SLEEPING tree (asleep_lo: address "
        "below nv_awake, asleep_hi), judged by the same predicate / twin oracle restricted to the awake dofs, where awake is "
        "read from mjData.tree_asleep < 0 (documented) and never from the engine's dof_awake_ind lists. "
        "An ASan+UBSan subsample runs the same matrix. distinct = (target array, index class, value "
        "class, autoreset, integrator[, sleep order]); non-trivial = the step ran and the injected element exists")
ASSUMPTIONS = [
    "|x| == mjMAXVAL exactly is not bad (mju_isBad doc: 'Return 1 if nan or abs(x)>mjMAXVAL')",
    "mj_resetData clears the warning counters, so after a triggered reset the only requirement is number >= 1 for the "
    "triggering warning (source comment order in mj_checkPos: reset, then number++); with autoreset disabled the counter "
    "is only required to increase (it increases by 2: mj_warning and the explicit increment)",
    "bad ctrl: warning mjWARN_BADCTRL, all controls treated as zero for that step, no reset (engine_forward.c "
    "'check controls, set all to 0 if any are bad'); clamping to ctrlrange happens first, so +-Inf in a limited ctrl is not bad "
    "and NaN passes through the clamp; d->ctrl itself is left as the user wrote it",
    "injection into act is outside the statement: it is used only as a negative control (no spurious BADQPOS/BADQVEL) and act "
    "finiteness is then not required",
    "engine errors (mju_error) raised while stepping a non-finite state with autoreset disabled are counted and skipped; the "
    "statement does not promise an error-free step there",
    "general matrix: sleeping is disabled. Sleep class (mjENBL_SLEEP): mj_checkVel / mj_checkAcc look at the dofs of awake trees only "
    "(engine design: sleeping trees are 'temporarily removed from the pipeline', computation/index.rst 'Sleeping islands'), so the "
    "predicate is applied to qvel of the trees that are awake when mj_step starts and to qacc (forward-only twin) of the trees that are "
    "awake after the twin's position stage; mj_checkPos and the bad-ctrl test are not filtered (qpos / ctrl of sleeping trees count). "
    "A non-zero (bytewise) qvel / qfrc_applied / xfrc_applied or a changed qpos in a sleeping tree wakes it in the position stage and "
    "'the woken island will behave exactly as if it was awake all along' (same section; programming/simulation.rst 'Waking'): a bad "
    "qvel written into a SLEEPING tree is therefore past mj_checkVel when the tree wakes; the documentation does not say which "
    "counter reports it, so BADQVEL is neither required nor forbidden there (counted in sleep_asleep_qvel_reported_as_*), BADQACC is "
    "required iff the twin's qacc is bad on an awake dof, and the state after the step must be finite / equal to the reset twin",
    "models whose reset state itself yields a bad qacc (degenerate generated models: NaN acceleration from finite forces at "
    "qpos0) are skipped and counted: an automatic reset cannot contain those, the documentation promises a reset, not a cure",
    "which of qacc's elements are bad is decided on a twin by mj_forward (the forward dynamics itself is trusted here; "
    "only the check / warn / reset mechanism is under test)",
    "ASan+UBSan subsample: UBSan float-cast-overflow reports located in mju_round (NaN cast to int while the pipeline runs on a "
    "non-finite state) are counted (ubsan_float_cast_in_mju_round_outside_verdict) but are not violations: no clause of the "
    "statement covers undefined behaviour and the cast has no observable effect (audit B2); every other sanitizer report is a "
    "violation keyed by (kind, function)",
    "a non-finite state after mj_step is reported under a mechanism signature (RK4 sub-stages / implicit non-finite qDeriv / raw "
    "ctrl in qDeriv) only after that mechanism has been confirmed on the failing case by re-evaluation and counterfactual twins "
    "(see classify_unchecked); otherwise under the generic 'nonfinite-<x>-after-step' signature",
]

MAXV = float(E.mjMAXVAL)
VALUES = {
    "nan": float("nan"), "+inf": float("inf"), "-inf": float("-inf"),
    "+max": MAXV, "-max": -MAXV,
    "+max_up": float(np.nextafter(MAXV, np.inf)), "-max_up": -float(np.nextafter(MAXV, np.inf)),
    "+max_dn": float(np.nextafter(MAXV, 0.0)), "-max_dn": -float(np.nextafter(MAXV, 0.0)),
    "+1e300": 1e300, "-1e300": -1e300, "denorm_min": 5e-324, "-denorm": -1e-310, "zero": 0.0,
}
VNAMES = list(VALUES)
INTEGRATORS = ["mjINT_EULER", "mjINT_RK4", "mjINT_IMPLICIT", "mjINT_IMPLICITFAST"]
TARGETS = ["qpos", "qvel", "ctrl", "qfrc_applied", "xfrc_applied", "mocap_pos", "mocap_quat", "act"]
TWEIGHT = [0.22, 0.2, 0.16, 0.12, 0.12, 0.06, 0.06, 0.06]
BADW = ["mjWARN_BADQPOS", "mjWARN_BADQVEL", "mjWARN_BADQACC", "mjWARN_BADCTRL"]
COMP = ["time", "qpos", "qvel", "act", "history", "qacc_warmstart", "ctrl", "qfrc_applied", "xfrc_applied", "eq_active",
        "mocap_pos", "mocap_quat", "userdata", "plugin_state"]


def refbad(x):
    """independent statement of the documented predicate: NaN, or magnitude above mjMAXVAL."""
    x = np.asarray(x, dtype=np.float64)
    return np.isnan(x) | (np.abs(x) > MAXV)


def ref_selftest():
    assert not refbad(MAXV) and not refbad(-MAXV) and refbad(np.nextafter(MAXV, np.inf)) and refbad(np.nan)
    assert refbad(np.inf) and refbad(-np.inf) and not refbad(5e-324) and not refbad(np.nextafter(MAXV, 0))
    return True


def ref_clamped_ctrl(m, ctrl):
    """ctrl as the actuation stage sees it: clamped to ctrlrange when limited and clamping is enabled (NaN unaffected)."""
    c = np.array(ctrl, dtype=np.float64)
    if int(m.opt["disableflags"]) & E.mjDSBL_CLAMPCTRL:
        return c
    lim, rg = m["actuator_ctrllimited"], m["actuator_ctrlrange"]
    for i in range(len(c)):
        if lim[i] and not np.isnan(c[i]):
            c[i] = min(max(c[i], rg[i, 0]), rg[i, 1])
    return c


def index_classes(m, target):
    """list of (class name, flat index) for the target array."""
    out = []
    jt, qa, da = m["jnt_type"], m["jnt_qposadr"], m["jnt_dofadr"]
    nq, nv, nu, nb, nm, na = m.n("nq"), m.n("nv"), m.n("nu"), m.n("nbody"), m.n("nmocap"), m.n("na")
    if target == "qpos":
        for j in range(m.n("njnt")):
            t, a = int(jt[j]), int(qa[j])
            if t == E.mjJNT_FREE:
                out += [("free_pos", a + k) for k in range(3)] + [("free_quat", a + 3 + k) for k in range(4)]
            elif t == E.mjJNT_BALL:
                out += [("ball_quat", a + k) for k in range(4)]
            else:
                out.append(("slide" if t == E.mjJNT_SLIDE else "hinge", a))
        if nq:
            out += [("first", 0), ("last", nq - 1)]
    elif target in ("qvel", "qfrc_applied"):
        for j in range(m.n("njnt")):
            t, a = int(jt[j]), int(da[j])
            if t == E.mjJNT_FREE:
                out += [("free_lin", a + k) for k in range(3)] + [("free_ang", a + 3 + k) for k in range(3)]
            elif t == E.mjJNT_BALL:
                out += [("ball", a + k) for k in range(3)]
            else:
                out.append(("slide" if t == E.mjJNT_SLIDE else "hinge", a))
        if nv:
            out += [("first", 0), ("last", nv - 1)]
    elif target == "ctrl":
        lim, dyn = m["actuator_ctrllimited"], m["actuator_dyntype"]
        for i in range(nu):
            out.append(("%s_dyn%d" % ("limited" if lim[i] else "unlimited", int(dyn[i])), i))
        if nu:
            out.append(("last", nu - 1))
    elif target == "xfrc_applied":
        for b in range(nb):
            out += [("world_force" if b == 0 else "force", 6 * b + k) for k in range(3)]
            out += [("world_torque" if b == 0 else "torque", 6 * b + 3 + k) for k in range(3)]
    elif target == "mocap_pos":
        out = [("pos", k) for k in range(3 * nm)]
    elif target == "mocap_quat":
        out = [("quat", k) for k in range(4 * nm)]
    elif target == "act":
        out = [("act", k) for k in range(na)]
    return out


def _flat(d, target):
    return d[target].reshape(-1)


def _state_diff(L, m, a, b, sig):
    """first differing component between two state vectors of signature sig (bitwise)."""
    if a.tobytes() == b.tobytes():
        return None
    i = int(np.flatnonzero(a.view(np.uint64) != b.view(np.uint64))[0])
    off = 0
    for bit in range(len(COMP)):
        if not (int(sig) >> bit) & 1:
            continue
        n = L.call("mj_stateSize", m, 1 << bit)
        if off <= i < off + n:
            return {"component": COMP[bit], "index": i - off, "got": float(a[i]), "want": float(b[i])}
        off += n
    return {"component": "?", "index": i, "got": float(a[i]), "want": float(b[i])}


def _finite_state(d, skip_act=False):
    bad = []
    for k in ("qpos", "qvel") + (() if skip_act else ("act",)):
        v = d[k]
        if v.size and not np.all(np.isfinite(v)):
            bad.append(k)
    if not np.isfinite(d.s("time")):
        bad.append("time")
    return bad


def _counts(d):
    w = d.sv("warning")["number"]
    return {k: int(w[getattr(E, k)]) for k in BADW}


def _qderiv(L, m, T):
    L.call("mjd_smooth_vel", m, T, 1 if int(m.opt["integrator"]) == E.mjINT_IMPLICIT else 0, ret=None)
    return T["qDeriv"].copy()


def _effective_ctrl(m, ctrl):
    eff = ref_clamped_ctrl(m, ctrl)
    if refbad(eff).any():
        eff[:] = 0
    return eff


RK4_A = [[0.5], [0.0, 0.5], [0.0, 0.0, 1.0]]          # classical RK4 tableau (engine_forward.c mj_RungeKutta, N = 4)


def _rk4_substage_evidence(L, m, pre):
    """positive evidence that the blow-up happens in the RK4 sub-stages 2-4, which mj_step does not check: starting from the
    forwarded pre-step twin (stage 1, known to pass mj_checkAcc) the stage states X_i = X_0 + h sum_j A_ij F_j are rebuilt with
    mj_integratePos and mj_forward, and the first stage whose state or acceleration is bad (NaN or |x| > mjMAXVAL) is reported.
    None if all four stages are fine (then a non-finite result is NOT explained by this mechanism)."""
    h = float(m.opt["timestep"])
    nv, na = m.n("nv"), m.n("na")
    q0, v0, t0 = pre["qpos"].copy(), pre["qvel"].copy(), pre.s("time")
    a0 = pre["act"].copy() if na else None
    F = [(v0.copy(), pre["qacc"].copy(), pre["act_dot"].copy() if na else None)]
    X = pre.copy()
    try:
        for i in range(3):
            row = RK4_A[i]
            dq = sum(row[j] * F[j][0] for j in range(len(row)))
            dv = sum(row[j] * F[j][1] for j in range(len(row)))
            with np.errstate(all="ignore"):
                q = np.ascontiguousarray(q0.copy())
                L.call("mj_integratePos", m, q, np.ascontiguousarray(dq), h, ret=None)
                v = v0 + h * dv
            if refbad(q).any() or refbad(v).any():
                return {"stage": i + 2, "what": "stage state", "max_abs_qvel": float(np.nanmax(np.abs(v))) if nv else 0.0}
            X["qpos"][:] = q
            X["qvel"][:] = v
            if na:
                with np.errstate(all="ignore"):
                    X["act"][:] = a0 + h * sum(row[j] * F[j][2] for j in range(len(row)))
            X.set_s("time", t0 + h * sum(row))
            try:
                X.forward()
            except drv.MjError as e:
                return {"stage": i + 2, "what": "engine error in stage forward: " + str(e)[:80]}
            if refbad(X["qacc"]).any():
                return {"stage": i + 2, "what": "stage qacc", "max_abs_qacc": float(np.nanmax(np.abs(X["qacc"])))}
            F.append((X["qvel"].copy(), X["qacc"].copy(), X["act_dot"].copy() if na else None))
        return None
    finally:
        X.free()


def _euler_twin_finite(L, m, pre_state):
    """one step of an Euler twin from the same pre-step state leaves a finite state (the blow-up is specific to the integrator)"""
    integ = int(m.opt["integrator"])
    Tw = pre_state.copy()
    try:
        m.opt["integrator"] = E.mjINT_EULER
        Tw.step(1)
        return not _finite_state(Tw)
    except drv.MjError:
        return False
    finally:
        m.opt["integrator"] = integ
        Tw.free()


def _qderiv_family_nonfinite(L, m, T):
    """which derivative family puts non-finite entries into qDeriv (each mjd_* accumulates into a cleared qDeriv)"""
    out = {}
    for fam in ("mjd_actuator_vel", "mjd_passive_vel"):
        T["qDeriv"][:] = 0
        L.call(fam, m, T, ret=None)
        out[fam] = not bool(np.isfinite(T["qDeriv"]).all())
    return out


def _undamped_tendon_nan_derivative(L, m, pre0, fwd, restore):
    """confirmation of the described mechanism of findings/C30-implicit-nonfinite-qDeriv-unchecked.md on the failing case:
    (1) the passive-force derivative alone (mjd_passive_vel) is non-finite while the actuator derivative is finite, and the passive
    FORCE itself is finite (the force code skipped the term, the derivative code did not); (2) a tendon with zero damping (linear and
    polynomial) has a non-finite velocity; (3) counterfactual: with the injected element(s) put back to their pre-injection values the
    same state has a finite qDeriv, i.e. the NaN stems from the injected non-finite input, not from the derivative code at a finite
    state (that would be a C25-class defect and keeps the generic signature); (4) an Euler twin stays finite."""
    ev = {}
    fam = _qderiv_family_nonfinite(L, m, fwd)
    ev["family_nonfinite"] = fam
    if not fam["mjd_passive_vel"] or fam["mjd_actuator_vel"]:
        return False, ev
    if not np.isfinite(fwd["qfrc_passive"]).all():
        ev["qfrc_passive_finite"] = False
        return False, ev
    nt = m.n("ntendon")
    tv = fwd["ten_velocity"]
    damp = m["tendon_damping"].reshape(-1)
    poly = m["tendon_dampingpoly"].reshape(nt, -1) if nt and "tendon_dampingpoly" in m else np.zeros((nt, 1))
    cand = [t for t in range(nt) if not np.isfinite(tv[t]) and damp[t] == 0 and not poly[t].any()]
    ev["undamped_tendons_with_nonfinite_velocity"] = cand
    if not cand:
        return False, ev
    if not restore:
        ev["counterfactual"] = "no injected element to restore"
        return False, ev
    C0 = pre0.copy()
    try:
        for target, idx, orig in restore:
            _flat(C0, target)[idx] = orig
        C0.forward()
        ev["qDeriv_finite_with_injection_undone"] = bool(np.isfinite(_qderiv(L, m, C0)).all())
    except drv.MjError:
        ev["qDeriv_finite_with_injection_undone"] = False
    finally:
        C0.free()
    if not ev["qDeriv_finite_with_injection_undone"]:
        return False, ev
    ev["euler_twin_finite"] = _euler_twin_finite(L, m, pre0)
    return bool(ev["euler_twin_finite"]), ev


def classify_unchecked(L, m, pre, restore=None):
    """pre: twin holding the pre-step state; restore: [(target, index, value before injection)]. Names the mechanism that let a
    non-finite value through: returns (mechanism, confirmed, evidence). Only a CONFIRMED mechanism may be used as (part of) a
    signature that is listed in known_findings.json; an unconfirmed guess is reported under the generic
    'autoreset-on:nonfinite-...-after-step' signature (audit B2)."""
    integ = int(m.opt["integrator"])
    pre0 = pre
    pre = pre.copy()
    try:
        pre.forward()
        if refbad(pre["qacc"]).any():
            return "mj_checkAcc-missed-bad-qacc", False, {}
        if integ == E.mjINT_RK4:
            ev = _rk4_substage_evidence(L, m, pre)
            if ev is None:
                return "RK4:all-four-stages-fine", False, {}
            ev["euler_twin_finite"] = _euler_twin_finite(L, m, pre0)
            return "integrator-result-unchecked:RK4-substages", bool(ev["euler_twin_finite"]), ev
        if integ in (E.mjINT_IMPLICIT, E.mjINT_IMPLICITFAST):
            if m.n("nu"):
                raw = pre["ctrl"].copy()
                eff = _effective_ctrl(m, raw)
                if raw.tobytes() != eff.tobytes():
                    # raw-ctrl mechanism (findings/C30-implicit-qDeriv-uses-raw-ctrl.md), three-part confirmation: (1) qDeriv on this
                    # state changes when d->ctrl is replaced by the controls the actuation stage really used (clamped; zero if any is
                    # bad); (2) counterfactual: the same step with d->ctrl replaced by those controls - identical forces, only qDeriv
                    # differs - leaves a finite state; (3) the raw-ctrl step is finite under Euler (a leak of the raw ctrl anywhere
                    # else in the pipeline would show there too). Covers a non-finite qDeriv (ctrl = NaN/Inf) and a finite but huge
                    # one (ctrl = 1e300 clamped to 1: M - h*qDeriv overflows in the solve).
                    ev = {"qDeriv_finite_with_raw_ctrl": bool(np.isfinite(_qderiv(L, m, pre)).all())}
                    pre["ctrl"][:] = eff
                    D_eff = _qderiv(L, m, pre)
                    pre["ctrl"][:] = raw
                    ev["qDeriv_changes_with_effective_ctrl"] = bool(D_eff.tobytes() != _qderiv(L, m, pre).tobytes())
                    Tw = pre0.copy()
                    try:
                        Tw["ctrl"][:] = eff
                        Tw.step(1)
                        ev["state_finite_with_effective_ctrl"] = not _finite_state(Tw)
                    except drv.MjError:
                        ev["state_finite_with_effective_ctrl"] = False
                    finally:
                        Tw.free()
                    if ev["qDeriv_changes_with_effective_ctrl"] and ev["state_finite_with_effective_ctrl"]:
                        ev["euler_twin_finite"] = _euler_twin_finite(L, m, pre0)
                        if ev["euler_twin_finite"]:
                            return "implicit:qDeriv-uses-raw-ctrl:nonfinite-state-after-step", True, ev
            D = _qderiv(L, m, pre)
            if not np.isfinite(D).all():
                ok, ev = _undamped_tendon_nan_derivative(L, m, pre0, pre, restore)
                return "integrator-result-unchecked:implicit:nonfinite-qDeriv", ok, ev
            # everything the documented checks look at is fine (state, controls and the forward qacc pass the bad-value predicate,
            # qDeriv is finite) and yet the implicit velocity update returns non-finite values: the result of the integration stage
            # is never checked (the checks sit at the start of the step). Confirmed when the same step with the Euler integrator from
            # the same state stays finite, i.e. the overflow is produced inside the implicit update (M - h*qDeriv solve) itself.
            ev = {"qDeriv_finite": True, "forward_qacc_passes_the_predicate": True, "euler_twin_finite": _euler_twin_finite(L, m, pre0)}
            # root-cause confirmation (independent of where inside the update the overflow happens): the very next mj_step from the
            # returned state raises the position/velocity warning and resets - i.e. the bad values were produced by this step's
            # integration stage and only the START-of-step checks ever look at them
            Tw = pre0.copy()
            try:
                Tw.step(1)
                w0 = Tw.sv("warning")["number"].copy()
                bad_after_first = bool(_finite_state(Tw))
                Tw.step(1)
                w1 = Tw.sv("warning")["number"]
                ev["nonfinite_after_this_step"] = bad_after_first
                ev["next_step_raises_BADQPOS_or_BADQVEL"] = bool(int(w1[E.mjWARN_BADQPOS]) + int(w1[E.mjWARN_BADQVEL]) >= 1 and int(w0[E.mjWARN_BADQPOS]) + int(w0[E.mjWARN_BADQVEL]) == 0)
                ev["state_finite_after_next_step"] = not bool(_finite_state(Tw))
            except drv.MjError:
                ev["next_step_raises_BADQPOS_or_BADQVEL"] = False
            finally:
                Tw.free()
            ok = bool(ev.get("nonfinite_after_this_step") and ev.get("next_step_raises_BADQPOS_or_BADQVEL") and ev.get("state_finite_after_next_step"))
            return "integrator-result-unchecked:implicit:nonfinite-solve", ok, ev
        return "Euler", False, {}
    except drv.MjError:
        return "unclassified(engine-error-in-diagnosis)", False, {}
    finally:
        pre.free()


def report_unchecked(P, L, m, PRE, bad, provenance, wit, restore=None, prefix="autoreset-on", integrator_mechanisms_only=False):
    """one violation for a non-finite state after mj_step, keyed by the confirmed mechanism or generically"""
    mech, confirmed, ev = classify_unchecked(L, m, PRE, restore)
    if integrator_mechanisms_only and (mech == "Euler" or mech.startswith(("mj_checkAcc", "unclassified"))):
        # degenerate generated model whose reset state itself is not steppable (see ASSUMPTIONS): skipped and counted by the caller
        return
    wit = dict(wit, nonfinite=bad, mechanism=mech, mechanism_confirmed=confirmed, mechanism_evidence=ev, provenance=provenance)
    if confirmed:
        # the provenance (injected-<target> / organic / from-reset-state) is evidence, not mechanism: it goes into this counter and
        # into the detail. For the two integrator mechanisms that are positively confirmed per case the signature is the exact
        # mechanism key (lead decision); the raw-ctrl key keeps its provenance suffix
        P.count("unchecked_result_confirmed:%s:%s" % (mech, provenance))
        if mech.startswith("integrator-result-unchecked:"):
            P.violation(mech, wit)
        else:
            P.violation("%s:%s" % (mech, provenance), wit)
    else:
        P.count("unchecked_result_unconfirmed:%s:%s" % (mech, provenance))
        P.violation("%s:nonfinite-%s-after-step:%s:%s" % (prefix, bad[0], mech, provenance), wit)


def raw_ctrl_in_qderiv(L, m, pre):
    """True if qDeriv of the implicit integrators changes when d->ctrl is replaced by the controls the actuation stage
    actually used (clamped; all zero if any is bad)."""
    if int(m.opt["integrator"]) not in (E.mjINT_IMPLICIT, E.mjINT_IMPLICITFAST) or not m.n("nu"):
        return False
    pre = pre.copy()
    try:
        pre.forward()
        D1 = _qderiv(L, m, pre)
        pre["ctrl"][:] = _effective_ctrl(m, pre["ctrl"].copy())
        D0 = _qderiv(L, m, pre)
        return D1.tobytes() != D0.tobytes()
    except drv.MjError:
        return False
    finally:
        pre.free()


def badctrl_difference_is_raw_ctrl_in_qderiv(L, m, pre):
    """mechanism confirmation for 'implicit:qDeriv-uses-raw-ctrl:badctrl-step-differs-from-zero-control-twin' (audit B2: a model-level
    predicate alone would relabel any other leak of a bad raw ctrl into the step, e.g. through act_dot): (1) qDeriv depends on the raw
    ctrl on this state, and (2) counterfactual: on the SAME case the raw-ctrl step and the zero-control twin agree bit for bit under the
    Euler integrator (which shares the whole pipeline except the use of qDeriv), so the difference is specific to the implicit
    integrators' derivative."""
    if not raw_ctrl_in_qderiv(L, m, pre):
        return False, {"raw_ctrl_in_qDeriv": False}
    integ = int(m.opt["integrator"])
    A, B = pre.copy(), pre.copy()
    try:
        m.opt["integrator"] = E.mjINT_EULER
        B["ctrl"][:] = 0
        A.step(1)
        B.step(1)
        same = _state_diff(L, m, A.get_state(E.mjSTATE_PHYSICS), B.get_state(E.mjSTATE_PHYSICS), E.mjSTATE_PHYSICS) is None
        return same, {"raw_ctrl_in_qDeriv": True, "euler_raw_vs_zero_control_twin_identical": same}
    except drv.MjError as e:
        return False, {"raw_ctrl_in_qDeriv": True, "euler_counterfactual_error": str(e)[:80]}
    finally:
        m.opt["integrator"] = integ
        A.free()
        B.free()


SLEEP_PATTERNS = ["asleep_first", "asleep_last", "interleaved", "random"]
STARGETS = ["qpos", "qvel", "qfrc_applied", "xfrc_applied", "ctrl"]
STWEIGHT = [0.14, 0.24, 0.24, 0.22, 0.16]
SPOS = ["awake_hi", "asleep_lo", "asleep_hi", "awake_lo"]
SPOSW = {"awake_hi": 0.45, "asleep_lo": 0.25, "asleep_hi": 0.15, "awake_lo": 0.15}


def gen_sleep_model(rng):
    """multi-tree model for the sleep-enabled class. Returns (xml, meta); meta['roles'][t] in {'init', 'auto', 'awake'} is the INTENDED
    state of tree t after the warm-up (the actual state is read from mjData.tree_asleep), meta['never'][t] marks sleep='never'."""
    ntree = int(rng.integers(3, 7))
    pattern = SLEEP_PATTERNS[int(rng.integers(0, len(SLEEP_PATTERNS)))]
    if pattern == "asleep_first":
        k = int(rng.integers(1, ntree))
        asleep = [t < k for t in range(ntree)]
    elif pattern == "asleep_last":
        k = int(rng.integers(1, ntree))
        asleep = [t >= ntree - k for t in range(ntree)]
    elif pattern == "interleaved":
        first = int(rng.integers(0, 2))
        asleep = [(t + first) % 2 == 0 for t in range(ntree)]
    else:
        asleep = [bool(rng.random() < 0.5) for t in range(ntree)]
        if all(asleep) or not any(asleep):
            asleep[int(rng.integers(0, ntree))] = not asleep[0]
    zero_g = bool(rng.random() < 0.65)
    nocontact = bool(rng.random() < 0.7)
    roles, never, bodies, acts = [], [], [], []
    jn = 0
    for t in range(ntree):
        role = ("auto" if (zero_g and rng.random() < 0.5) else "init") if asleep[t] else "awake"
        roles.append(role)
        nchild = int(rng.integers(0, 3))
        has_act = bool(rng.random() < 0.55)
        nv_ = bool(role == "awake" and rng.random() < 0.5)
        never.append(nv_)
        attr = ""
        if role == "init":
            attr = ' sleep="init"'
        elif role == "auto":
            attr = ' sleep="allowed"'
        elif nv_:
            attr = ' sleep="never"'
        root = ["free", "hinge", "slide", "ball"][int(rng.choice(4, p=[0.3, 0.3, 0.25, 0.15]))]
        actable = []

        def joint(kind):
            nonlocal jn
            name = "j%d" % jn
            jn += 1
            if kind == "free":
                return '<freejoint name="%s"/>' % name
            a = rng.normal(size=3)
            a /= np.linalg.norm(a)
            extra = ""
            if rng.random() < 0.5:
                extra += ' damping="%g"' % float(rng.choice([0.05, 0.5]))
            if kind != "ball" and rng.random() < 0.3:
                extra += ' stiffness="%g"' % float(rng.choice([1.0, 20.0]))
            if kind in ("hinge", "slide"):
                actable.append(name)
            return '<joint name="%s" type="%s" axis="%.4f %.4f %.4f"%s/>' % (name, kind, a[0], a[1], a[2], extra)

        def geom():
            g = int(rng.integers(0, 3))
            if g == 0:
                return '<geom type="sphere" size="%.3f"/>' % rng.uniform(0.04, 0.1)
            if g == 1:
                return '<geom type="capsule" size="%.3f" fromto="0 0 0 %.3f 0 %.3f"/>' % (rng.uniform(0.02, 0.05), rng.uniform(0.1, 0.25),
                                                                                     rng.uniform(-0.2, 0.2))
            return '<geom type="box" size="%.3f %.3f %.3f"/>' % tuple(rng.uniform(0.03, 0.1, size=3))

        b = '<body name="t%d" pos="%.3f %.3f %.3f"%s>%s%s' % (t, 1.5 * t, rng.uniform(-0.2, 0.2), rng.uniform(0.5, 1.0), attr, joint(root), geom())
        for ch in range(nchild):
            kind = ["hinge", "slide", "ball"][int(rng.choice(3, p=[0.5, 0.3, 0.2]))]
            b += '<body pos="%.3f %.3f %.3f">%s%s' % (rng.uniform(0.1, 0.25), rng.uniform(-0.1, 0.1), rng.uniform(-0.1, 0.1), joint(kind), geom())
        b += "</body>" * (nchild + 1)
        bodies.append(b)
        if has_act and actable:
            for jname in actable[:int(rng.integers(1, 3))]:
                kind = ["motor", "position", "velocity", "intvelocity"][int(rng.choice(4, p=[0.4, 0.25, 0.2, 0.15]))]
                lim = ""
                if kind == "intvelocity":
                    lim = ' actrange="-1 1"'
                if rng.random() < 0.5:
                    lim += ' ctrllimited="true" ctrlrange="-1 1"'
                prm = {"motor": ' gear="%g"' % float(rng.choice([1.0, 5.0])), "position": ' kp="5"', "velocity": ' kv="0.5"',
                       "intvelocity": ' kp="5"'}[kind]
                acts.append('<%s joint="%s"%s%s/>' % (kind, jname, prm, lim))
    xml = ('<mujoco><option timestep="0.002" gravity="%s"><flag sleep="enable"%s/></option><worldbody>%s%s</worldbody>%s</mujoco>'
           % ("0 0 0" if zero_g else "0 0 -9.81", ' contact="disable"' if nocontact else "",
              '<geom type="plane" size="5 5 .1" pos="0 0 -3"/>' if not nocontact else "", "".join(bodies),
              ("<actuator>%s</actuator>" % "".join(acts)) if acts else ""))
    return xml, {"roles": roles, "never": never, "pattern": pattern, "zero_g": zero_g}


def awake_dofs(m, d):
    """bool[nv]: dof belongs to a tree that is awake. mjData.tree_asleep: 'A negative value means a tree is awake, non-negative means
    asleep' (programming/simulation.rst 'Sleeping islands'). Deliberately NOT the engine's dof_awake_ind / nv_awake lists, which are
    what the checks under test iterate over."""
    if not m.n("nv"):
        return np.zeros(0, dtype=bool)
    return d["tree_asleep"][m["dof_treeid"]] < 0


SLEEP_QVEL_SIG = "sleep:bad-qvel-in-sleeping-tree-wakes-after-mj_checkVel:nonfinite-state-after-step"


def asleep_qvel_passes_checkvel(L, m, PRE):
    """mechanism confirmation for SLEEP_QVEL_SIG (findings/C30-sleeping-tree-bad-qvel-passes-checkvel.md) on the failing case:
    (1) before the step every bad qvel sits in a tree that is asleep, qpos and the qvel of the awake trees are fine; (2) in a
    forward-only twin those trees are awake after the position stage (the documented wake on a non-zero qvel) and qacc of all
    awake dofs is fine, so mj_checkAcc has nothing to report; (3) counterfactual: the SAME pre-step mjData stepped with mjENBL_SLEEP
    cleared (mj_checkVel then looks at every dof) raises BADQVEL, resets and returns a finite state. Only then is the silent
    non-finite result attributed to mj_checkVel running before the tree wakes."""
    ev = {}
    aw = awake_dofs(m, PRE)
    badv = refbad(PRE["qvel"])
    ev["bad_qvel_dofs"] = [int(i) for i in np.flatnonzero(badv)]
    ev["all_bad_qvel_in_sleeping_trees"] = bool(badv.any() and not badv[aw].any() and not refbad(PRE["qpos"]).any())
    if not ev["all_bad_qvel_in_sleeping_trees"]:
        return False, ev
    T = PRE.copy()
    try:
        T.forward()
        awT = awake_dofs(m, T)
        ev["trees_awake_after_position_stage"] = bool(awT[badv].all())
        ev["twin_qacc_fine_on_awake_dofs"] = not bool(refbad(T["qacc"][awT]).any())
    except drv.MjError as e:
        ev["twin_forward_error"] = str(e)[:80]
        return False, ev
    finally:
        T.free()
    if not (ev["trees_awake_after_position_stage"] and ev["twin_qacc_fine_on_awake_dofs"]):
        return False, ev
    en0 = int(m.opt["enableflags"])
    C = PRE.copy()
    try:
        m.opt["enableflags"] = en0 & ~E.mjENBL_SLEEP
        C.step(1)
        ev["sleep_disabled_twin_BADQVEL"] = _counts(C)["mjWARN_BADQVEL"]
        ev["sleep_disabled_twin_finite"] = not _finite_state(C)
    except drv.MjError as e:
        ev["sleep_disabled_twin_error"] = str(e)[:80]
        return False, ev
    finally:
        m.opt["enableflags"] = en0
        C.free()
    return bool(ev["sleep_disabled_twin_BADQVEL"] >= 1 and ev["sleep_disabled_twin_finite"]), ev


def _warm_sleep(L, m, d, rng, meta):
    """warm-up for the sleep class: awake trees get a velocity, trees meant to fall asleep stay untouched long enough (mjMINAWAKE steps);
    returns None if the pre-injection state has at least one sleeping and one awake tree and no warning, else a reason."""
    d.reset()
    tid = m["dof_treeid"]
    roles = meta["roles"]
    if len(roles) != m.n("ntree"):
        return "tree_count_mismatch"
    qv = d["qvel"]
    for i in range(m.n("nv")):
        t = int(tid[i])
        if roles[t] == "awake" and not (meta["never"][t] and rng.random() < 0.3):
            qv[i] = rng.normal() * 0.5
    nu = m.n("nu")
    atree = None
    if nu:
        atree = m["body_treeid"][m["jnt_bodyid"][m["actuator_trnid"].reshape(-1, 2)[:, 0]]]
        for a in range(nu):
            if roles[int(atree[a])] == "awake":
                d["ctrl"][a] = rng.normal()
    nstep = (int(E.mjMINAWAKE) + 2 + int(rng.integers(0, 5))) if "auto" in roles else int(rng.integers(1, 5))
    d.step(nstep)
    w = d.sv("warning")["number"]
    if any(int(w[getattr(E, k)]) for k in BADW) or _finite_state(d):
        return "warmup_diverged"
    ta = d["tree_asleep"]
    if not ((ta >= 0).any() and (ta < 0).any()):
        return "no_mixed_sleep_state"
    if nu and rng.random() < 0.3:
        # finite controls on sleeping actuators do not wake their tree (simulation.rst 'Sleeping actuators')
        for a in range(nu):
            if ta[int(atree[a])] >= 0:
                d["ctrl"][a] = rng.normal()
    return None


def sleep_index_classes(m, d, target):
    """(class, flat index) for the sleep class: position of the element's tree relative to the sleeping trees in dof order.
    awake_hi: awake dof with a sleeping dof at a lower address (its place in any awake list differs from its address);
    awake_lo: awake dof in front of every sleeping dof; asleep_lo: sleeping dof whose address is below the number of awake dofs
    (an awake-list position read as an address lands on it); asleep_hi: the other sleeping dofs."""
    nv = m.n("nv")
    aw = awake_dofs(m, d)
    nawake = int(aw.sum())
    first_asleep = int(np.flatnonzero(~aw)[0]) if (~aw).any() else nv
    dcls = []
    for i in range(nv):
        if aw[i]:
            dcls.append("awake_hi" if i > first_asleep else "awake_lo")
        else:
            dcls.append("asleep_lo" if i < nawake else "asleep_hi")
    out = []
    jt, qa, da = m["jnt_type"], m["jnt_qposadr"], m["jnt_dofadr"]
    width = {int(E.mjJNT_FREE): (7, 6), int(E.mjJNT_BALL): (4, 3), int(E.mjJNT_HINGE): (1, 1), int(E.mjJNT_SLIDE): (1, 1)}
    if target == "qpos":
        for j in range(m.n("njnt")):
            nqj, nvj = width[int(jt[j])]
            out += [(dcls[int(da[j])], int(qa[j]) + k) for k in range(nqj)]
    elif target in ("qvel", "qfrc_applied"):
        out = [(dcls[i], i) for i in range(nv)]
    elif target == "xfrc_applied":
        bt, bd, bn = m["body_treeid"], m["body_dofadr"], m["body_dofnum"]
        tree_first = m["tree_dofadr"]
        for b in range(1, m.n("nbody")):
            t = int(bt[b])
            if t < 0:
                continue
            cl = dcls[int(bd[b])] if int(bn[b]) else dcls[int(tree_first[t])]
            out += [(cl, 6 * b + k) for k in range(6)]
    elif target == "ctrl":
        trn = m["actuator_trnid"].reshape(-1, 2)[:, 0]
        lim = m["actuator_ctrllimited"]
        for a in range(m.n("nu")):
            cl = dcls[int(da[int(trn[a])])]
            out.append(("%s_%s" % (cl, "limited" if lim[a] else "unlimited"), a))
    return out


def _gen(c):
    rng = np.random.default_rng(c["mseed"])
    if c.get("sleep"):
        xml, c["_sleep_meta"] = gen_sleep_model(rng)
        return xml
    prof = c["profile"]
    over = dict(mocap=0.7, actuators=0.8)
    if prof == "contact":
        over["actuators"] = 0.5
    if c.get("organic"):
        over.update(option={"timestep": c["timestep"]}, springs=0.8, tendons=2)
    xml, tags = model.gen_profile(rng, prof, **over)
    return xml


def _warm(L, m, d, rng, nstep):
    """random warm-up history; returns None, or the mechanism name if even mj_resetData + mj_step leaves a non-finite state."""
    d.reset()
    common.random_state(rng, m, d, vel_scale=float(rng.choice([0.1, 1.0, 3.0])))
    common.random_controls(rng, m, d)
    d.step(nstep)
    w = d.sv("warning")["number"]
    if any(int(w[getattr(E, k)]) for k in BADW) or _finite_state(d):
        # the warm-up itself diverged: start from the reset state plus one step instead
        d.reset()
        pre = d.copy()
        d.step(1)
        bad = _finite_state(d)
        w = d.sv("warning")["number"]
        mech = None
        if bad:
            mech = ("nonfinite", pre, bad)                 # caller reports and frees pre
            return mech
        elif any(int(w[getattr(E, k)]) for k in BADW):
            mech = ("reset-state-raises-bad-value-warning", None, None)
        pre.free()
        return mech
    return None


def inject_once(L, m, rng, P, c, k):
    """one injection experiment; returns after recording the case."""
    nstep = int(rng.integers(1, 4))
    wseed = int(rng.integers(0, 2 ** 31))
    target = TARGETS[int(rng.choice(len(TARGETS), p=TWEIGHT))]
    sleepmode = bool(c.get("sleep"))
    meta = c.get("_sleep_meta")
    if sleepmode:
        target = STARGETS[int(rng.choice(len(STARGETS), p=STWEIGHT))]
        if target == "ctrl" and not m.n("nu"):
            target = "qfrc_applied"
    classes = [("deferred", 0)] if sleepmode else index_classes(m, target)     # sleep class: depends on the state after the warm-up
    vname = VNAMES[int(rng.integers(0, len(VNAMES)))]
    autoreset = bool(rng.random() < 0.6)
    pick = int(rng.integers(0, 1 << 30))
    second = rng.random() < 0.15        # additionally a second (benign or bad) value elsewhere in the same array
    pick2, vname2 = int(rng.integers(0, 1 << 30)), VNAMES[int(rng.integers(0, len(VNAMES)))]
    if not classes:
        P.count("skipped_no_such_element:" + target)
        P.case(nontrivial=False)
        return
    # choose the class first, then the element, so rare classes are not swamped
    cname = idx = None
    if not sleepmode:
        cnames = sorted({cn for cn, _ in classes})
        cname = cnames[pick % len(cnames)]
        members = [i for cn, i in classes if cn == cname]
        idx = members[(pick // 97) % len(members)]
    val = VALUES[vname]
    wit = {"case": {kk: v for kk, v in c.items() if not kk.startswith("_")}, "injection": k, "target": target,
           "index_class": cname, "index": idx, "value": vname, "autoreset": autoreset, "warm_steps": nstep,
           "integrator": c["integrator"], "xml": c.get("_xml")}
    dis0 = int(m.opt["disableflags"])
    m.opt["disableflags"] = dis0 & ~E.mjDSBL_AUTORESET
    d = m.make_data()
    T = R = Z = PRE = None
    try:
        if sleepmode:
            try:
                why = _warm_sleep(L, m, d, np.random.default_rng(wseed), meta)
            except drv.MjError:
                why = "warmup_engine_error"
            if why is None:
                classes = sleep_index_classes(m, d, target)
                if not classes:
                    why = "no_such_element:" + target
            if why is not None:
                P.count("skipped_sleep_" + why)
                P.case(nontrivial=False)
                return
            # position class first (weighted towards awake dofs behind a sleeping tree), then the element
            have = sorted({cn for cn, _ in classes})
            pw = np.array([SPOSW[cn.split("_lim")[0].split("_unlim")[0]] for cn in have])
            cname = have[int(np.random.default_rng([wseed, pick]).choice(len(have), p=pw / pw.sum()))]
            members = [i for cn, i in classes if cn == cname]
            idx = members[(pick // 97) % len(members)]
            wit.update(index_class=cname, index=idx, sleep_pattern=meta["pattern"], sleep_roles=meta["roles"],
                       tree_asleep=[int(x) for x in d["tree_asleep"]])
            P.count("sleep_pattern:" + meta["pattern"])
            ta = d["tree_asleep"]
            for t, role in enumerate(meta["roles"]):
                P.count("sleep_tree_%s_%s" % (role, "asleep" if ta[t] >= 0 else "awake"))
        try:
            mech = None if sleepmode else _warm(L, m, d, np.random.default_rng(wseed), nstep)
            if mech is not None:
                # the model cannot even take one step from its reset state
                if mech[0] == "nonfinite":
                    try:
                        report_unchecked(P, L, m, mech[1], mech[2], "from-reset-state",
                                         dict(wit, note="mj_resetData + mj_step leaves a non-finite state"), prefix="reset-state",
                                         integrator_mechanisms_only=True)
                    finally:
                        mech[1].free()
                P.count("skipped_model_diverges_from_reset_state")
                P.case(nontrivial=False)
                return
        except drv.MjError as e:
            # e.g. the open finding C17 (contact between two static bodies aborts): not this property's concern
            P.count("skipped_warmup_engine_error")
            P.case(nontrivial=False)
            return
        if not autoreset:
            m.opt["disableflags"] = dis0 | E.mjDSBL_AUTORESET
        restore = [(target, idx, float(_flat(d, target)[idx]))]
        _flat(d, target)[idx] = val
        if second:
            idx2 = classes[pick2 % len(classes)][1]
            if idx2 != idx:
                restore.append((target, idx2, float(_flat(d, target)[idx2])))
                _flat(d, target)[idx2] = VALUES[vname2]
                wit["second"] = {"index": idx2, "value": vname2}
        before = _counts(d)
        t0 = d.s("time")
        dt = float(m.opt["timestep"])
        pos_bad = bool(refbad(d["qpos"]).any())
        vel_bad = bool(refbad(d["qvel"]).any())
        vel_bad_asleep = False
        if sleepmode:
            aw0 = awake_dofs(m, d)
            vel_bad = bool(refbad(d["qvel"][aw0]).any())
            vel_bad_asleep = bool(refbad(d["qvel"][~aw0]).any())
        ctrl_bad = bool(refbad(ref_clamped_ctrl(m, d["ctrl"])).any()) and not (int(m.opt["disableflags"]) & E.mjDSBL_ACTUATION) \
            and m.n("nu") > 0
        # twin: forward only (no checks) to learn qacc
        acc_bad = None
        if not autoreset or not (pos_bad or vel_bad):
            T = d.copy()
            try:
                T.forward()
                acc_bad = bool(refbad(T["qacc"][awake_dofs(m, T)] if sleepmode else T["qacc"]).any())
            except drv.MjError as e:
                P.count("twin_forward_engine_error")
                acc_bad = None
        # reference for the reset path
        R = d.copy()
        m.opt["disableflags"] = dis0 & ~E.mjDSBL_AUTORESET
        R.reset()
        R.step(1)
        want_reset = R.get_state(E.mjSTATE_INTEGRATION)
        if not autoreset:
            m.opt["disableflags"] = dis0 | E.mjDSBL_AUTORESET
        # reference for the bad-ctrl path
        if ctrl_bad and not (pos_bad or vel_bad) and acc_bad is False:
            Z = d.copy()
            Z["ctrl"][:] = 0
            Z.step(1)
        L.clear_messages()
        PRE = d.copy()
        try:
            d.step(1)
        except drv.MjError as e:
            P.count("step_engine_error_autoreset_%s" % ("on" if autoreset else "off"))
            if autoreset and not (target in ("act",)):
                # with autoreset enabled a bad state never reaches the pipeline; an error here is unexpected but not a
                # statement violation unless it stems from non-finite state: record as inconclusive evidence
                P.count("step_engine_error:" + str(e)[:60])
            P.case(nontrivial=False)
            return
        after = _counts(d)
        key = "%s:%s|%s|ar=%d|%s" % (target, cname, vname, autoreset, c["integrator"])
        triggered = "pos" if pos_bad else ("vel" if vel_bad else ("acc" if acc_bad else None))
        if sleepmode:
            key = "sleep:%s|%s" % (key, meta["pattern"])
            pcl = cname.split("_lim")[0].split("_unlim")[0]
            P.count("sleep_judged:%s:%s" % (pcl, target))
            P.count("sleep_expect_%s:%s:autoreset_%s" % (triggered or ("ctrl" if ctrl_bad else "benign"), pcl, "on" if autoreset else "off"))
            if vel_bad_asleep and not (pos_bad or vel_bad):
                # bad qvel in a sleeping tree (see ASSUMPTIONS): which counter reports it is not documented
                got = "BADQVEL" if after["mjWARN_BADQVEL"] > (0 if autoreset else before["mjWARN_BADQVEL"]) else \
                    ("BADQACC" if after["mjWARN_BADQACC"] > (0 if autoreset else before["mjWARN_BADQACC"]) else "none")
                P.count("sleep_asleep_qvel_reported_as_%s:twin_qacc_%s" % (got, "bad" if acc_bad else "ok"))
                if autoreset and got == "BADQVEL":
                    triggered = "vel"
        P.count("expect_%s_autoreset_%s" % (triggered or ("ctrl" if ctrl_bad else "benign"), "on" if autoreset else "off"))
        if acc_bad is None and not (pos_bad or vel_bad):
            P.count("skipped_twin_forward_failed")
            P.case(nontrivial=False)
            return
        P.case(key, nontrivial=True, sample={"target": target, "class": cname, "value": vname, "autoreset": autoreset,
                                            "integrator": c["integrator"], "expected": triggered or ("ctrl" if ctrl_bad else "none")})
        wit["before"], wit["after"] = before, after
        wit["expected"] = {"pos_bad": pos_bad, "vel_bad": vel_bad, "acc_bad": acc_bad, "ctrl_bad": ctrl_bad}

        def viol(sig, **kw):
            P.violation(sig, dict(wit, **kw))

        if autoreset:
            bad = [] if (target == "act" and triggered is None) else _finite_state(d)
            if bad and sleepmode and vel_bad_asleep and triggered is None:
                ok, ev = asleep_qvel_passes_checkvel(L, m, PRE)
                if ok:
                    P.count("sleep_asleep_qvel_nonfinite_confirmed_as_checkVel_before_wake")
                    viol(SLEEP_QVEL_SIG, nonfinite=bad, mechanism_evidence=ev)
                    bad = []
            if bad:
                report_unchecked(P, L, m, PRE, bad, "injected-%s" % target, wit, restore)
            names = {"pos": "mjWARN_BADQPOS", "vel": "mjWARN_BADQVEL", "acc": "mjWARN_BADQACC"}
            if triggered:
                wn = names[triggered]
                if after[wn] < 1:
                    viol("autoreset-on:%s-counter-not-raised:injected-%s" % (wn[7:], target))
                for other in ("pos", "vel", "acc"):
                    if other != triggered and after[names[other]] != 0:
                        viol("autoreset-on:spurious-%s-after-%s-reset" % (names[other][7:], names[triggered][7:]))
                got = d.get_state(E.mjSTATE_INTEGRATION)
                fd = _state_diff(L, m, got, want_reset, E.mjSTATE_INTEGRATION)
                if fd:
                    viol("autoreset-on:state-after-%s-reset-differs-from-resetData+step:%s" % (names[triggered][7:], fd["component"]),
                         diff=fd)
                if sleepmode:
                    if d["tree_asleep"].tobytes() != R["tree_asleep"].tobytes():
                        viol("autoreset-on:sleep-state-after-%s-reset-differs-from-resetData+step" % names[triggered][7:],
                             got=[int(x) for x in d["tree_asleep"]], want=[int(x) for x in R["tree_asleep"]])
                    P.count("sleep_reset_path_checked_%s:%s" % (triggered, pcl))
                P.count("reset_path_checked_" + triggered)
            else:
                for o in ("pos", "vel", "acc"):
                    if after[names[o]] != before[names[o]]:
                        viol("autoreset-on:spurious-%s:injected-%s" % (names[o][7:], target))
                if abs(d.s("time") - (t0 + dt)) > 1e-12 * max(1.0, abs(t0)):
                    viol("autoreset-on:time-not-advanced-without-bad-value", time=d.s("time"), t0=t0)
                if ctrl_bad:
                    if after["mjWARN_BADCTRL"] <= before["mjWARN_BADCTRL"]:
                        viol("badctrl:counter-not-raised")
                    if Z is not None:
                        fd = _state_diff(L, m, d.get_state(E.mjSTATE_PHYSICS), Z.get_state(E.mjSTATE_PHYSICS), E.mjSTATE_PHYSICS)
                        if fd:
                            ok, ev = badctrl_difference_is_raw_ctrl_in_qderiv(L, m, PRE)
                            if ok:
                                P.count("badctrl_difference_confirmed_as_raw_ctrl_in_qDeriv")
                                viol("implicit:qDeriv-uses-raw-ctrl:badctrl-step-differs-from-zero-control-twin", diff=fd, mechanism_evidence=ev)
                            else:
                                viol("badctrl:state-differs-from-zero-control-twin:%s" % fd["component"], diff=fd, mechanism_evidence=ev)
                        P.count("badctrl_path_checked")
                elif after["mjWARN_BADCTRL"] != before["mjWARN_BADCTRL"]:
                    viol("badctrl:spurious-warning:injected-%s" % target)
        else:
            exp = {"mjWARN_BADQPOS": pos_bad, "mjWARN_BADQVEL": vel_bad, "mjWARN_BADQACC": acc_bad, "mjWARN_BADCTRL": ctrl_bad}
            if vel_bad_asleep and not vel_bad:
                del exp["mjWARN_BADQVEL"]
            for wn, e in exp.items():
                inc = after[wn] - before[wn]
                if e and inc < 1:
                    viol("autoreset-off:%s-counter-not-raised:injected-%s" % (wn[7:], target))
                if not e and inc != 0:
                    viol("autoreset-off:spurious-%s:injected-%s" % (wn[7:], target))
            t1 = d.s("time")
            if np.isfinite(t0) and t0 > 0 and not (t1 == t0 + dt or abs(t1 - (t0 + dt)) <= 1e-12 * t0):
                viol("autoreset-off:data-was-reset-or-time-not-advanced", time=t1, t0=t0)
            if pos_bad or vel_bad or acc_bad:
                P.count("no_reset_path_checked")
    finally:
        m.opt["disableflags"] = dis0
        for x in (d, T, R, Z, PRE):
            if x is not None:
                x.free()


def organic(L, m, rng, P, c):
    """stiff model, huge timestep: per-step monitors while it blows up on its own."""
    autoreset = bool(c.get("autoreset", True))
    dis0 = int(m.opt["disableflags"])
    m.opt["disableflags"] = (dis0 & ~E.mjDSBL_AUTORESET) | (0 if autoreset else E.mjDSBL_AUTORESET)
    d = m.make_data()
    wit = {"case": {kk: v for kk, v in c.items() if not kk.startswith("_")}, "xml": c.get("_xml"), "autoreset": autoreset}
    dt = float(m.opt["timestep"])
    try:
        common.random_state(rng, m, d, vel_scale=float(c.get("vel", 5.0)))
        common.random_controls(rng, m, d, scale=5.0)
        nreset = 0
        names = ["mjWARN_BADQPOS", "mjWARN_BADQVEL", "mjWARN_BADQACC"]
        for s in range(c.get("nstep", 40)):
            before = _counts(d)
            pos_bad = bool(refbad(d["qpos"]).any())
            vel_bad = bool(refbad(d["qvel"]).any())
            t0 = d.s("time")
            PRE = d.copy()
            try:
                d.step(1)
            except drv.MjError:
                P.count("organic_engine_error")
                PRE.free()
                break
            after = _counts(d)
            w = dict(wit, step=s, before=before, after=after)
            if not (autoreset and _finite_state(d)):
                PRE.free()
            if autoreset:
                bad = _finite_state(d)
                if bad:
                    try:
                        report_unchecked(P, L, m, PRE, bad, "organic", w, prefix="organic:autoreset-on")
                    finally:
                        PRE.free()
                    break
                was_reset = (s > 0 and t0 > 0 and d.s("time") == dt) or (pos_bad or vel_bad)
                if pos_bad and after["mjWARN_BADQPOS"] < 1:
                    P.violation("organic:autoreset-on:BADQPOS-counter-not-raised", w)
                if (not pos_bad) and vel_bad and after["mjWARN_BADQVEL"] < 1:
                    P.violation("organic:autoreset-on:BADQVEL-counter-not-raised", w)
                if was_reset:
                    nreset += 1
                    if sum(after[n] for n in names) < 1:
                        P.violation("organic:autoreset-on:reset-without-any-bad-value-counter", w)
            else:
                if pos_bad and after["mjWARN_BADQPOS"] <= before["mjWARN_BADQPOS"]:
                    P.violation("organic:autoreset-off:BADQPOS-counter-not-raised", w)
                if vel_bad and after["mjWARN_BADQVEL"] <= before["mjWARN_BADQVEL"]:
                    P.violation("organic:autoreset-off:BADQVEL-counter-not-raised", w)
                if not pos_bad and after["mjWARN_BADQPOS"] != before["mjWARN_BADQPOS"]:
                    P.violation("organic:autoreset-off:spurious-BADQPOS", w)
                if not vel_bad and after["mjWARN_BADQVEL"] != before["mjWARN_BADQVEL"]:
                    P.violation("organic:autoreset-off:spurious-BADQVEL", w)
                if pos_bad or vel_bad:
                    nreset += 1
        P.count("organic_runs")
        P.count("organic_blowups_autoreset_%s" % ("on" if autoreset else "off"), nreset)
        P.case("organic|%s|ar=%d|blew=%d" % (c["integrator"], autoreset, nreset > 0), nontrivial=nreset > 0,
               sample={"organic": True, "timestep": dt, "integrator": c["integrator"], "autoreset": autoreset, "blowups": nreset})
    finally:
        m.opt["disableflags"] = dis0
        d.free()


def worker(c):
    P = core.Part()
    L = drv.Lib(c.get("flavour", "rel"))
    xml = _gen(c)
    c["_xml"] = xml
    try:
        m = L.load_xml_string(xml)
    except drv.MjError:
        P.count("model_rejected")
        return P.result()
    if c.get("sleep"):
        if not int(m.opt["enableflags"]) & E.mjENBL_SLEEP:
            raise RuntimeError("sleep class model without mjENBL_SLEEP")
        P.count("sleep_models")
    else:
        m.opt["enableflags"] = int(m.opt["enableflags"]) & ~E.mjENBL_SLEEP
    m.opt["integrator"] = getattr(E, c["integrator"])
    rng = np.random.default_rng(c["seed"])
    P.count("models@" + c.get("flavour", "rel"))
    if c.get("organic"):
        organic(L, m, rng, P, c)
    else:
        only = c.get("only")
        for k in range(c.get("k0", 0), c["ninj"]):
            sub = np.random.default_rng([c["seed"], k])
            if only is not None and k != only:
                continue
            inject_once(L, m, sub, P, c, k)
    m.free()
    return P.result()


def cases(ctx, n, ninj, flavour, tag):
    rng = ctx.subrng("cases", tag)
    cs = []
    for i in range(n):
        cs.append({"profile": ["rich", "contact", "smooth", "rich"][i % 4], "mseed": int(rng.integers(0, 2 ** 31)),
                   "seed": int(rng.integers(0, 2 ** 31)), "integrator": INTEGRATORS[(i // 4) % 4], "ninj": ninj, "flavour": flavour})
    return cs


def sleep_cases(ctx, n, ninj, flavour, tag):
    rng = ctx.subrng("sleep", tag)
    return [{"sleep": True, "profile": "sleep", "mseed": int(rng.integers(0, 2 ** 31)), "seed": int(rng.integers(0, 2 ** 31)),
             "integrator": INTEGRATORS[i % 4], "ninj": ninj, "flavour": flavour} for i in range(n)]


def organic_cases(ctx, n):
    rng = ctx.subrng("organic")
    cs = []
    for i in range(n):
        cs.append({"profile": ["contact", "rich"][i % 2], "mseed": int(rng.integers(0, 2 ** 31)), "seed": int(rng.integers(0, 2 ** 31)),
                   "integrator": INTEGRATORS[(i // 2) % 4], "organic": True, "timestep": float(rng.choice([0.2, 1.0, 5.0])),
                   "autoreset": i % 3 != 2, "vel": float(rng.choice([5.0, 50.0, 1e4])), "nstep": 40, "flavour": "rel"})
    return cs


def _asan_site(text, flavour):
    """(kind, function) of a sanitizer SUMMARY line; the offset is symbolised after the fact (symbolize=0 in the child)."""
    mm = re.search(r"SUMMARY: (?:AddressSanitizer|UndefinedBehaviorSanitizer): (\S+) \((\S+?)\+(0x[0-9a-f]+)\)", text)
    if not mm:
        ub = re.search(r"(\S+?):(\d+):\d+: runtime error: (.*)", text)
        if not ub:
            return None
        path, line, msg = ub.group(1), int(ub.group(2)), ub.group(3)
        kind = "float-cast-overflow" if "outside the range of representable values" in msg else \
            re.sub(r"[^a-z]+", "-", msg.lower())[:40].strip("-")
        fn = "?"
        try:
            src = open(path).read().split("\n")
            for k in range(min(line, len(src)) - 1, -1, -1):
                h = re.match(r"^[A-Za-z_][\w\s\*]*?\b(\w+)\s*\([^;]*$", src[k])
                if h and not src[k].startswith((" ", "\t")):
                    fn = h.group(1)
                    break
        except OSError:
            pass
        return "ubsan-" + kind, fn
    kind, lib, off = mm.groups()
    fn = "?"
    try:
        out = subprocess.run(["llvm-symbolizer-14", "-e", lib, off], capture_output=True, text=True, timeout=120).stdout
        fn = out.strip().splitlines()[0].strip() or "?"
    except Exception:
        pass
    return kind, fn


def _collect(ctx, cs, res):
    for c, r in zip(cs, res):
        if r is None:
            ctx.inconclusive("worker returned nothing")
        elif "crash" in r and c.get("flavour") == "asan" and _asan_site(r["crash"], "asan") == ("ubsan-float-cast-overflow", "mju_round"):
            # mju_round(NaN) casts NaN to int (engine_util_misc.c; findings/C30-mju_round-nan-cast.md). Real but inconsequential UB and no
            # clause of the C30 statement covers it (audit B2, lead decision): counted, NOT part of the verdict. The UBSan abort loses the
            # rest of this slice (at most five injections), which is counted as well.
            ctx.count("ubsan_float_cast_in_mju_round_outside_verdict")
            ctx.count("asan_slices_cut_short_by_tolerated_ubsan_report")
            ctx.extra["note_ubsan_mju_round"] = ("UBSan float-cast-overflow reports in mju_round (NaN cast to int while the pipeline runs on a "
                                                 "non-finite state) are counted in ubsan_float_cast_in_mju_round_outside_verdict and are not "
                                                 "violations of C30: the statement has no undefined-behaviour clause; see "
                                                 "findings/C30-mju_round-nan-cast.md")
        elif "crash" in r and c.get("flavour") == "asan" and _asan_site(r["crash"], "asan"):
            kind, fn = _asan_site(r["crash"], "asan")
            ctx.count("asan_reports")
            ctx.violation("asan:%s:%s" % (kind, fn), {"case": c, "report_tail": r["crash"][-1500:],
                                                     "note": "memory error while stepping an injected state; replay runs the case under ASan"})
        elif "crash" in r:
            ctx.count("worker_crash")
            ctx.inconclusive("worker crashed/timed out (flavour %s): rc=%s %s" % (c.get("flavour"), r.get("rc"), r["crash"][-300:]))
        elif "exception" in r:
            ctx.count("harness_exception")
            ctx.inconclusive("harness exception in worker: " + r["exception"])
        else:
            ctx.merge(r)


def run(ctx):
    ref_selftest()
    build.ensure("rel")
    fast = int(os.environ.get("VERIF_FAST", "0"))      # mutant screening: first 1/fast of the same case list, no ASan part
    # the sleep class replaces a fifth of the general matrix of the quick tier (its models are small: the tier gets cheaper, not dearer)
    cs = cases(ctx, ctx.pick(96, 800), 40, "rel", "rel")
    sc = sleep_cases(ctx, ctx.pick(32, 160), 40, "rel", "rel")
    oc = organic_cases(ctx, ctx.pick(48, 300))
    if fast:
        cs, sc, oc = cs[:len(cs) // fast], sc[:len(sc) // fast], oc[:len(oc) // fast]
    cs = cs + sc + oc
    _collect(ctx, cs, par.run("vf.props.c30", "worker", cs, nproc=16, timeout=ctx.pick(300, 900)))
    if fast:
        ctx.min_nontrivial = 1
        return
    build.ensure("asan")
    acs = []
    for c in cases(ctx, ctx.pick(6, 40), 25, "asan", "asan") + sleep_cases(ctx, ctx.pick(2, 8), 25, "asan", "asan"):
        # small slices: a sanitizer abort loses at most five injections
        acs += [dict(c, k0=k0, ninj=k0 + 5) for k0 in range(0, 25, 5)]
    _collect(ctx, acs, par.run("vf.props.c30", "worker", acs, nproc=16, timeout=ctx.pick(1500, 2400), asan=True))
    if not ctx.counters.get("models@asan"):
        ctx.inconclusive("no ASan cases ran")
    n = max(1, ctx.evaluations)
    sk = sum(v for k, v in ctx.counters.items() if k.startswith("skipped_") or k.startswith("step_engine_error_autoreset"))
    if sk > 0.25 * n:
        ctx.inconclusive("too many injections skipped (%d of %d)" % (sk, n))
    for need in ("reset_path_checked_pos", "reset_path_checked_vel", "reset_path_checked_acc", "badctrl_path_checked",
                 "no_reset_path_checked", "sleep_reset_path_checked_acc:awake_hi", "sleep_reset_path_checked_vel:awake_hi",
                 "sleep_reset_path_checked_pos:asleep_lo"):
        if not ctx.counters.get(need):
            ctx.inconclusive("path never exercised: " + need)
    for pcl in SPOS:
        for tg in STARGETS:
            if not ctx.counters.get("sleep_judged:%s:%s" % (pcl, tg)):
                ctx.inconclusive("sleep class never judged: %s in %s" % (pcl, tg))
    for pat in SLEEP_PATTERNS:
        if not ctx.counters.get("sleep_pattern:" + pat):
            ctx.inconclusive("sleep order never generated: " + pat)
    ctx.min_nontrivial = ctx.pick(800, 2500)


def replay(ctx, path):
    rec = json.load(open(path))
    det = rec["detail"]
    c = dict(det["case"])
    if "injection" in det:
        c["only"] = det["injection"]
    asan = c.get("flavour") == "asan"
    res = par.run("vf.props.c30", "worker", [c], nproc=1, timeout=600, asan=asan)
    _collect(ctx, [c], res)
    ctx.min_nontrivial = 0
