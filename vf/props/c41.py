"""C41 The MJCF schema-language parser is total and its checks sound.

Contracts (icontract, applied from the harness; nothing in /repo is edited) around doc/generate/mjcf_schema.py:

  parse_string : ensure  returned_schema_satisfies_documented_rules   (independent re-validator, vf/ref/mjcfschema.py)
                 ensure  returned_tables_hold_every_declaration        (independent brace counter on the text)
  attempt      : require text_is_str
                 ensure  outcome_is_schema_or_schema_error             (no other exception type escapes)
                 ensure  schema_error_line_within_text                 (1 <= line <= number of '\n' + 1)

Workload: grammar-derived valid schemas (must be accepted *and* parsed back to the source model), one rule-breaking
mutation per documented rule (must be rejected), token-level mutations, random token streams, raw unicode/control
text (hypothesis), deep nesting, the real src/xml/mjcf.schema and mutations of it, and the repository's own
mjcf_schema_test run with the contracts enabled.
"""
import importlib.util
import json
import os
import re
import sys
import time
import traceback
import unittest

import numpy as np

from .. import build, core, par
from ..ref import mjcfschema as R

LEVEL = "exploration"
RULE = ("texts = (a) valid schemas drawn from the documented grammar (<= 40 declarations; all types, arity forms, default "
        "spellings, facets, constraints, nested use, recursion, free declaration order), (b) the same with exactly one "
        "documented rule broken by a dedicated mutator (label = rule), (c) token-level delete/duplicate/swap/replace "
        "mutations, (d) random token streams and raw unicode/control text from hypothesis, (e) deep nesting (use chains, "
        "diamond ladders, bracket towers), (f) the real mjcf.schema and line/token mutations of it. distinct = "
        "(category, rule label or outcome class); non-trivial = text reaches the parser and has >= 1 token")
ASSUMPTIONS = [
    "rules asserted are those stated in the mjcf_schema.py docstring, the syntax reference heading src/xml/mjcf.schema "
    "and the error cases pinned by test/doc/mjcf_schema_test.py; anything else (empty groups, flags defaults, "
    "group-level 'requires' shape, duplicate attributes inside a group no element expands) is not asserted",
    "a SchemaError line is 'within the text' when 1 <= line <= count('\\n') + 1 (the lexer's own line unit; the EOF "
    "token sits on the last line)",
    "python's default recursion limit (1000) is the environment the generators run in; RecursionError counts as an "
    "escaping exception",
    "the statement enumerates the rules an accepted schema must satisfy (unique declarations, dangling/cyclic "
    "references, duplicate attributes after expansion, arities, defaults vs type/arity); the payload of a min=/max= "
    "facet is not among them, so an accepted bare (min)/(max) facet is only COUNTED "
    "(out_of_scope:accepted-schema-breaks-rule:min-max-facet-without-numeric-value), never a violation",
]

# rules of the reference validator that no clause of the C41 statement covers: counted, never reported
OUT_OF_STATEMENT_RULES = ("min-max-facet-without-numeric-value",)

_STATE = {}


class TotalityBreach(Exception):
    pass


class LineBreach(Exception):
    pass


class SoundnessBreach(Exception):
    pass


class DeclarationLoss(Exception):
    pass


def load():
    """Import the repo's mjcf_schema by path and wrap it with contracts (once per process)."""
    if _STATE:
        return _STATE
    from .. import setup_env
    setup_env.ensure_deps()
    import icontract
    gen_dir = str(build.REPO / "doc" / "generate")
    if gen_dir not in sys.path:
        sys.path.insert(0, gen_dir)
    for k in [k for k in sys.modules if k == "mjcf_schema"]:
        del sys.modules[k]
    import mjcf_schema as M
    assert os.path.realpath(M.__file__).startswith(str(build.REPO)), M.__file__
    counts = {"post_rules": 0, "post_decls": 0, "pre_text": 0, "post_outcome": 0, "post_line": 0}
    last = {"broken": None}

    # ---- named condition functions ---------------------------------------------------------------
    def returned_schema_satisfies_documented_rules(result):
        counts["post_rules"] += 1
        broken = R.revalidate(result) or []
        last["oos"] = [b for b in broken if b[0] in OUT_OF_STATEMENT_RULES]
        last["broken"] = [b for b in broken if b[0] not in OUT_OF_STATEMENT_RULES]
        return not last["broken"]

    def returned_tables_hold_every_declaration(text, result):
        counts["post_decls"] += 1
        n = R.count_top_level_decls(text)
        last["ndecl"] = (n, len(result.enums) + len(result.groups) + len(result.elements))
        return n is not None and n == last["ndecl"][1]

    def text_is_str(text):
        counts["pre_text"] += 1
        return isinstance(text, str)

    def outcome_is_schema_or_schema_error(result):
        counts["post_outcome"] += 1
        return result["kind"] in ("schema", "schema_error", "contract")

    def schema_error_line_within_text(text, result):
        counts["post_line"] += 1
        if result["kind"] != "schema_error":
            return True
        line = result["line"]
        return isinstance(line, int) and not isinstance(line, bool) and 1 <= line <= text.count("\n") + 1

    raw_parse = M.parse_string
    checked = icontract.ensure(returned_schema_satisfies_documented_rules, error=SoundnessBreach)(
        icontract.ensure(returned_tables_hold_every_declaration, error=DeclarationLoss)(raw_parse))
    M.parse_string = checked            # parse_file and the repo tests go through the contracts too

    @icontract.require(text_is_str, error=TypeError)
    @icontract.ensure(schema_error_line_within_text, error=LineBreach)
    @icontract.ensure(outcome_is_schema_or_schema_error, error=TotalityBreach)
    def attempt(text):
        t0 = time.perf_counter()
        last["oos"] = None
        try:
            schema = checked(text)
            out = {"kind": "schema", "schema": schema}
        except M.SchemaError as e:
            out = {"kind": "schema_error", "line": e.line, "message": e.message}
        except (SoundnessBreach, DeclarationLoss) as e:
            out = {"kind": "contract", "which": type(e).__name__, "broken": last.get("broken"), "ndecl": last.get("ndecl")}
        except BaseException as e:  # noqa: BLE001 - the property is about *any* escaping exception
            if isinstance(e, (KeyboardInterrupt, SystemExit)):
                raise
            out = {"kind": "other:" + type(e).__name__, "trace": traceback.format_exc()[-1500:]}
        out["dt"] = time.perf_counter() - t0
        out["oos"] = last.get("oos") if out["kind"] in ("schema", "contract") else None
        return out

    _STATE.update(M=M, attempt=attempt, counts=counts, checked=checked, raw=raw_parse)
    return _STATE


# --------------------------------------------------------------------------------------------------- judging

KNOWN_RULE_GAPS = ("int-default-not-integral",)


def judge(P, text, cat, expect=None, label=None, model=None, line_of=None):
    """Run one text through the contracts; expect in (None, 'accept', 'reject')."""
    S = load()
    detail = {"text": text if len(text) < 300000 else None, "text_len": len(text), "category": cat, "expect": expect,
              "label": label}
    if len(text) >= 300000:
        detail["regen"] = label
    try:
        out = S["attempt"](text)
    except TotalityBreach:
        out = None
        kind = "total"
    except LineBreach:
        out = None
        kind = "line"
    if out is None:
        # re-run without the outer contracts to describe the breach
        try:
            S["raw"](text)
            desc = "returned"
        except S["M"].SchemaError as e:
            desc = "SchemaError line=%r nlines=%d" % (e.line, text.count("\n") + 1)
        except BaseException as e:  # noqa: BLE001
            desc = type(e).__name__
            if kind == "total":
                where = "unknown"
                tb = traceback.extract_tb(sys.exc_info()[2])
                for fr in reversed(tb):
                    if fr.filename.endswith("mjcf_schema.py"):
                        where = fr.name
                        break
                sig = "escaping-exception:%s:in-%s" % (desc, where)
                if desc == "RecursionError":
                    # the recorded finding is about use graphs deeper than the interpreter's recursion limit; a RecursionError on a
                    # small use graph is a different defect (e.g. a cycle that is never detected) and must not be absorbed by it
                    ngroups = len(re.findall(r"^\s*group\s+\w+", text, flags=re.M))
                    if ngroups < 250:
                        sig += ":use-graph-of-only-%s-groups" % ("<10" if ngroups < 10 else "<250")
                P.violation(sig, dict(detail, exception=desc))
                P.case("%s/escape-%s" % (cat, desc))
                return "escape"
        P.violation("schema-error-line-outside-text", dict(detail, observed=desc))
        P.case("%s/line" % cat)
        return "line"
    P.note_max("parse_seconds", out["dt"])
    for rule in sorted({b[0] for b in out.get("oos") or []}):
        P.count("out_of_scope:accepted-schema-breaks-rule:" + rule)
    if out["kind"] == "contract":
        if out["which"] == "DeclarationLoss":
            P.violation("accepted-with-declaration-lost-or-duplicated", dict(detail, ndecl=out["ndecl"]))
        else:
            for rule in sorted({r for r, _ in out["broken"]}):
                P.violation("accepted-schema-breaks-rule:" + rule, dict(detail, broken=[list(b) for b in out["broken"]][:8]))
        P.case("%s/accepted-unsound" % cat)
        if label and cat == "rule":
            P.case("rule/%s/accepted-unsound" % label)   # the mutator was applied (and the parser wrongly accepted it)
        return "unsound"
    accepted = out["kind"] == "schema"
    if expect == "reject" and accepted and label in OUT_OF_STATEMENT_RULES:
        P.count("out_of_scope:rule-breaking-mutation-accepted:" + label)
    elif expect == "reject" and accepted:
        P.violation("rule-breaking-mutation-accepted:" + label, detail)
    elif expect == "accept" and not accepted:
        P.violation("valid-schema-rejected", dict(detail, line=out["line"], message=out["message"]))
    elif expect == "accept" and model is not None:
        diffs = R.compare_parsed(model, line_of, out["schema"])
        if diffs:
            P.violation("parsed-schema-differs-from-source-text", dict(detail, diffs=diffs[:6]))
        P.count("model_comparisons")
    P.count("accepted" if accepted else "rejected")
    key = "%s/%s/%s" % (cat, label or "-", "acc" if accepted else "rej")
    P.case(key, nontrivial=bool(text.strip()), sample={"category": cat, "label": label, "accepted": accepted,
                                                       "text": text[:400]})
    return "acc" if accepted else "rej"


# --------------------------------------------------------------------------------------------------- categories

TOKENS = (["enum", "group", "element", "use", "child", "set", "variant", "exclusive", "together", "requires", "oneof",
           "double", "float", "int", "bool", "string", "file", "chars", "flags", "id", "ref", "required", "nodefault",
           "field", "pattern", "min", "max", "positive", "xml", "alias", "a", "b", "g", "e", "mujoco", "true", "false",
           "mjNREF", "R"] + list("{}()[]<>:=,?!*+") + ["..", "0", "1", "3", "-1", "2.5", ".5", "1e3", "1e", "\"s\"",
                                                      "\"\"", "\"", "\n", "\n", " ", "\t", "# c", "#", ".", "-", "$"])


def _token_mutation(rng, text):
    toks = R.lex(text)
    if not toks:
        return text
    idx = [i for i, t in enumerate(toks) if t[0] not in ("ws",)]
    vals = [t[1] for t in toks]
    for _ in range(int(rng.integers(1, 4))):
        op = int(rng.integers(5))
        i = idx[int(rng.integers(len(idx)))]
        if op == 0:
            vals[i] = ""
        elif op == 1:
            vals[i] = vals[i] + " " + vals[i]
        elif op == 2:
            j = idx[int(rng.integers(len(idx)))]
            vals[i], vals[j] = vals[j], vals[i]
        elif op == 3:
            vals[i] = TOKENS[int(rng.integers(len(TOKENS)))]
        else:
            vals[i] = vals[i] + TOKENS[int(rng.integers(len(TOKENS)))]
    return "".join(vals)


def _deep(rng, quick):
    """Deep nesting texts: (label, text, expect)."""
    c = int(rng.integers(6))
    if c == 0:      # long acyclic use chain
        n = int(rng.choice([5, 50, 200, 400, 1200] if quick else [5, 50, 200, 400, 800, 1500, 3000]))
        body = "".join("group g%d {\n  use g%d\n}\n" % (i, i + 1) for i in range(n)) + "group g%d {\n  a : int\n}\n" % n
        if rng.random() < 0.5:
            body = body + "element e {\n  use g0\n}\n"
        return "use-chain-%d" % n, body, "accept"
    if c == 1 and rng.random() < 0.5:
        return _tail_cycle(rng)
    if c == 1:      # long use cycle
        n = int(rng.choice([3, 30, 300] if quick else [3, 30, 300, 900, 2000]))
        body = "".join("group g%d {\n  use g%d\n}\n" % (i, (i + 1) % n) for i in range(n))
        return "use-cycle-%d" % n, body, "reject"
    return _deep_rest(rng, quick, c)


def _tail_cycle(rng):
    """a tail of groups leading INTO a small use cycle, in every declaration order: (label, text, 'reject')"""
    if True:
        k, mcy = int(rng.integers(1, 4)), int(rng.integers(1, 6))
        decl = ["group t%d {\n  use %s\n}\n" % (i, ("t%d" % (i + 1)) if i + 1 < k else "c0") for i in range(k)]
        decl += ["group c%d {\n  use c%d\n  b%d : int\n}\n" % (i, (i + 1) % mcy, i) for i in range(mcy)]
        order = int(rng.integers(0, 3))
        if order == 1:
            decl = decl[k:] + decl[:k]
        elif order == 2:
            decl = [decl[int(j)] for j in rng.permutation(len(decl))]
        if rng.random() < 0.3:
            decl.append("element e {\n  use t0\n}\n")
        return "tail-%d-into-cycle-%d-order%d" % (k, mcy, order), "".join(decl), "reject"


def _deep_rest(rng, quick, c):
    if c == 2:      # diamond ladder: each group spliced twice (valid as long as no element expands it)
        n = int(rng.integers(2, 13))
        body = "".join("group g%d {\n  use g%d\n  use g%d\n}\n" % (i, i + 1, i + 1) for i in range(n)) + \
               "group g%d {\n  a : int\n}\n" % n
        return "diamond-ladder", body, None
    if c == 3:      # bracket towers
        n = int(rng.choice([10, 1000, 5000]))
        o, cl = [("{", "}"), ("(", ")"), ("[", "]"), ("<", ">")][int(rng.integers(4))]
        return "bracket-tower", "element e " + o * n + cl * n, None
    if c == 4:      # recursive children chain
        n = int(rng.choice([10, 500, 2000]))
        body = "".join("element e%d {\n  child e%d R\n}\n" % (i, i + 1) for i in range(n)) + "element e%d {}\n" % n
        return "child-chain", body, "accept"
    n = int(rng.choice([100, 5000]))
    body = "element e {\n  a : double[0..%d] = {%s}\n}\n" % (n, ", ".join("1" for _ in range(n)))
    return "long-default", body, "accept"


def _real_schema_text():
    return (build.REPO / "src" / "xml" / "mjcf.schema").read_text(encoding="utf-8")


def worker(case):
    P = core.Part()
    S = load()
    cat, n = case["cat"], case["n"]
    rng = np.random.Generator(np.random.PCG64(core.stable_hash("C41", case["seed"], cat, case["chunk"])))
    quick = case["quick"]
    if cat == "valid":
        for _ in range(n):
            m = R.gen_model(rng)
            text, line_of = R.render(m, rng)
            judge(P, text, cat, "accept", None, m, line_of)
    elif cat == "rule":
        names = sorted(R.MUTATORS)
        i = 0
        tries = 0
        while i < n and tries < 20 * n:
            tries += 1
            m = R.gen_model(rng, max_decls=int(rng.integers(3, 41)))
            label = names[(i + case["chunk"]) % len(names)]
            mm = R.MUTATORS[label](m, rng)
            if mm is None:
                P.count("mutator_no_site")
                continue
            text, _ = R.render(mm, rng)
            judge(P, text, cat, "reject", label)
            i += 1
    elif cat == "token":
        for _ in range(n):
            m = R.gen_model(rng, max_decls=int(rng.integers(1, 12)))
            text, _ = R.render(m, rng)
            judge(P, _token_mutation(rng, text), cat)
    elif cat == "cycle":
        for _ in range(n):
            label, text, expect = _tail_cycle(rng)
            judge(P, text, cat, "reject", "use-cycle")
    elif cat == "deep":
        for _ in range(n):
            label, text, expect = _deep(rng, quick)
            if expect == "reject":
                judge(P, text, cat, "reject", "use-cycle")
            else:
                judge(P, text, cat, expect, label)
    elif cat == "real":
        real = _real_schema_text()
        if case["chunk"] == 0:
            r = judge(P, real, cat, "accept", "mjcf.schema")
            P.count("real_schema_accepted", int(r == "acc"))
        lines = real.split("\n")
        for _ in range(n):
            c = int(rng.integers(4))
            ls = list(lines)
            if c == 0:
                del ls[int(rng.integers(len(ls)))]
            elif c == 1:
                i = int(rng.integers(len(ls)))
                ls.insert(i, ls[int(rng.integers(len(ls)))])
            elif c == 2:
                i, j = int(rng.integers(len(ls))), int(rng.integers(len(ls)))
                ls[i], ls[j] = ls[j], ls[i]
            else:
                i = int(rng.integers(len(ls)))
                ls[i] = _token_mutation(rng, ls[i])
            judge(P, "\n".join(ls), cat, None, "mutated-real")
    elif cat == "hyp-tokens" or cat == "hyp-unicode":
        import hypothesis
        from hypothesis import strategies as st
        if cat == "hyp-tokens":
            strat = st.lists(st.sampled_from(TOKENS), max_size=60).map(" ".join)
        else:
            strat = st.one_of(st.text(max_size=80),
                              st.text(alphabet=st.characters(min_codepoint=0, max_codepoint=0x2FF), max_size=120),
                              st.binary(max_size=80).map(lambda b: b.decode("latin-1")),
                              st.tuples(st.sampled_from(["element e {\n  a : ", "enum e {\n  ", "group g {\n a : int = "]),
                                        st.text(max_size=30)).map("".join))

        @hypothesis.seed(core.stable_hash("C41h", case["seed"], cat, case["chunk"]) % (2 ** 32))
        @hypothesis.settings(max_examples=n, database=None, deadline=None, derandomize=False,
                             suppress_health_check=list(hypothesis.HealthCheck), phases=[hypothesis.Phase.generate])
        @hypothesis.given(strat)
        def prop(text):
            judge(P, text, cat)

        prop()
    for k, v in S["counts"].items():
        P.count("contract_evals:" + k, v)
        S["counts"][k] = 0
    return P.result()


def _repo_tests(ctx):
    """Run test/doc/mjcf_schema_test.py with the contracts installed on mjcf_schema.parse_string."""
    S = load()
    path = build.REPO / "test" / "doc" / "mjcf_schema_test.py"
    spec = importlib.util.spec_from_file_location("c41_repo_mjcf_schema_test", str(path))
    mod = importlib.util.module_from_spec(spec)
    spec.loader.exec_module(mod)
    assert mod.mjcf_schema is S["M"]
    before = dict(S["counts"])
    suite = unittest.defaultTestLoader.loadTestsFromModule(mod)
    res = unittest.TestResult()
    suite.run(res)
    ctx.count("repo_tests_run", res.testsRun)
    ctx.count("repo_tests_contract_evals", S["counts"]["post_rules"] - before["post_rules"])
    for test, tb in res.errors + res.failures:
        name = test.id().split(".")[-1]
        exc = "contract" if ("SoundnessBreach" in tb or "DeclarationLoss" in tb) else "failure"
        ctx.violation("repo-test-under-contracts:%s:%s" % (exc, name), {"test": test.id(), "trace": tb[-1500:]})
    if res.testsRun < 40:
        ctx.inconclusive("only %d repo tests ran" % res.testsRun)
    for k in S["counts"]:
        S["counts"][k] = 0


def run(ctx):
    total = ctx.pick(5000, 200000)
    mix = {"valid": 0.22, "rule": 0.30, "token": 0.22, "deep": 0.004 if not ctx.quick else 0.008, "cycle": 0.03, "real": 0.04,
           "hyp-tokens": 0.12, "hyp-unicode": 0.096}
    cases = []
    for cat, frac in mix.items():
        n = max(1, int(total * frac))
        if cat == "real":
            n = ctx.pick(120, 500)
        per = {"real": 15, "deep": 4}.get(cat, 125 if ctx.quick else 500)
        chunk = 0
        while n > 0:
            k = min(per, n)
            cases.append({"cat": cat, "n": k, "seed": ctx.seed, "chunk": chunk, "quick": ctx.quick})
            n -= k
            chunk += 1
    res = par.run("vf.props.c41", "worker", cases, nproc=16, timeout=ctx.pick(240, 900), chunk=1)
    for c, r in zip(cases, res):
        if r is None or "crash" in r or "exception" in r:
            ctx.count("worker_failures")
            if r and r.get("rc") == "timeout":
                ctx.violation("parser-did-not-terminate-within-budget", {"case": c})
            else:
                ctx.inconclusive("worker failed on %s: %s" % (c, str(r)[-600:]))
            continue
        ctx.merge(r)
    _repo_tests(ctx)
    evals = {k: v for k, v in ctx.counters.items() if k.startswith("contract_evals:")}
    for k in ("post_rules", "post_decls", "pre_text", "post_outcome", "post_line"):
        if not evals.get("contract_evals:" + k):
            ctx.inconclusive("contract %s was never evaluated" % k)
    labels = {k.split("/")[1] for k in ctx.distinct if k.startswith("rule/")}
    ctx.extra["rule_labels_exercised"] = sorted(labels)
    missing = sorted(set(R.MUTATORS) - labels)
    if missing:
        ctx.inconclusive("rule mutators never applied: %s" % missing)
    if not ctx.counters.get("real_schema_accepted"):
        ctx.inconclusive("the real mjcf.schema was not accepted / not exercised")
    ctx.min_nontrivial = 60


def replay(ctx, path):
    rec = json.load(open(path))
    d = rec["detail"]
    P = core.Part()
    if d.get("test"):
        _repo_tests(ctx)
    elif d.get("text") is not None:
        judge(P, d["text"], d.get("category", "replay"), d.get("expect"), d.get("label"))
    elif d.get("case"):
        ctx.merge(worker(d["case"]))
    else:
        ctx.inconclusive("replay record holds no text (text_len=%s); rerun the tier" % d.get("text_len"))
    ctx.merge(P.result())
    ctx.min_nontrivial = 1
