"""C16 Ray casting returns the nearest intersection."""
import json
import math

import numpy as np

from .. import build, core, drv, par
from ..gen.model import f
from ..ref import ray as R

LEVEL = "exploration"
RULE = ("reference-model oracle: generated scenes of 1-60 primitive geoms (planes finite/infinite, spheres, capsules, ellipsoids, "
        "cylinders, boxes on world / static / mocap / jointed multi-geom bodies, random geom groups, invisible rgba / material) x rays "
        "(random, aimed at geoms, from inside, from a surface point, silhouette-tangent, through box vertices / cylinder rims / capsule "
        "seams with offsets 1e-12..1e-3, parallel to faces) x filter settings (geomgroup mask, flg_static, bodyexclude); mj_ray distance "
        "and geom id are compared with min over the filtered geoms of the closed-form ray/shape distance (vf/ref/ray.py), mj_multiRay "
        "(unbounded and finite cutoff) with mj_ray per ray, mju_rayGeom with the closed form per primitive. distinct = (scene, origin, "
        "ray family, filter setting); non-trivial = at least one filtered geom is hit or a filtered geom is missed by < 2 radii")
ASSUMPTIONS = [
    "degenerate rays: when the closed-form answers for the ray displaced / tilted by 1e-9 (relative) differ, every answer between them, "
    "including a miss, is accepted (design: 'hits within 1e-9 of tangency may be hit or miss'); equal-distance ties accept either geom id",
    "planes: a ray travelling towards the back face may or may not be reported (documentation is silent: geom/type plane only says planes "
    "seen from the back are rendered semi-transparent); a plane with positive size entries is the finite rendered rectangle "
    "(changelog: mj_ray fixed 'in line with geom visualisation conventions')",
    "invisible geoms = alpha 0 in the geom rgba, or in the material rgba when a material is assigned (doc sensor/rangefinder); scenes "
    "never give a geom both a material and an own alpha-0 rgba",
    "static geoms = geoms of bodies welded to the world; mocap bodies are not static (doc computation/Collision detection: 'Mocap bodies "
    "and their dof-less descendants form their own weld group, distinct from the world weld')",
    "mj_multiRay with a finite cutoff: 'Geoms further than cutoff are ignored' - a geom whose bounding sphere lies entirely within the "
    "cutoff, or whose intersection point with the ray is within the cutoff, is not 'further than cutoff' under any reading and must be "
    "seen; other geoms may or may not be",
    "meshes need convex hulls (qhull absent), libccd absent: primitives only; heightfields are not covered",
]

TYPES = {"plane": 0, "sphere": 2, "capsule": 3, "ellipsoid": 4, "cylinder": 5, "box": 6}
PRIMS = ["sphere", "capsule", "ellipsoid", "cylinder", "box"]
TOL = 1e-9
OFFS = [1e-12, 1e-9, 1e-7, 1e-5, 1e-3]


# ---- scenes --------------------------------------------------------------------------------------------------------
def _size(rng, t, big=1.0):
    r = float(np.exp(rng.uniform(np.log(0.03), np.log(0.5)))) * big
    asp = float(np.exp(rng.uniform(np.log(0.2), np.log(8.0))))
    if t == "sphere":
        return [r]
    if t in ("capsule", "cylinder"):
        return [r, r * asp]
    return [r, r * float(np.exp(rng.uniform(-1.5, 1.5))), r * asp]


def _geom(rng, t=None, spread=1.5, plane_ok=False):
    if t is None:
        t = PRIMS[int(rng.integers(0, len(PRIMS)))]
    a = ['type="%s"' % t]
    if t == "plane":
        k = rng.random()
        sz = [0, 0, 0.1] if k < 0.4 else ([float(rng.uniform(0.3, 2)), float(rng.uniform(0.3, 2)), 0.1] if k < 0.8 else [float(rng.uniform(0.3, 2)), 0, 0.1])
        a.append('size="%s"' % f(sz))
    else:
        a.append('size="%s"' % f(_size(rng, t)))
    a.append('pos="%s"' % f(rng.normal(size=3) * spread))
    q = rng.normal(size=4)
    if rng.random() < 0.15:
        q = np.array([1.0, 0, 0, 0]) if rng.random() < 0.5 else np.array([math.sqrt(0.5), 0, math.sqrt(0.5), 0])
    a.append('quat="%s"' % f(q / np.linalg.norm(q)))
    a.append('group="%d"' % int(rng.integers(0, 6)))
    k = rng.random()
    if k < 0.10:
        a.append('rgba="%s"' % f([float(rng.random()), float(rng.random()), 0.5, 0.0]))
    elif k < 0.17:
        a.append('material="minv"')
    elif k < 0.27:
        a.append('material="mvis"')
    elif k < 0.35:
        a.append('rgba="0.3 0.4 0.5 %s"' % f(float(rng.uniform(0.01, 1))))
    if rng.random() < 0.3:      # visual-only geoms are not part of the body's bounding volume hierarchy
        a.append('contype="0" conaffinity="0"')
    return "<geom %s/>" % " ".join(a)


def scene_xml(rng, ngeom):
    out = ['<mujoco><asset><material name="mvis" rgba="0.2 0.8 0.2 1"/><material name="minv" rgba="0.8 0.2 0.2 0"/></asset><worldbody>']
    left = ngeom
    nplane = int(rng.integers(0, 3)) if ngeom > 1 else int(rng.random() < 0.2)
    for _ in range(min(nplane, left)):
        out.append(_geom(rng, "plane"))
        left -= 1
    nw = int(rng.integers(0, max(1, left // 4) + 1))
    for _ in range(nw):
        out.append(_geom(rng))
        left -= 1
    bid = 0
    while left > 0:
        kind = rng.random()
        ng = int(min(left, rng.integers(1, 6)))
        pos = rng.normal(size=3) * 1.5
        q = rng.normal(size=4)
        q /= np.linalg.norm(q)
        head = '<body name="b%d" pos="%s" quat="%s"' % (bid, f(pos), f(q))
        inertial = '<inertial pos="0 0 0" mass="1" diaginertia="0.1 0.1 0.1"/>' if rng.random() < 0.3 else ""
        if kind < 0.2:      # static child of the world (may carry a plane)
            out.append(head + ">")
            if rng.random() < 0.3:
                out.append(_geom(rng, "plane", spread=0.5))
                ng -= 1
                left -= 1
        elif kind < 0.35:   # mocap
            out.append(head + ' mocap="true">')
        elif kind < 0.8:
            out.append(head + "><freejoint/>" + inertial)
        else:
            out.append(head + '><joint type="hinge" axis="%s"/>' % f(rng.normal(size=3)) + inertial)
        for _ in range(ng):
            out.append(_geom(rng, spread=float(rng.choice([0.2, 0.6]))))
            left -= 1
        if rng.random() < 0.3 and left > 0:      # dof-less child (welded to its parent)
            out.append('<body pos="%s" quat="%s">%s</body>' % (f(rng.normal(size=3) * 0.4), f(rng.normal(size=4)), _geom(rng, spread=0.2)))
            left -= 1
        out.append("</body>")
        bid += 1
    out.append("</worldbody></mujoco>")
    return "".join(out)


# ---- reference filters ------------------------------------------------------------------------------------------------
def weld_ids(m):
    """documented weld groups: a body without joints is welded to its parent; mocap bodies start their own group"""
    par_, dof, moc = m["body_parentid"], m["body_dofnum"], m["body_mocapid"]
    w = np.zeros(m.n("nbody"), dtype=int)
    for b in range(1, m.n("nbody")):
        w[b] = b if (dof[b] > 0 or moc[b] >= 0) else w[par_[b]]
    return w


def included(m, weld, geomgroup, flg_static, bodyexclude):
    ng = m.n("ngeom")
    inc = []
    gb, grp, rgba, mat = m["geom_bodyid"], m["geom_group"], m["geom_rgba"].reshape(-1, 4), m["geom_matid"]
    mrgba = m["mat_rgba"].reshape(-1, 4) if m.n("nmat") else None
    for g in range(ng):
        ok = True
        if gb[g] == bodyexclude:
            ok = False
        alpha = mrgba[mat[g], 3] if mat[g] >= 0 else rgba[g, 3]
        if alpha == 0:
            ok = False
        if not flg_static and weld[gb[g]] == 0:
            ok = False
        if geomgroup is not None and not geomgroup[min(5, max(0, int(grp[g])))]:
            ok = False
        inc.append(ok)
    return inc


def ref_geoms(m, d):
    xpos, xmat = np.array(d["geom_xpos"]).reshape(-1, 3), np.array(d["geom_xmat"]).reshape(-1, 3, 3)
    size, typ = np.array(m["geom_size"]).reshape(-1, 3), m["geom_type"]
    return [(int(typ[g]), tuple(xpos[g].tolist()), xmat[g].tolist(), tuple(size[g].tolist())) for g in range(m.n("ngeom"))]


def interval(G, pnt, vec):
    """[lo, hi] of the acceptable answers for one geom (miss = inf), from the displaced-ray outcome set"""
    t, pos, Rm, size = G
    res = R.outcomes(t, pos, Rm, size, pnt, vec)
    vals = [x if x >= 0 else math.inf for x in res]
    lo, hi = min(vals), max(vals)
    # origin within the displacement of the surface: the root at the origin itself (x = 0) is an acceptable answer
    scale = max(abs(v) for v in size) if t != R.PLANE else 1.0
    mag = math.sqrt(sum((pnt[k] - pos[k]) ** 2 for k in range(3))) + sum(abs(v) for v in pos) + sum(abs(v) for v in pnt)
    if lo * math.sqrt(sum(v * v for v in vec)) <= 20 * max(1e-9 * scale, 4e-12 * mag):
        lo = 0.0
    if R.origin_surface_distance(t, pos, Rm, size, pnt) <= 20 * max(1e-9 * scale, 4e-12 * mag):
        lo = 0.0            # the origin itself is on the surface (within the displacement): x = 0 is an intersection
    if t == R.PLANE and R.plane_side(pos, Rm, pnt, vec) <= 0:
        # towards the back face: report the (two-sided) intersection or nothing
        hi = math.inf
    return lo, hi


def judge(G, inc, pnt, vec, xe, ge):
    """None if the engine answer (xe, ge) is acceptable, else (signature suffix, info). Also returns class flags."""
    vn = math.sqrt(sum(v * v for v in vec))
    xr, gr, allx = R.nearest(G, pnt, vec, inc)
    # plane back faces are 'either': nominal reference reports them two-sided, so resolve by intervals when it matters
    # engine rounding: the quadratic of a far, small shape loses (distance^2 / size) ulps
    def tol(x, g=None):
        extra = 0.0
        for gg in (g, gr, ge):
            if gg is not None and 0 <= gg < len(G) and G[gg][0] != R.PLANE:
                Ld = math.sqrt(sum((pnt[k] - G[gg][1][k]) ** 2 for k in range(3))) + sum(abs(v) for v in G[gg][1]) + sum(abs(v) for v in pnt)
                smin = min(v for v in G[gg][3] if v > 0)
                extra = max(extra, 2e-14 * Ld * Ld / smin)
        return (TOL * (1 + abs(x) * vn) + extra) / vn
    backplane = any(inc[i] and G[i][0] == R.PLANE and R.plane_side(G[i][1], G[i][2], pnt, vec) <= 0 and allx[i] is not None and allx[i] >= 0
                    for i in range(len(G)))
    if not backplane:
        if xe < 0 and xr < 0 and ge == -1:
            return None, "miss", xr, gr
        if xe >= 0 and xr >= 0 and abs(xe - xr) <= tol(xr) and 0 <= ge < len(G) and inc[ge] and allx[ge] is not None and allx[ge] >= 0 \
                and abs(allx[ge] - xr) <= tol(xr):
            return None, ("hit" if ge == gr else "tie"), xr, gr
    # slow path: intervals
    lo_all, hi_all = math.inf, math.inf
    iv = {}
    for i in range(len(G)):
        if inc[i]:
            lo, hi = interval(G[i], pnt, vec)
            iv[i] = (lo, hi)
            lo_all, hi_all = min(lo_all, lo), min(hi_all, hi)
    xev = xe if xe >= 0 else math.inf
    t_lo = tol(lo_all) if math.isfinite(lo_all) else 0
    t_hi = tol(hi_all) if math.isfinite(hi_all) else 0
    if xe < 0 and xe != -1:
        return ("miss-value-not-minus-one", dict(x=xe)), "bad", xr, gr
    if (xe < 0) != (ge == -1):
        return ("distance-and-geomid-disagree-on-hit", dict(x=xe, geomid=ge)), "bad", xr, gr
    if xev < lo_all - t_lo:
        if ge >= 0 and not inc[ge]:
            return ("filtered-geom-reported", dict(x=xe, geomid=ge, ref=xr, refgeom=gr)), "bad", xr, gr
        return ("reported-nearer-than-any-surface", dict(x=xe, geomid=ge, ref=xr, refgeom=gr)), "bad", xr, gr
    if xev > hi_all + t_hi:
        kind = "miss-while-filtered-geom-is-hit" if xe < 0 else "not-the-nearest-intersection"
        g_hi = min(iv, key=lambda i: iv[i][1])           # the geom whose certain hit was not reported
        if allx[g_hi] is not None and allx[g_hi] >= 0 and G[g_hi][0] != R.PLANE:
            Ld = math.sqrt(sum((pnt[k] - G[g_hi][1][k]) ** 2 for k in range(3))) + sum(abs(v) for v in G[g_hi][1]) + sum(abs(v) for v in pnt)
            cond = 2e-14 * Ld * Ld / min(v for v in G[g_hi][3] if v > 0)
            if R.on_seam(G[g_hi][0], G[g_hi][1], G[g_hi][2], G[g_hi][3], pnt, vec, allx[g_hi], abs_tol=cond):
                # the ray enters the shape through the curve where two surface patches meet (within rounding at this distance)
                kind = "hit-on-patch-seam-lost"
                gr = g_hi
        return (kind, dict(x=xe, geomid=ge, ref=xr, refgeom=gr, reftype=G[gr][0] if gr >= 0 else -1)), "bad", xr, gr
    if ge >= 0:
        if not inc[ge]:
            return ("filtered-geom-reported", dict(x=xe, geomid=ge, ref=xr, refgeom=gr)), "bad", xr, gr
        lo, hi = iv[ge]
        if not (lo - tol(lo if math.isfinite(lo) else 0) <= xe <= (hi + tol(hi) if math.isfinite(hi) else math.inf)):
            return ("geomid-is-not-the-geom-at-that-distance", dict(x=xe, geomid=ge, ref=xr, refgeom=gr)), "bad", xr, gr
    return None, "ambiguous", xr, gr


# ---- engine calls -----------------------------------------------------------------------------------------------------
def eng_ray(L, m, d, pnt, vec, grp, flg_static, bodyexclude):
    gid = np.full(1, -7, dtype=np.int32)
    x = L.call("mj_ray", m, d, np.ascontiguousarray(pnt, dtype=np.float64), np.ascontiguousarray(vec, dtype=np.float64),
               grp, int(flg_static), int(bodyexclude), gid, None, ret="f64")
    return x, int(gid[0])


def eng_multiray(L, m, d, pnt, vecs, grp, flg_static, bodyexclude, cutoff):
    n = len(vecs)
    gid = np.full(n, -7, dtype=np.int32)
    dist = np.full(n, -7.0)
    L.call("mj_multiRay", m, d, np.ascontiguousarray(pnt, dtype=np.float64), np.ascontiguousarray(vecs, dtype=np.float64),
           grp, int(flg_static), int(bodyexclude), gid, dist, None, n, float(cutoff), ret=None)
    return dist, gid


def diagnose_multiray_miss(m, d, g, pnt, vec):
    """name the culling stage of mj_multiRay that (wrongly) discards geom g for this ray, from the documented geometry of
    the bounding volumes (body BVH root box is expressed in the body's inertial frame xipos/ximat)"""
    b = int(m["geom_bodyid"][g])
    adr = int(m["body_bvhadr"][b])
    if adr < 0:
        return "no-bounding-volume"
    aabb = np.array(m["bvh_aabb"]).reshape(-1, 6)[adr]
    xipos = np.array(d["xipos"]).reshape(-1, 3)[b]
    ximat = np.array(d["ximat"]).reshape(-1, 3, 3)[b]
    rad = math.sqrt(float((aabb[3:] ** 2).sum()))

    def sphere_hit(cen):
        return R.ray_shape(R.SPHERE, tuple(cen.tolist()), [[1, 0, 0], [0, 1, 0], [0, 0, 1]], (rad, 0, 0), tuple(pnt.tolist()), tuple(vec.tolist())) >= 0
    if sphere_hit(ximat @ aabb[:3] + xipos) and not sphere_hit(aabb[:3] + xipos):
        return "body-bounding-sphere-centre-not-rotated-by-ximat"
    if m["geom_contype"][g] == 0 and m["geom_conaffinity"][g] == 0 and not sphere_hit(ximat @ aabb[:3] + xipos):
        # the body's bounding volume hierarchy is built from its collision geoms only (user_objects.cc: "drop visual-only
        # elements"), yet the whole body, visual geoms included, is culled against it
        return "body-bounding-sphere-does-not-bound-visual-only-geom"
    return "other-stage"


# ---- ray families -------------------------------------------------------------------------------------------------------
def special_points(rng, G):
    """a local point on an edge / vertex / rim / seam of the shape, in world coordinates, with the outward offset direction"""
    t, pos, Rm, size = G
    Rm = np.array(Rm)
    if t == R.BOX:
        s = np.array(size) * rng.choice([-1, 1], size=3)
        if rng.random() < 0.5:
            s[int(rng.integers(0, 3))] *= rng.uniform(-1, 1)     # point on an edge instead of a vertex
        l = s
    elif t in (R.CYLINDER, R.CAPSULE):
        a = rng.uniform(0, 2 * math.pi)
        l = np.array([size[0] * math.cos(a), size[0] * math.sin(a), size[1] * rng.choice([-1, 1])])
    elif t == R.SPHERE:
        u = rng.normal(size=3)
        l = size[0] * u / np.linalg.norm(u)
    elif t == R.ELLIPSOID:
        u = rng.normal(size=3)
        l = np.array(size) * u / np.linalg.norm(u)
    else:
        l = np.array([rng.uniform(-1, 1) * (size[0] or 1), rng.uniform(-1, 1) * (size[1] or 1), 0.0])
        if rng.random() < 0.5 and size[0] > 0:
            l[0] = size[0] * rng.choice([-1, 1])
    out = l / (np.linalg.norm(l) + 1e-300)
    return np.array(pos) + Rm @ l, Rm @ out


def directions(rng, G, inc_any, pnt, n):
    """n ray directions from a shared origin with their family names"""
    vecs, fam = [], []
    ng = len(G)
    for k in range(n):
        r = rng.random()
        g = int(rng.integers(0, ng))
        t, pos, Rm, size = G[g]
        if r < 0.25:
            v = rng.normal(size=3)
            name = "random"
        elif r < 0.5:
            v = np.array(pos) - pnt + rng.normal(size=3) * 0.3 * max(size)
            name = "aimed"
        elif r < 0.75:
            p, o = special_points(rng, G[g])
            off = float(rng.choice(OFFS)) * float(rng.choice([-1, 1])) * max(max(size), 0.1)
            v = p + o * off - pnt
            name = "feature"
        elif r < 0.9 and t in (R.SPHERE,):
            D = np.array(pos) - pnt
            Ld = np.linalg.norm(D)
            rr = size[0] * (1 + float(rng.choice(OFFS)) * float(rng.choice([-1, 1])))
            if Ld > rr * 1.01:
                u = np.cross(D, rng.normal(size=3))
                u /= np.linalg.norm(u)
                al = math.asin(rr / Ld)
                v = math.cos(al) * D / Ld + math.sin(al) * u
                name = "tangent"
            else:
                v = rng.normal(size=3)
                name = "random"
        else:
            ax = np.array(Rm)[:, int(rng.integers(0, 3))] * rng.choice([-1, 1])
            v = ax
            name = "axis"
        nv = np.linalg.norm(v)
        if nv < 1e-6:
            v = np.array([0.3, 0.2, -1.0])
            nv = np.linalg.norm(v)
        v = v / nv * float(np.exp(rng.uniform(np.log(0.05), np.log(20)))) if rng.random() < 0.5 else v / nv
        vecs.append(v)
        fam.append(name)
    return np.array(vecs), fam


def origins(rng, G, n):
    out = []
    for k in range(n):
        r = rng.random()
        g = int(rng.integers(0, len(G)))
        t, pos, Rm, size = G[g]
        if r < 0.35:
            out.append((rng.normal(size=3) * 2.5, "outside"))
        elif r < 0.6 and t != R.PLANE:
            u = rng.uniform(-0.5, 0.5, size=3) * (np.array(size) if t in (R.BOX, R.ELLIPSOID) else np.array([size[0], size[0], size[1] if t != R.SPHERE else size[0]]))
            out.append((np.array(pos) + np.array(Rm) @ u * 0.9, "inside"))
        elif r < 0.8:
            p, o = special_points(rng, G[g])
            if t not in (R.BOX, R.PLANE):
                # a generic surface point: exit point of a ray from the centre
                u = rng.normal(size=3)
                x = R.ray_shape(t, pos, Rm, size, pos, tuple(u))
                p = np.array(pos) + x * u if x > 0 else p
            out.append((p, "on-surface"))
        elif r < 0.9:
            out.append((rng.normal(size=3) * 30, "far"))
        else:
            p, o = special_points(rng, G[g])
            out.append((p + o * float(rng.choice(OFFS)) * float(rng.choice([-1, 1])), "near-feature"))
    return out


def free_rays(rng, G, n):
    """rays parallel to a local axis of a geom, running along / just beside a face, side or cap"""
    out = []
    for k in range(n):
        g = int(rng.integers(0, len(G)))
        t, pos, Rm, size = G[g]
        Rm = np.array(Rm)
        ax = int(rng.integers(0, 3))
        ext = np.array(size) if t in (R.BOX, R.ELLIPSOID) else (np.array([size[0]] * 3) if t == R.SPHERE else
                                                                  (np.array([size[0], size[0], size[1] + (size[0] if t == R.CAPSULE else 0)]) if t != R.PLANE else np.array([1.0, 1.0, 0.0])))
        l = rng.uniform(-1, 1, size=3) * ext
        side = int((ax + 1 + rng.integers(0, 2)) % 3)
        off = float(rng.choice(OFFS + [0.0])) * float(rng.choice([-1, 1])) * max(max(size), 0.1)
        l[side] = ext[side] * rng.choice([-1, 1])
        l[side] += math.copysign(off, l[side]) if off > 0 else -math.copysign(-off, l[side])
        start = float(rng.choice([-3.0, -1.0, 0.0, 0.5]))
        l[ax] = start * (ext[ax] + 0.1)
        v = np.zeros(3)
        v[ax] = 1.0
        out.append((np.array(pos) + Rm @ l, Rm @ v * float(rng.choice([1.0, 0.3, 7.0])), "face-parallel"))
    return out


# ---- worker ---------------------------------------------------------------------------------------------------------------
def worker(c):
    P = core.Part()
    L = drv.Lib(c.get("flavour", "rel"))
    if c["kind"] == "raygeom":
        return raygeom_worker(L, c, P)
    xml = c.get("xml") or scene_xml(np.random.default_rng(c["seed"]), c["ngeom"])
    rng = np.random.default_rng([c["seed"], 1])
    try:
        m = L.load_xml_string(xml)
    except drv.MjError as e:
        P.count("scene_rejected")
        P.count("scene_rejected:" + str(e)[:50])
        return P.result()
    d = m.make_data()
    rng_rays = rng
    rng = np.random.default_rng([c["seed"], 2])     # pose stream (separate, so that a single ray can be replayed)
    jt, qa = m["jnt_type"], m["jnt_qposadr"]
    for j in range(m.n("njnt")):
        if jt[j] == 0:
            d["qpos"][qa[j]:qa[j] + 3] += rng.normal(size=3) * 0.5
            q = rng.normal(size=4)
            d["qpos"][qa[j] + 3:qa[j] + 7] = q / np.linalg.norm(q)
        else:
            d["qpos"][qa[j]] = rng.uniform(-3, 3)
    if m.n("nmocap"):
        d["mocap_pos"][:] = np.array(d["mocap_pos"]) + rng.normal(size=(m.n("nmocap"), 3)) * 0.3
        q = rng.normal(size=(m.n("nmocap"), 4))
        d["mocap_quat"][:] = q / np.linalg.norm(q, axis=1, keepdims=True)
    d.forward()
    rng = rng_rays
    G = ref_geoms(m, d)
    weld = weld_ids(m)
    ng, nbody = m.n("ngeom"), m.n("nbody")
    P.count("scenes")
    P.note_max("ngeom", ng)
    P.count("scenes_with_multigeom_bodies", int((m["body_geomnum"][1:] > 1).any()))
    rbound = np.array(m["geom_rbound"])
    xpos = np.array(d["geom_xpos"]).reshape(-1, 3)

    def settings():
        r = rng.random()
        grp = None if r < 0.4 else (rng.random(6) < 0.6).astype(np.uint8)
        flg_static = int(rng.random() < 0.7)
        bodyexclude = -1 if rng.random() < 0.5 else int(rng.integers(0, nbody))
        return grp, flg_static, bodyexclude

    def witness(**kw):
        base = {"xml": xml, "case": {k: v for k, v in c.items() if not k.startswith("_")}}
        base.update(kw)
        return base

    def check_ray(pnt, vec, fam, oname, st):
        grp, flg_static, bodyexclude = st
        inc = included(m, weld, grp, flg_static, bodyexclude)
        xe, ge = eng_ray(L, m, d, pnt, vec, grp, flg_static, bodyexclude)
        bad, cls, xr, gr = judge(G, inc, tuple(pnt.tolist()), tuple(vec.tolist()), xe, ge)
        P.count("rays")
        P.count("rays_" + cls)
        P.count("rays_family_" + fam)
        if xr >= 0:
            P.count("rays_ref_hit_type%d" % G[gr][0])
        if bad is not None:
            sig, info = bad
            typ = G[info.get("refgeom", -1)][0] if info.get("refgeom", -1) >= 0 else (G[ge][0] if ge >= 0 else -1)
            P.violation("mj_ray:%s:geomtype%d" % (sig, typ), witness(pnt=pnt, vec=vec, geomgroup=None if grp is None else grp.tolist(), flg_static=flg_static,
                                                                     bodyexclude=bodyexclude, family=fam, origin=oname, **info))
        nontrivial = xr >= 0 or any(inc)
        P.case(key="%d|%s|%s|%s|%d%d%d" % (c["seed"], oname, fam, cls, grp is not None, flg_static, bodyexclude >= 0), nontrivial=nontrivial,
               sample={"ngeom": ng, "pnt": pnt, "vec": vec, "engine": [xe, ge], "ref": [xr, gr], "family": fam})
        return xe, ge, inc

    only = c.get("only")
    if only:
        olist = [(np.array(only["pnt"], dtype=np.float64), "replay")]
    else:
        olist = origins(rng, G, c["norigin"])
    for oi, (pnt, oname) in enumerate(olist):
        pnt = np.ascontiguousarray(pnt, dtype=np.float64)
        if only:
            st = (None if only.get("geomgroup") is None else np.array(only["geomgroup"], dtype=np.uint8), int(only["flg_static"]), int(only["bodyexclude"]))
            vecs = np.array(only.get("all_vecs") or [only["vec"]], dtype=np.float64)
            fams = ["replay"] * len(vecs)
        else:
            st = settings()
            vecs, fams = directions(rng, G, True, pnt, c["nray"])
        single = []
        for v, fam in zip(vecs, fams):
            single.append(check_ray(pnt, np.ascontiguousarray(v), fam, oname, st))
        # ---- mj_multiRay, no cutoff
        grp, flg_static, bodyexclude = st
        dist, gid = eng_multiray(L, m, d, pnt, vecs, grp, flg_static, bodyexclude, 1e10)
        for k, (xe, ge, inc) in enumerate(single):
            P.count("multiray_rays")
            if dist[k] == xe and gid[k] == ge:
                P.count("multiray_bit_equal")
                continue
            vn = np.linalg.norm(vecs[k])
            tie_ok = False
            if xe >= 0 and dist[k] >= 0 and abs(dist[k] - xe) <= TOL * (1 + xe * vn) / vn:
                tie_ok = True
            if not tie_ok:
                # is the single-ray answer itself ambiguous?  judge the multiRay answer against the reference directly
                bad, cls, xr, gr = judge(G, inc, tuple(pnt.tolist()), tuple(vecs[k].tolist()), float(dist[k]), int(gid[k]))
                if bad is None:
                    P.count("multiray_differs_within_ambiguity")
                    continue
                hitg = ge if ge >= 0 else int(gid[k])
                b = int(m["geom_bodyid"][hitg])
                kind = "multi-geom-body" if m["body_geomnum"][b] > 1 else "single-geom-body"
                what = "misses-geom" if (dist[k] < 0 or (xe >= 0 and dist[k] > xe)) else "differs"
                sig = "mj_multiRay-%s-seen-by-mj_ray:%s" % (what, kind)
                if what == "misses-geom" and ge >= 0:
                    mech = diagnose_multiray_miss(m, d, ge, pnt, vecs[k])
                    sig = "mj_multiRay-misses-geom-seen-by-mj_ray:other-stage:" + kind if mech == "other-stage" else "mj_multiRay:" + mech
                P.violation(sig,
                            witness(pnt=pnt, vec=vecs[k], geomgroup=None if grp is None else grp.tolist(), flg_static=flg_static, bodyexclude=bodyexclude,
                                    multi=[float(dist[k]), int(gid[k])], single=[xe, ge], ray_index=k, nray=len(vecs), all_vecs=vecs))
        # ---- finite cutoff
        cutoff = float(only["cutoff"]) if only and "cutoff" in only else float(np.exp(rng.uniform(np.log(0.3), np.log(6))))
        dist2, gid2 = eng_multiray(L, m, d, pnt, vecs, grp, flg_static, bodyexclude, cutoff)
        dcen = np.linalg.norm(xpos - pnt, axis=1)
        for k, (xe, ge, inc) in enumerate(single):
            P.count("multiray_cutoff_rays")
            v = vecs[k]
            allx = R.nearest(G, tuple(pnt.tolist()), tuple(v.tolist()), inc)[2]
            vn = np.linalg.norm(v)
            # not "further than cutoff" under any reading: the whole bounding sphere is within the cutoff, or the point hit is
            near = [i for i in range(ng) if inc[i] and ((rbound[i] > 0 and dcen[i] + rbound[i] <= cutoff * (1 - 1e-9)) or
                                                       (allx[i] is not None and 0 <= allx[i] * vn <= cutoff * (1 - 1e-9)))]
            cand_near = [allx[i] for i in near if allx[i] is not None and allx[i] >= 0]
            xk, gk = float(dist2[k]), int(gid2[k])
            if xk == xe and gk == ge:
                P.count("multiray_cutoff_same_as_ray")
                continue
            ok = True
            why = ""
            if xk >= 0:
                # must be the distance of geom gk, and no near geom may be closer
                if not (0 <= gk < ng and inc[gk]):
                    ok, why = False, "filtered-geom-reported"
                else:
                    lo, hi = interval(G[gk], tuple(pnt.tolist()), tuple(v.tolist()))
                    t = TOL * (1 + xk * vn) / vn
                    if not (lo - t <= xk <= (hi + t if math.isfinite(hi) else math.inf)):
                        ok, why = False, "distance-not-of-reported-geom"
            for i in near:
                if allx[i] is not None and allx[i] >= 0 and (xk < 0 or xk > allx[i] + TOL * (1 + allx[i] * vn) / vn):
                    lo, hi = interval(G[i], tuple(pnt.tolist()), tuple(v.tolist()))
                    if math.isfinite(hi) and (xk < 0 or xk > hi + TOL * (1 + hi * vn) / vn):
                        mech = diagnose_multiray_miss(m, d, i, pnt, v)
                        if mech == "other-stage" and G[i][0] == R.PLANE and dcen[i] > cutoff:
                            mech = "plane-culled-by-distance-to-its-frame-origin"
                        elif mech == "other-stage" and dcen[i] + rbound[i] > cutoff:
                            mech = "hit-point-within-cutoff-but-geom-culled"
                        ok, why = False, (mech if mech.startswith("body-bounding-sphere") else "geom-within-cutoff-ignored:" + mech)
            if ok:
                P.count("multiray_cutoff_dropped_far_geom")
            else:
                P.violation("mj_multiRay:" + why if why.startswith("body-bounding-sphere") else "mj_multiRay-finite-cutoff:" + why, witness(pnt=pnt, vec=v, cutoff=cutoff, multi=[xk, gk], single=[xe, ge],
                                                                        geomgroup=None if grp is None else grp.tolist(), flg_static=flg_static,
                                                                        bodyexclude=bodyexclude, all_vecs=vecs, ray_index=k))
    for pnt, vec, fam in ([] if only else free_rays(rng, G, c["nfree"])):
        check_ray(np.ascontiguousarray(pnt), np.ascontiguousarray(vec), fam, "free", settings())
    d.free()
    m.free()
    return P.result()


def raygeom_worker(L, c, P):
    rng = np.random.default_rng(c["seed"])
    for k in range(c["n"]):
        tname = (PRIMS + ["plane"])[int(rng.integers(0, 6))]
        t = TYPES[tname]
        size = np.zeros(3)
        if tname == "plane":
            size[:] = [rng.choice([0, 1.0]) * rng.uniform(0.2, 2), rng.choice([0, 1.0]) * rng.uniform(0.2, 2), 0.1]
        else:
            s = _size(rng, tname, big=float(rng.choice([0.01, 1, 100])))
            size[:len(s)] = s
        pos = rng.normal(size=3) * float(rng.choice([0, 1, 100]))
        q = rng.normal(size=4)
        q /= np.linalg.norm(q)
        w, x, y, z = q
        Rm = np.array([[1 - 2 * (y * y + z * z), 2 * (x * y - w * z), 2 * (x * z + w * y)], [2 * (x * y + w * z), 1 - 2 * (x * x + z * z), 2 * (y * z - w * x)],
                       [2 * (x * z - w * y), 2 * (y * z + w * x), 1 - 2 * (x * x + y * y)]])
        if rng.random() < 0.2:
            Rm = np.eye(3)
        G = [(t, tuple(pos.tolist()), Rm.tolist(), tuple(size.tolist()))]
        scale = max(size)
        r = rng.random()
        if r < 0.3:
            (pnt, oname), = origins(rng, G, 1)
            vecs, fams = directions(rng, G, True, np.array(pnt), 1)
            vec, fam = vecs[0], oname + "/" + fams[0]
        elif r < 0.6:
            (pnt, vec, fam), = free_rays(rng, G, 1)
        else:
            pnt = pos + rng.normal(size=3) * scale * float(rng.choice([0.3, 3, 30]))
            vec = (pos + rng.normal(size=3) * scale * 0.7 - pnt)
            fam = "aimed"
            if np.linalg.norm(vec) < 1e-9:
                vec = np.array([0, 0, 1.0])
        pnt = np.ascontiguousarray(pnt, dtype=np.float64)
        vec = np.ascontiguousarray(vec, dtype=np.float64)
        posa, mata = np.ascontiguousarray(pos), np.ascontiguousarray(Rm.ravel())
        xe = L.call("mju_rayGeom", posa, mata, np.ascontiguousarray(size), pnt, vec, t, None, ret="f64")
        bad, cls, xr, gr = judge(G, [True], tuple(pnt.tolist()), tuple(vec.tolist()), xe, 0 if xe >= 0 else -1)
        P.count("raygeom_calls")
        P.count("raygeom_" + cls)
        P.count("raygeom_type%d" % t)
        if bad is not None:
            P.violation("mju_rayGeom:%s:geomtype%d" % (bad[0], t), {"case": c, "index": k, "type": t, "pos": pos, "mat": Rm, "size": size, "pnt": pnt, "vec": vec,
                                                                    "engine": xe, "ref": xr, "family": fam})
        P.case(key="rg|%d|%s|%s|%d" % (t, fam, cls, c["seed"] % 7), nontrivial=True, sample={"type": t, "pnt": pnt, "vec": vec, "engine": xe, "ref": xr})
    return P.result()


# ---- driver ---------------------------------------------------------------------------------------------------------------
def cases(ctx):
    rng = ctx.rng
    cs = []
    nscene = ctx.pick(64, 1200)
    for i in range(nscene):
        ng = int([1, 2, 5, 12, 25, 40, 60][i % 7])
        cs.append({"kind": "scene", "seed": int(rng.integers(0, 2 ** 31)), "ngeom": ng, "norigin": ctx.pick(5, 8), "nray": ctx.pick(30, 40), "nfree": ctx.pick(60, 100)})
    for i in range(ctx.pick(16, 160)):
        cs.append({"kind": "raygeom", "seed": int(rng.integers(0, 2 ** 31)), "n": ctx.pick(600, 1500)})
    return cs


def run(ctx):
    build.ensure("rel")
    ctx.extra["reference_self_test"] = R.self_test()
    cs = cases(ctx)
    res = par.run("vf.props.c16", "worker", cs, nproc=ctx.pick(8, 12), timeout=ctx.pick(300, 900))
    for c, r in zip(cs, res):
        if r is None:
            ctx.inconclusive("worker returned nothing")
        elif "crash" in r:
            ctx.count("worker_crash")
            ctx.inconclusive("worker crashed: " + r["crash"][-300:])
        elif "exception" in r:
            ctx.count("harness_exception")
            ctx.inconclusive("harness exception: " + r["exception"] + " " + r.get("trace", "")[-600:])
        else:
            ctx.merge(r)
    n = max(1, ctx.counters.get("rays", 0))
    if ctx.counters.get("rays_ambiguous", 0) > 0.25 * n:
        ctx.inconclusive("too many rays accepted only through the degeneracy window (%d of %d)" % (ctx.counters.get("rays_ambiguous", 0), n))
    ctx.min_nontrivial = ctx.pick(300, 3000)


def replay(ctx, path):
    rec = json.load(open(path))
    det = rec["detail"]
    c = det["case"]
    if det.get("xml"):
        c["xml"] = det["xml"]
    if "pnt" in det and c.get("kind") == "scene":
        c["only"] = {k: det[k] for k in ("pnt", "vec", "geomgroup", "flg_static", "bodyexclude", "all_vecs", "cutoff") if k in det}
    ctx.merge(worker(c))
    ctx.min_nontrivial = 1
