"""C15 Convex narrow-phase (native GJK/EPA) distances are correct and swap-symmetric."""
import json
import math

import numpy as np

from .. import build, core, drv, par
from ..ref import convex as cx
from . import c13 as base

LEVEL = "exploration"
RULE = ("reference-model oracle on two-geom scenes whose pair is handled by the native GJK/EPA (mjc_Convex for contacts: ellipsoid, "
        "cylinder, box, capsule, sphere and convex inline meshes in every combination without an analytic collider; mj_geomDistance "
        "also for box-box): a case = (type pair, sizes over 2 decades, aspect ratio up to 50, margin 0..0.1, multiccd on/off, "
        "ccd_tolerance 1e-6..1e-4, body variant, geom order) x relative poses (separated / in margin / touching / shallow / deep / "
        "centre-inside; random, axis-aligned, face-parallel, edge, slightly tilted). The engine's contact distance/normal and "
        "mj_geomDistance (both argument orders, with witness segment) are compared with vf/ref/convex.py: certified closest distance "
        "(lower/upper bracket from support functions) when separated, exact minimum-translation depth for polytope pairs and a certified "
        "two-sided bracket otherwise; the reported normal must realise the reported distance for polytope and for separated pairs. distinct = (pair, variant, pose class, "
        "orientation class, regime, multiccd); non-trivial = a contact or a finite geom distance was produced")
ASSUMPTIONS = [
    "NOT DECIDABLE HERE: the clause 'the libccd path ... agree with each other' - libccd is absent from this build (the stand-in "
    "traps, mjDSBL_NATIVECCD aborts the process), so only the native pipeline is observed; mjDSBL_NATIVECCD is never set",
    "qhull is absent: mesh geoms are small convex polytopes given with explicit faces and compiled without a hull (contype=0), their "
    "collision bits are switched on in mjModel afterwards; the collider then uses the exhaustive vertex support (no hill-climbing "
    "graph, no polygon data for the multi-contact clipping); the reference uses the float32 vertices stored in mjModel",
    "tolerance = max(10*ccd_tolerance, 1e-6*size) as in the design note; ccd_iterations is raised to 1000 in most cases; with the "
    "default 50 a mismatch that disappears when the same pose is re-run with 1000 iterations is the documented effect of the "
    "iteration limit (doc XMLreference ccd_iterations: 'rarely needs to be adjusted, except ... very large aspect ratios'): skipped "
    "and counted, inconclusive above 2%",
    "penetration depth, two-sided in every regime: polytope pairs without margin have the exact minimum-translation depth (finite "
    "candidate set); for curved or margin-rounded pairs the overlap width along ANY direction is an upper bound of the depth (sampled + "
    "refined directions, plus every direction the engine itself reports), and when an engine value is shallower than that bound by more "
    "than tol the lower side comes from cx.penetration_certified (distance from the origin to the boundary of the convex hull of support "
    "points of the Minkowski difference, refined until upper-lower <= 0.1*tol; poses whose bracket does not close are counted as skipped)",
    "direction: the statement asks for the distance/depth and its swap symmetry ('the same distance with the normal reversed'). That the "
    "reported normal / fromto direction realises the reported distance along the reference support functions is required within tol for "
    "polytope pairs without margin (exact there) and within 100*tol + 1e-3*size for separated curved pairs (GJK witness points; first-order "
    "accuracy of the direction). For PENETRATING curved or margin-rounded pairs it is NOT part of the verdict: native EPA stops when "
    "(best upper bound over all faces seen so far) - (distance of the current nearest face) < tolerance and returns the current face, "
    "whose normal can be far from the optimal direction although the depth is right to tolerance (findings/C15-epa-stale-upper-bound.md); "
    "the documentation promises no accuracy of the EPA normal. Such poses are counted (evidence_curved_penetration_*), the depth itself "
    "is held to the two-sided bracket above, and no contact may be deeper than the geometry along its own normal",
    "multi-contact manifolds (multiccd, box/mesh single shot): each contact must not be deeper than the geometry along its normal; "
    "the deepest is compared with the reference",
    "known open findings (findings/C15-*.md) switch no comparison off. A violation is relabelled only if the failed comparison is in the "
    "mechanism's explicit list (LISTED, mirrored by known_findings.json) and the mechanism is confirmed for it: coincident centres = "
    "centres closer than ccd_tolerance AND the engine returned |centre1-centre2| (0 up to rounding) in both orders / no contact; touching "
    "= true distance of the shapes that the failing path works on (un-inflated for mj_geomDistance, inflated by the margin for contacts) "
    "within 2*ccd_tolerance of zero AND the comparison is a depth/distance or a contact-vs-mj_geomDistance comparison (never finiteness, "
    "unit normals, dist <= margin); argument-order asymmetry of mj_geomDistance in a touching pose is covered only after the counterfactual "
    "'ccd_tolerance set to a quarter of the certified positive distance -> right and equal in both orders' has succeeded; cylinder cap "
    "= penetrating pose outside the touching band with a cylinder axis parallel (5e-13) to a flat-face normal of the other geom AND the "
    "engine values are too shallow AND the counterfactual 'second geom tilted by +-1e-6 rad about two perpendicular axes -> mj_geomDistance "
    "within tol of the certified depth in all four poses and both orders' has succeeded. "
    "Everything else is a VIOLATION",
    "contact positions are C13's subject; geom poses are read back from the engine",
]

CCD_PAIRS = [("sphere", "ellipsoid"), ("sphere", "mesh"), ("capsule", "ellipsoid"), ("capsule", "cylinder"), ("capsule", "mesh"),
             ("ellipsoid", "ellipsoid"), ("ellipsoid", "cylinder"), ("ellipsoid", "box"), ("ellipsoid", "mesh"),
             ("cylinder", "cylinder"), ("cylinder", "box"), ("cylinder", "mesh"), ("box", "mesh"), ("mesh", "mesh"), ("box", "box")]


def rand_mesh(rng, scale, aspect):
    from scipy.spatial import ConvexHull
    kind = int(rng.integers(0, 3))
    n = int(rng.integers(4, 40))
    if kind == 0:       # points on an ellipsoid
        V = rng.normal(size=(n, 3))
        V /= np.linalg.norm(V, axis=1, keepdims=True)
    elif kind == 1:     # random box-like blob
        V = rng.uniform(-1, 1, size=(n + 4, 3))
    else:               # prism / frustum: two parallel polygons (face-parallel contacts)
        k = int(rng.integers(3, 9))
        a = np.arange(k) * 2 * math.pi / k
        r2 = rng.uniform(0.5, 1.0)
        V = np.concatenate([np.stack([np.cos(a), np.sin(a), -np.ones(k)], 1), np.stack([r2 * np.cos(a), r2 * np.sin(a), np.ones(k)], 1)])
    s = scale * np.exp(rng.uniform(-math.log(aspect), 0, size=3))
    s[int(rng.integers(0, 3))] = scale
    V = V * s
    h = ConvexHull(V)
    idx = np.sort(h.vertices)
    remap = {int(v): i for i, v in enumerate(idx)}
    V = V[idx]
    c = V.mean(0)
    F = []
    for tri in h.simplices:
        t = [remap[int(x)] for x in tri]
        a_, b_, c_ = V[t]
        if np.cross(b_ - a_, c_ - a_) @ (a_ - c) < 0:
            t = [t[0], t[2], t[1]]
        F.append(t)
    return V.astype(np.float32).astype(float).tolist(), F


def make_case(rng, pair, idx, nposes):
    t0, t1 = pair
    if rng.random() < 0.5:
        t0, t1 = t1, t0
    scale = float(10 ** rng.uniform(-2, 0))
    rel = float(10 ** rng.uniform(-1, 1)) if rng.random() < 0.4 else 1.0
    mclass = int(rng.integers(0, 3))
    geoms = []
    for k, t in enumerate((t0, t1)):
        aspect = float(rng.choice([1.5, 4.0, 12.0, 50.0], p=[0.35, 0.35, 0.2, 0.1]))
        sc = scale * (rel if k == 1 else 1.0)
        margin = [0.0, float(rng.uniform(0, 0.05)), float(rng.uniform(0, 0.05) * scale)][mclass] if (k == 0 or rng.random() < 0.5) else 0.0
        gk = {"type": t, "margin": margin, "gap": 0.0}
        if t == "mesh":
            gk["verts"], gk["faces"] = rand_mesh(rng, sc, min(aspect, 12.0))
            gk["size"] = [sc, sc, sc]
        else:
            gk["size"] = base.rand_size(rng, t, sc, aspect=aspect)
            if rng.random() < 0.25:
                gk["off_pos"] = [float(x) for x in rng.normal(size=3) * scale]
                gk["off_quat"] = [float(x) for x in base.rand_quat(rng)]
        geoms.append(gk)
    variant = str(rng.choice(["free", "free", "static", "mocap", "pair"]))
    if "mesh" in pair and variant == "pair":
        variant = "free"           # an explicit <pair> makes the compiler ask for the (absent) qhull hull
    c = {"geoms": geoms, "variant": variant, "body_swap": bool(rng.random() < 0.5), "scale": scale,
         "static_pos": [float(x) for x in rng.normal(size=3) * 0.3], "static_quat": [float(x) for x in base.rand_quat(rng)],
         "pair_margin": float(rng.choice([0.0, rng.uniform(0, 0.1) * scale])), "pair_gap": 0.0, "pair_swap": bool(rng.random() < 0.5),
         "seed": int(rng.integers(0, 2 ** 31)), "nposes": nposes, "idx": idx, "pair": "%s-%s" % pair,
         "multiccd": bool(rng.random() < 0.5), "ccd_tolerance": float(rng.choice([1e-6, 1e-6, 1e-5, 1e-4])),
         "ccd_iterations": 50 if rng.random() < 0.25 else 1000}
    return c


# ---- listed mechanisms (open C15 entries of known_findings.json, one entry per line of these lists) ---------------------------------
# A violation is relabelled only if the failed comparison is in the mechanism's explicit list AND the mechanism is confirmed for it.
LISTED = {
    # findings/C15-gjk-coincident-centres.md: gjk() leaves on its first statement when |centre1 - centre2| < tolerance and returns
    # that norm (0 up to rounding); mjc_Convex then emits no contact
    "ccd-coincident-centres": ("no-contact-although-distance-below-margin", "geomDistance-differs-from-reference"),
    # findings/C15-epa-from-touching-simplex.md: mjc_ccd 'assumes touching' when the GJK distance is <= tolerance and starts EPA from a
    # boundary simplex
    "ccd-touching-within-tolerance": ("geomDistance-differs-from-reference", "geomDistance-differs-from-contact-dist",
                                      "contact-dist-differs-from-reference", "contact-normal-does-not-realise-reported-distance",
                                      "contact-normal-reversed",
                                      # the same wrong depth seen through the universal invariant (a contact reported deeper than the
                                      # geoms overlap along its own normal): 0.0295 for touching cylinders, the write-up's own witness
                                      "contact-deeper-than-geometry-along-its-normal"),
}
LISTED["ccd-touching-within-tolerance"] += ("geomDistance-not-symmetric",)      # only with the tolerance counterfactual, see check_pose
# findings/C15-epa-cylinder-cap-exactly-parallel.md: EPA leaves unconverged (depth too shallow) when a cylinder's axis is EXACTLY
# parallel to a facet normal of the other geom (the cylinder support returns the cap centre for exactly axial directions)
LISTED["ccd-cylinder-cap-exactly-parallel-to-flat-face"] = ("geomDistance-differs-from-reference", "geomDistance-differs-from-contact-dist")
# which engine path must be in the touching band for each comparison: gd = un-inflated shapes (mj_geomDistance), c = shapes inflated by
# the margin (mjc_Convex contacts)
_TOUCH_PATH = {"geomDistance-differs-from-reference": ("gd",), "geomDistance-differs-from-contact-dist": ("gd", "c"),
               "contact-dist-differs-from-reference": ("c",), "contact-normal-does-not-realise-reported-distance": ("c",),
               "contact-deeper-than-geometry-along-its-normal": ("c",),
               "contact-normal-reversed": ("c",)}


def flat_normals(X):
    if X.kind == cx.CYLINDER:
        return X.axis[None, :]
    if X.kind in (cx.BOX, cx.MESH):
        return X.facets_edges()[0]
    return np.zeros((0, 3))


def cylinder_axis_exactly_along_flat_normal(A, B):
    """the cylinder whose axis is parallel (to rounding) to a facet normal / cylinder axis of the other geom, else None"""
    for X, Y in ((A, B), (B, A)):
        if X.kind == cx.CYLINDER:
            N = flat_normals(Y)
            if len(N) and float(np.abs(N @ X.axis).max()) > 1 - 5e-13:
                return X
    return None


def check_pose(P, S, obs, distmax, witness, final=True):
    """returns (regime, list of (signature, detail)) - violations are returned, not recorded, so that the caller can re-run the pose
    with a larger iteration limit first"""
    c = S.c
    out = []
    mechs = []          # (mechanism, test(check name) -> bool) for the listed mechanisms whose precondition this pose meets

    def viol(sig, **kw):
        chk = sig.split(":")[0]
        for name, test in mechs:
            if chk in LISTED[name] and test(chk):
                sig = name + ":" + sig
                break
        out.append((sig, dict(witness, **{k: (v.tolist() if isinstance(v, np.ndarray) else v) for k, v in kw.items()})))
    kA, kB = base.canonical(S, obs)
    A, B = S.shape(kA), S.shape(kB)
    ext = A.extent() + B.extent()
    size = ext
    scale = ext + float(np.linalg.norm(A.pos - B.pos))
    ccd_tol = float(c["ccd_tolerance"])
    tol = max(10 * ccd_tol, 1e-6 * size)
    pairname = cx.NAMES[A.kind] + "-" + cx.NAMES[B.kind]
    # direction tolerance: GJK/EPA bracket the *distance* within ccd_tolerance; the witness direction of a curved pair is only
    # accurate to first order (the separation along a direction off by an angle a drops by ~size*a^2), so the direction is
    # required to realise the distance within 100*tol + 1e-3*size for curved pairs and within tol for polytope pairs
    polytopes = A.kind in (cx.BOX, cx.MESH) and B.kind in (cx.BOX, cx.MESH) and S.margin + S.gap == 0     # a margin rounds the polytopes
    tolN = tol if polytopes else 100 * tol + 1e-3 * size
    isbox = (A.kind, B.kind) == (cx.BOX, cx.BOX)
    con = obs["con"]
    gdA, gdB = (obs["gd01"], obs["gd10"]) if kA == 0 else (obs["gd10"], obs["gd01"])
    ftA = obs["ft01"] if kA == 0 else obs["ft10"]
    ftB = obs["ft10"] if kA == 0 else obs["ft01"]
    mg = S.margin + S.gap

    # universal invariants on the CCD contacts as well
    for i, k in enumerate(con):
        n = k["frame"][0]
        if not (np.isfinite(k["frame"]).all() and np.isfinite(k["dist"])):
            viol("contact-not-finite:" + pairname, contact=i)
            return "bad", out
        if abs(float(n @ n) - 1) > 1e-9:
            viol("contact-normal-not-unit:" + pairname, contact=i, norm2=float(n @ n))
        if k["dist"] > mg + 1e-12 * max(scale, mg):
            viol("contact-dist-exceeds-margin:" + pairname, contact=i, dist=k["dist"], margin=mg)
    if not (np.isfinite(gdA) and np.isfinite(gdB)):
        viol("geomDistance-not-finite:" + pairname, gd=[gdA, gdB])
        return "bad", out

    # ---- reference
    ref = cx.signed_distance(A, B)
    if ref["separated"]:
        if ref["upper"] - ref["lower"] > 0.1 * tol:
            P.count("skipped_reference_not_certified")
            return "skip", out
        lo, hi = ref["lower"], ref["upper"]
        regime = "sep"
    else:
        lo, hi = ref["lower"], (ref["upper"] if ref["exact"] else None)      # -depth_ref <= d (always); d <= -depth_ref if exact
        regime = "pen-exact" if ref["exact"] else "pen-bound"
    if regime == "pen-bound":
        # curved pair: ref["lower"] = -(min of the overlap width over sampled+refined directions) is an upper-bound certificate of the
        # depth only.  Every direction the engine reports is one more candidate for that bound (sound: the width along ANY direction
        # bounds the depth from above).  The other side of the bracket comes from the certified inner-polytope bound
        # cx.penetration_certified (lower bound of the depth), computed only when an engine value is shallower than lo + tol
        cand = [k["frame"][0] for k in con]
        for g, ft in ((gdA, ftA), (gdB, ftB)):
            v = ft[3:] - ft[:3]
            if g < 0 and float(v @ v) > 0:
                cand.append(-v if ft is ftA else v)
        for n_ in cand:
            nn = float(np.linalg.norm(n_))
            if nn > 0 and np.isfinite(nn):
                lo = max(lo, -cx.width(A, B, n_ / nn))
        vals = [g for g in (gdA, gdB) if g < distmax - tol] + ([min(k["dist"] for k in con)] if con and not isbox else [])
        if any(v > lo + tol for v in vals):
            cb = cx.penetration_certified(A, B, hints=[ref["n"]] + cand, eps=0.1 * tol)
            P.count("pen_bound_brackets_certified" if cb["certified"] else "pen_bound_brackets_not_certified")
            if not cb["certified"]:
                P.count("skipped_reference_not_certified")
                return "skip", out
            lo, hi = max(lo, -cb["upper"]), -cb["lower"]
            P.note_max("pen_bound_certified_width_over_tol", (hi - lo) / tol)
        else:
            hi = lo            # every engine value is within tol of (or deeper than) the certified upper bound of the depth: the
            #                    two-sided test |d + depth_ub| <= tol needs no lower bound of the depth
    P.note_max("ref_bracket_width_rel", (hi - lo) / size)

    # ---- listed mechanisms: structural preconditions, decided from the reference BEFORE any comparison
    cd = float(np.linalg.norm(A.pos - B.pos))
    if base.ccd_coincident_centres(A, B, max(ccd_tol, 1e-15)):
        P.count("poses_ccd-coincident-centres")
        # confirmed when the engine returned the value of the first-iteration exit, |centre1 - centre2| (0 up to rounding), in both
        # orders, resp. no contact at all
        gd0 = abs(gdA - cd) <= 1e-15 + 1e-12 * cd and abs(gdB - cd) <= 1e-15 + 1e-12 * cd
        mechs.append(("ccd-coincident-centres", lambda chk: (not con and gd0) if chk.startswith("no-contact") else gd0))
    # touching: the true distance of the shapes is within 2*ccd_tolerance of zero (un-inflated shapes: mj_geomDistance) or of the
    # margin (contacts: mjc_Convex works on shapes inflated by the margin).  Takes precedence over nothing else: it is the only
    # region class left
    band = 2 * ccd_tol
    touch = set()
    if lo >= -band and hi <= band:
        touch.add("gd")
        if mg == 0:
            touch.add("c")
    if mg > 0 and lo >= mg - band and hi <= mg + band:
        touch.add("c")
    cache = {}
    if touch:
        P.count("poses_ccd-touching-within-tolerance")

        def tolerance_counterfactual():
            # argument-order asymmetry is covered ONLY if the engine's own branch condition is shown to cause it: with ccd_tolerance
            # set below the (certified, positive) true distance mjc_ccd no longer 'assumes touching', and mj_geomDistance must then
            # be right and equal in both orders
            if "tolcf" not in cache:
                ok = False
                if "gd" in touch and ref["separated"] and hi > 1e-13:
                    # hi = |x-y| of two actual points of the shapes; if the true distance were much smaller than hi/4 the engine
                    # would still take the touching branch and the counterfactual would merely fail (conservative)
                    old_tol = float(S.m.opt["ccd_tolerance"])
                    S.m.opt["ccd_tolerance"] = hi / 4
                    try:
                        f1, f2 = np.zeros(6), np.zeros(6)
                        g1 = S.L.call("mj_geomDistance", S.m, S.d, S.gid[0], S.gid[1], float(distmax), f1, ret="f64")
                        g2 = S.L.call("mj_geomDistance", S.m, S.d, S.gid[1], S.gid[0], float(distmax), f2, ret="f64")
                        ok = all(min(lo, distmax) - tol <= g <= min(hi, distmax) + tol for g in (g1, g2)) and abs(g1 - g2) <= tol
                    finally:
                        S.m.opt["ccd_tolerance"] = old_tol
                cache["tolcf"] = ok
                P.count("touching_asymmetry_tolerance_counterfactual_" + ("confirmed" if ok else "failed"))
            return cache["tolcf"]
        mechs.append(("ccd-touching-within-tolerance", lambda chk: tolerance_counterfactual() if chk == "geomDistance-not-symmetric"
                      else any(p_ in touch for p_ in _TOUCH_PATH.get(chk, ()))))
    cyl = cylinder_axis_exactly_along_flat_normal(A, B) if (not touch and not ref["separated"]) else None
    if cyl is not None:
        P.count("poses_ccd-cylinder-cap-exactly-parallel-to-flat-face")

        def tilt_counterfactual():
            # the defect needs EXACTLY axial support directions and under-reports the depth (EPA leaves unconverged).  Confirmed when
            # (i) both mj_geomDistance values of the pose are too SHALLOW (above the certified bracket), and (ii) tilting geom 1 (always
            # on a free body) by +-1e-6 rad about two axes perpendicular to the cylinder axis - the true depth changes by < 1e-6*size,
            # far below tol - gives, in all four tilted poses and both argument orders, a value within tol of that pose's certified depth
            if "tilt" not in cache:
                ok = all(g > hi + tol for g in (gdA, gdB))
                qsave = np.array(S.d["qpos"]).copy()
                try:
                    X = S.shape(1)
                    e = np.eye(3)[int(np.argmin(np.abs(cyl.axis)))]
                    p1 = np.cross(cyl.axis, e)
                    p1 /= np.linalg.norm(p1)
                    p2 = np.cross(cyl.axis, p1)
                    a = 1e-6
                    for perp in (p1, -p1, p2, -p2):
                        if not ok:
                            break
                        S.set_geom_pose(1, X.pos, base.qmul(np.array([math.cos(a / 2), *(math.sin(a / 2) * perp)]), base.mat2quat(X.R)))
                        S.d.forward()
                        A2, B2 = S.shape(kA), S.shape(kB)
                        cb2 = cx.penetration_certified(A2, B2, eps=0.1 * tol)
                        f1, f2 = np.zeros(6), np.zeros(6)
                        g1 = S.L.call("mj_geomDistance", S.m, S.d, S.gid[0], S.gid[1], 10.0 * scale, f1, ret="f64")
                        g2 = S.L.call("mj_geomDistance", S.m, S.d, S.gid[1], S.gid[0], 10.0 * scale, f2, ret="f64")
                        ok = cb2["certified"] and all(-cb2["upper"] - tol <= g <= -cb2["lower"] + tol for g in (g1, g2))
                finally:
                    S.d["qpos"][:] = qsave
                    S.d.forward()
                cache["tilt"] = bool(ok)
                P.count("cylinder_cap_tilt_counterfactual_" + ("confirmed" if ok else "failed"))
            return cache["tilt"]
        mechs.append(("ccd-cylinder-cap-exactly-parallel-to-flat-face", lambda chk: tilt_counterfactual()))

    # ---- mj_geomDistance: swap symmetry
    e = abs(gdA - gdB)
    P.note_max("geomdist_asym_over_tol", e / tol)
    if e > tol:
        viol("geomDistance-not-symmetric:" + pairname, gd_ab=gdA, gd_ba=gdB, tol=tol, ref=[lo, hi])
    # witness segments: reversed direction on swap (when a direction exists)
    if gdA < distmax and gdB < distmax and abs(gdA) > 100 * tol:
        va, vb = ftA[3:] - ftA[:3], ftB[3:] - ftB[:3]
        na, nb = np.linalg.norm(va), np.linalg.norm(vb)
        if na > 0 and nb > 0:
            # both must realise (almost) the same separation; normals opposite up to the flatness of the optimum
            sa = cx.sep(A, B, va / na * (1 if gdA > 0 else -1))
            sb = cx.sep(A, B, -vb / nb * (1 if gdB > 0 else -1))
            for nm, sv, g in (("ab", sa, gdA), ("ba", sb, gdB)):
                if abs(sv - g) > tolN:
                    if g < 0 and not polytopes:
                        # penetrating curved (or margin-rounded) pair: the statement of C15 asks for the depth and its swap symmetry;
                        # that EPA's final face normal realises the depth is not part of it (findings/C15-epa-stale-upper-bound.md):
                        # recorded as evidence, not part of the verdict
                        P.count("evidence_curved_penetration_fromto_direction_does_not_realise_depth")
                        P.note_max("evidence_curved_penetration_direction_defect_over_size", abs(sv - g) / size)
                        continue
                    viol("geomDistance-fromto-direction-does-not-realise-distance:%s" % pairname, order=nm, sep_along_fromto=sv, gd=g, tol=tol,
                         fromto=(ftA if nm == "ab" else ftB))
            P.count("fromto_checked")
    # ---- mj_geomDistance against the reference (two-sided in every regime)
    for nm, g in (("ab", gdA), ("ba", gdB)):
        if hi >= distmax - tol and g >= distmax - tol:
            continue
        if g > min(hi, distmax) + tol or g < min(lo, distmax) - tol:
            viol("geomDistance-differs-from-reference:%s:%s" % (regime, pairname), order=nm, gd=g, ref_lower=lo, ref_upper=hi, distmax=distmax, tol=tol)
        P.note_max("geomdist_vs_ref_over_tol:" + regime, max(g - min(hi, distmax), min(lo, distmax) - g, 0) / tol)
    # ---- contacts (mjc_Convex; box-box contacts come from the analytic collider and are C13's subject)
    if isbox:
        return regime + ":boxbox-geomdist-only", out
    if not con:
        if hi < mg - tol:
            viol("no-contact-although-distance-below-margin:%s:%s" % (regime, pairname), ref_lower=lo, ref_upper=hi, margin=mg, gd=gdA)
        return regime + ":nocontact", out
    i0 = int(np.argmin([k["dist"] for k in con]))
    k0 = con[i0]
    d0, n0 = k0["dist"], k0["frame"][0]
    if d0 > hi + tol or d0 < lo - tol:
        viol("contact-dist-differs-from-reference:%s:%s" % (regime, pairname), dist=d0, ref_lower=lo, ref_upper=hi, tol=tol, ncon=len(con), normal=n0)
    P.note_max("contact_vs_ref_over_tol:" + regime, max(d0 - hi, lo - d0, 0) / tol)
    s0 = cx.sep(A, B, n0)
    P.note_max("normal_realises_defect_over_tol", abs(s0 - d0) / tol)
    if abs(s0 - d0) > tolN:
        flipped = abs(cx.sep(A, B, -n0) - d0) <= tolN
        if d0 < 0 and not polytopes:
            # see above: evidence only for penetrating curved pairs (EPA returns its last face, whose normal can be far from the
            # optimal direction although the depth is right)
            P.count("evidence_curved_penetration_normal_does_not_realise_depth")
            if flipped:
                P.count("evidence_curved_penetration_normal_reversed")
            P.note_max("evidence_curved_penetration_direction_defect_over_size", abs(s0 - d0) / size)
        else:
            viol("contact-normal-%s:%s:%s" % ("reversed" if flipped else "does-not-realise-reported-distance", regime, pairname), dist=d0, sep_along_normal=s0,
                 normal=n0, ref_normal=ref["n"], ref_lower=lo, ref_upper=hi, tol=tol)
    e = abs(d0 - gdA)
    if d0 < distmax - tol and e > tol:
        viol("geomDistance-differs-from-contact-dist:%s:%s" % (regime, pairname), contact=d0, gd=gdA, tol=tol, ref=[lo, hi])
    for i, k in enumerate(con):
        si = cx.sep(A, B, k["frame"][0])
        if k["dist"] < si - tolN:
            viol("contact-deeper-than-geometry-along-its-normal:%s" % pairname, contact=i, dist=k["dist"], sep_along_normal=si, ncon=len(con))
    if len(con) > 1:
        P.count("poses_multicontact")
    return regime + ":contact", out


def run_case(c, P, poses=None):
    L = drv.Lib("rel")
    try:
        S = base.Scene(L, c)
    except drv.MjError as e:
        P.count("model_rejected")
        P.count("model_rejected:" + str(e)[:50])
        return
    P.count("models")
    P.count("models_variant_" + c["variant"])
    P.count("models_multiccd_" + ("on" if c["multiccd"] else "off"))
    rng = np.random.default_rng(c["seed"])
    S.d.forward()
    for j in range(c["nposes"]):
        pseed = int(rng.integers(0, 2 ** 31))
        if poses is not None and j not in poses:
            continue
        r = np.random.default_rng(pseed)
        pclass = ["far", "margin", "touch", "shallow", "deep", "inside", "coincident"][int(r.choice(7, p=[0.15, 0.15, 0.15, 0.2, 0.2, 0.13, 0.02]))]
        oclass = base.ORI_CLASSES[int(r.integers(0, len(base.ORI_CLASSES)))]
        P0, q0, P1, q1 = base.plan_pose(r, S, pclass, oclass)
        if q0 is not None:
            S.set_geom_pose(0, P0, q0)
        S.set_geom_pose(1, P1, q1)
        distmax = float(r.choice([10.0, 10.0, S.margin + S.gap, c["scale"] * 10 ** r.uniform(-2, 1)]))
        witness = {"case": c, "pose": j, "pclass": pclass, "oclass": oclass, "xml": S.xml, "distmax": distmax}
        S.m.opt["ccd_iterations"] = int(c["ccd_iterations"])
        try:
            obs = base.observe(S, distmax)
            witness["qpos"] = np.array(S.d["qpos"]).tolist()
            regime, viols = check_pose(P, S, obs, distmax, witness)
            if viols and not all(v[0].startswith("ccd-coincident") for v in viols):
                S.m.opt["ccd_iterations"] = 10 * int(c["ccd_iterations"])
                obs2 = base.observe(S, distmax)
                regime2, viols2 = check_pose(core.Part(), S, obs2, distmax, witness)
                if not viols2:
                    P.count("skipped_iteration_limited")
                    P.count("poses")
                    P.case(nontrivial=False)
                    continue
                viols = viols2
        except drv.MjError as e:
            P.violation("engine-error-in-convex-collision:" + str(e).split(":")[0][:40], dict(witness, error=str(e)))
            S.d = S.m.make_data()
            continue
        for sig, det in viols:
            P.violation(sig, det)
        P.count("poses")
        P.count("pair:" + c["pair"])
        P.count("regime:" + regime)
        P.note_max("ncon_max", obs["ncon"])
        nontrivial = obs["ncon"] > 0 or obs["gd01"] < distmax
        P.case(key="%s|%s|%s|%s|%s|%d" % (c["pair"], c["variant"], pclass, oclass, regime, c["multiccd"]), nontrivial=nontrivial,
               sample={"pair": c["pair"], "variant": c["variant"], "pclass": pclass, "oclass": oclass, "ncon": obs["ncon"],
                       "dist": obs["con"][0]["dist"] if obs["ncon"] else None, "geomdist": obs["gd01"], "regime": regime})


def worker(c):
    P = core.Part()
    for cc in c["batch"]:
        run_case(cc, P)
    return P.result()


def cases(ctx):
    rng = ctx.rng
    nposes = 8
    ncase = ctx.pick(160, 3000)
    return [make_case(rng, CCD_PAIRS[i % len(CCD_PAIRS)], i, nposes) for i in range(ncase)]


def run(ctx):
    build.ensure("rel")
    st = cx.self_test(n=36)
    ctx.extra["reference_self_test"] = {k: float(v) for k, v in st.items()}
    if st["dist_gap"] > 1e-9 or st["pen_exact_vs_sampled"] > 1e-9 or st.get("pen_exact_vs_refined", 0) > 1e-6 or st.get("pen_certified_bracket", 0) > 1e-9:
        ctx.inconclusive("reference self test failed: %s" % st)
        return
    cs = cases(ctx)
    base.run_batches(ctx, "vf.props.c15", cs, per=5)
    n = max(1, ctx.counters.get("poses", 0))
    sk = ctx.counters.get("skipped_iteration_limited", 0) + ctx.counters.get("skipped_reference_not_certified", 0)
    ctx.extra["skipped_fraction"] = sk / n
    if sk > 0.02 * n and not ctx.violations:
        ctx.inconclusive("%d of %d poses skipped (iteration limit / uncertified reference) > 2%%" % (sk, n))
    if ctx.counters.get("model_rejected", 0) > 0.02 * len(cs):
        ctx.inconclusive("too many generated models rejected (%d)" % ctx.counters.get("model_rejected", 0))
    ctx.min_nontrivial = ctx.pick(250, 1200)


def replay(ctx, path):
    rec = json.load(open(path))
    det = rec["detail"]
    P = core.Part()
    run_case(det["case"], P, poses={det["pose"]})
    ctx.merge(P.result())
    ctx.min_nontrivial = 0
