"""C15 Convex narrow-phase (native GJK/EPA) distances are correct and swap-symmetric."""
import json
import math

import numpy as np

from .. import build, core, drv, par
from ..ref import convex as cx
from . import c13 as base

LEVEL = "exploration"
RULE = ("reference-model oracle on two-geom scenes whose pair is handled by the native GJK/EPA (mjc_Convex for contacts: ellipsoid, "
        "cylinder, box, capsule, sphere and convex inline meshes in every combination without an analytic collider; mj_geomDistance "
        "also for box-box): a case = (type pair, sizes over 2 decades, aspect ratio up to 50, margin 0..0.1, multiccd on/off, "
        "ccd_tolerance 1e-6..1e-4, body variant, geom order) x relative poses (separated / in margin / touching / shallow / deep / "
        "centre-inside; random, axis-aligned, face-parallel, edge, slightly tilted). The engine's contact distance/normal and "
        "mj_geomDistance (both argument orders, with witness segment) are compared with vf/ref/convex.py: certified closest distance "
        "(lower/upper bracket from support functions) when separated, exact minimum-translation depth for polytope pairs and an upper "
        "bound certificate otherwise; the reported normal must realise the reported depth. distinct = (pair, variant, pose class, "
        "orientation class, regime, multiccd); non-trivial = a contact or a finite geom distance was produced")
ASSUMPTIONS = [
    "NOT DECIDABLE HERE: the clause 'the libccd path ... agree with each other' - libccd is absent from this build (the stand-in "
    "traps, mjDSBL_NATIVECCD aborts the process), so only the native pipeline is observed; mjDSBL_NATIVECCD is never set",
    "qhull is absent: mesh geoms are small convex polytopes given with explicit faces and compiled without a hull (contype=0), their "
    "collision bits are switched on in mjModel afterwards; the collider then uses the exhaustive vertex support (no hill-climbing "
    "graph, no polygon data for the multi-contact clipping); the reference uses the float32 vertices stored in mjModel",
    "tolerance = max(10*ccd_tolerance, 1e-6*size) as in the design note; ccd_iterations is raised to 1000 in most cases; with the "
    "default 50 a mismatch that disappears when the same pose is re-run with 1000 iterations is the documented effect of the "
    "iteration limit (doc XMLreference ccd_iterations: 'rarely needs to be adjusted, except ... very large aspect ratios'): skipped "
    "and counted, inconclusive above 2%",
    "penetration: EPA returns the distance of the nearest polytope face, a lower bound of the depth; the check requires "
    "(i) the depth lies in the reference bracket: >= ... it may not exceed the reference's best direction + tol (exact two-sided for "
    "polytope pairs, upper-bound certificate otherwise), (ii) the overlap along the reported normal, recomputed from the reference "
    "support functions, equals the reported depth within tol for polytope pairs and within 100*tol + 1e-3*size for curved pairs (EPA "
    "stops on upper-lower < tolerance where 'upper' may stem from an earlier face, so the final direction is only first-order accurate)",
    "multi-contact manifolds (multiccd, box/mesh single shot): each contact must not be deeper than the geometry along its normal; "
    "the deepest is compared with the reference",
    "known open findings (out/findings/C15-*.md) are classified by a geometric mechanism decided from the reference alone: centres "
    "closer than ccd_tolerance; true distance within 2*ccd_tolerance of zero (or of the margin for contacts); penetrating cylinder cap "
    "parallel to a flat face; and, for curved penetrating pairs whose depth IS inside the reference bracket, a returned direction that "
    "breaks EPA's own stopping rule (rate-limited: more than 0.5% of the penetrating poses is a violation)",
    "contact positions are C13's subject; geom poses are read back from the engine",
]

CCD_PAIRS = [("sphere", "ellipsoid"), ("sphere", "mesh"), ("capsule", "ellipsoid"), ("capsule", "cylinder"), ("capsule", "mesh"),
             ("ellipsoid", "ellipsoid"), ("ellipsoid", "cylinder"), ("ellipsoid", "box"), ("ellipsoid", "mesh"),
             ("cylinder", "cylinder"), ("cylinder", "box"), ("cylinder", "mesh"), ("box", "mesh"), ("mesh", "mesh"), ("box", "box")]


def rand_mesh(rng, scale, aspect):
    from scipy.spatial import ConvexHull
    kind = int(rng.integers(0, 3))
    n = int(rng.integers(4, 40))
    if kind == 0:       # points on an ellipsoid
        V = rng.normal(size=(n, 3))
        V /= np.linalg.norm(V, axis=1, keepdims=True)
    elif kind == 1:     # random box-like blob
        V = rng.uniform(-1, 1, size=(n + 4, 3))
    else:               # prism / frustum: two parallel polygons (face-parallel contacts)
        k = int(rng.integers(3, 9))
        a = np.arange(k) * 2 * math.pi / k
        r2 = rng.uniform(0.5, 1.0)
        V = np.concatenate([np.stack([np.cos(a), np.sin(a), -np.ones(k)], 1), np.stack([r2 * np.cos(a), r2 * np.sin(a), np.ones(k)], 1)])
    s = scale * np.exp(rng.uniform(-math.log(aspect), 0, size=3))
    s[int(rng.integers(0, 3))] = scale
    V = V * s
    h = ConvexHull(V)
    idx = np.sort(h.vertices)
    remap = {int(v): i for i, v in enumerate(idx)}
    V = V[idx]
    c = V.mean(0)
    F = []
    for tri in h.simplices:
        t = [remap[int(x)] for x in tri]
        a_, b_, c_ = V[t]
        if np.cross(b_ - a_, c_ - a_) @ (a_ - c) < 0:
            t = [t[0], t[2], t[1]]
        F.append(t)
    return V.astype(np.float32).astype(float).tolist(), F


def make_case(rng, pair, idx, nposes):
    t0, t1 = pair
    if rng.random() < 0.5:
        t0, t1 = t1, t0
    scale = float(10 ** rng.uniform(-2, 0))
    rel = float(10 ** rng.uniform(-1, 1)) if rng.random() < 0.4 else 1.0
    mclass = int(rng.integers(0, 3))
    geoms = []
    for k, t in enumerate((t0, t1)):
        aspect = float(rng.choice([1.5, 4.0, 12.0, 50.0], p=[0.35, 0.35, 0.2, 0.1]))
        sc = scale * (rel if k == 1 else 1.0)
        margin = [0.0, float(rng.uniform(0, 0.05)), float(rng.uniform(0, 0.05) * scale)][mclass] if (k == 0 or rng.random() < 0.5) else 0.0
        gk = {"type": t, "margin": margin, "gap": 0.0}
        if t == "mesh":
            gk["verts"], gk["faces"] = rand_mesh(rng, sc, min(aspect, 12.0))
            gk["size"] = [sc, sc, sc]
        else:
            gk["size"] = base.rand_size(rng, t, sc, aspect=aspect)
            if rng.random() < 0.25:
                gk["off_pos"] = [float(x) for x in rng.normal(size=3) * scale]
                gk["off_quat"] = [float(x) for x in base.rand_quat(rng)]
        geoms.append(gk)
    variant = str(rng.choice(["free", "free", "static", "mocap", "pair"]))
    if "mesh" in pair and variant == "pair":
        variant = "free"           # an explicit <pair> makes the compiler ask for the (absent) qhull hull
    c = {"geoms": geoms, "variant": variant, "body_swap": bool(rng.random() < 0.5), "scale": scale,
         "static_pos": [float(x) for x in rng.normal(size=3) * 0.3], "static_quat": [float(x) for x in base.rand_quat(rng)],
         "pair_margin": float(rng.choice([0.0, rng.uniform(0, 0.1) * scale])), "pair_gap": 0.0, "pair_swap": bool(rng.random() < 0.5),
         "seed": int(rng.integers(0, 2 ** 31)), "nposes": nposes, "idx": idx, "pair": "%s-%s" % pair,
         "multiccd": bool(rng.random() < 0.5), "ccd_tolerance": float(rng.choice([1e-6, 1e-6, 1e-5, 1e-4])),
         "ccd_iterations": 50 if rng.random() < 0.25 else 1000}
    return c


def shape_min(S):
    return S.minsize()


def flat_normals(X):
    if X.kind == cx.CYLINDER:
        return X.axis[None, :]
    if X.kind in (cx.BOX, cx.MESH):
        return X.facets_edges()[0]
    return np.zeros((0, 3))


def cylinder_cap_parallel_to_flat_face(A, B):
    """penetrating pair in which a cylinder cap is parallel (1e-6 rad) to a flat face of the other geom
    (findings/C15-epa-unconverged-cylinder-cap-on-flat-face.md)"""
    for X, Y in ((A, B), (B, A)):
        if X.kind == cx.CYLINDER:
            N = flat_normals(Y)
            if len(N) and float(np.abs(N @ X.axis).max()) > 1 - 5e-13:
                return True
    return False


def check_pose(P, S, obs, distmax, witness, final=True):
    """returns (regime, list of (signature, detail)) - violations are returned, not recorded, so that the caller can re-run the pose
    with a larger iteration limit first"""
    c = S.c
    out = []
    viol = lambda sig, **kw: out.append((sig, dict(witness, **{k: (v.tolist() if isinstance(v, np.ndarray) else v) for k, v in kw.items()})))
    kA, kB = base.canonical(S, obs)
    A, B = S.shape(kA), S.shape(kB)
    ext = A.extent() + B.extent()
    size = ext
    scale = ext + float(np.linalg.norm(A.pos - B.pos))
    ccd_tol = float(c["ccd_tolerance"])
    tol = max(10 * ccd_tol, 1e-6 * size)
    pairname = cx.NAMES[A.kind] + "-" + cx.NAMES[B.kind]
    # direction tolerance: GJK/EPA bracket the *distance* within ccd_tolerance; the witness direction of a curved pair is only
    # accurate to first order (the separation along a direction off by an angle a drops by ~size*a^2), so the direction is
    # required to realise the distance within 100*tol + 1e-3*size for curved pairs and within tol for polytope pairs
    polytopes = A.kind in (cx.BOX, cx.MESH) and B.kind in (cx.BOX, cx.MESH) and S.margin + S.gap == 0     # a margin rounds the polytopes
    tolN = tol if polytopes else 100 * tol + 1e-3 * size
    mech = "ccd-coincident-centres:" if base.ccd_coincident_centres(A, B, max(ccd_tol, 1e-15)) else ""
    if mech:
        P.count("poses_ccd-coincident-centres")
    isbox = (A.kind, B.kind) == (cx.BOX, cx.BOX)
    con = obs["con"]
    gdA, gdB = (obs["gd01"], obs["gd10"]) if kA == 0 else (obs["gd10"], obs["gd01"])
    ftA = obs["ft01"] if kA == 0 else obs["ft10"]
    ftB = obs["ft10"] if kA == 0 else obs["ft01"]
    mg = S.margin + S.gap

    # universal invariants on the CCD contacts as well
    for i, k in enumerate(con):
        n = k["frame"][0]
        if not (np.isfinite(k["frame"]).all() and np.isfinite(k["dist"])):
            viol(mech + "contact-not-finite:" + pairname, contact=i)
            return "bad", out
        if abs(float(n @ n) - 1) > 1e-9:
            viol(mech + "contact-normal-not-unit:" + pairname, contact=i, norm2=float(n @ n))
        if k["dist"] > mg + 1e-12 * max(scale, mg):
            viol(mech + "contact-dist-exceeds-margin:" + pairname, contact=i, dist=k["dist"], margin=mg)
    if not (np.isfinite(gdA) and np.isfinite(gdB)):
        viol(mech + "geomDistance-not-finite:" + pairname, gd=[gdA, gdB])
        return "bad", out

    # ---- reference
    ref = cx.signed_distance(A, B)
    if ref["separated"]:
        if ref["upper"] - ref["lower"] > 0.1 * tol:
            P.count("skipped_reference_not_certified")
            return "skip", out
        lo, hi = ref["lower"], ref["upper"]
        regime = "sep"
    else:
        lo, hi = ref["lower"], (ref["upper"] if ref["exact"] else 0.0)      # -depth_ref <= d (always); d <= -depth_ref if exact
        regime = "pen-exact" if ref["exact"] else "pen-bound"
    P.note_max("ref_bracket_width_rel", (hi - lo) / size if ref["separated"] or ref["exact"] else 0.0)
    # mechanism class of findings/C15-epa-from-touching-simplex.md: the true distance of the (margin-inflated, for contacts) shapes is
    # within ccd_tolerance of zero, where mjc_ccd "assumes touching" and starts EPA from a boundary simplex
    if not mech and not ref["separated"] and cylinder_cap_parallel_to_flat_face(A, B):
        mech = "ccd-cylinder-cap-parallel-to-flat-face:"
        P.count("poses_ccd-cylinder-cap-parallel-to-flat-face")
    band = 2 * ccd_tol
    if not mech and ((lo >= -band and hi <= band) or (mg > 0 and lo >= mg - band and (hi if regime != "pen-bound" else lo) <= mg + band)):
        mech = "ccd-touching-within-tolerance:"
        P.count("poses_ccd-touching-within-tolerance")

    # ---- mj_geomDistance: swap symmetry
    e = abs(gdA - gdB)
    P.note_max("geomdist_asym_over_tol", e / tol)
    if e > tol:
        viol(mech + "geomDistance-not-symmetric:" + pairname, gd_ab=gdA, gd_ba=gdB, tol=tol, ref=[lo, hi])
    # witness segments: reversed direction on swap (when a direction exists)
    if gdA < distmax and gdB < distmax and abs(gdA) > 100 * tol:
        va, vb = ftA[3:] - ftA[:3], ftB[3:] - ftB[:3]
        na, nb = np.linalg.norm(va), np.linalg.norm(vb)
        if na > 0 and nb > 0:
            # both must realise (almost) the same separation; normals opposite up to the flatness of the optimum
            sa = cx.sep(A, B, va / na * (1 if gdA > 0 else -1))
            sb = cx.sep(A, B, -vb / nb * (1 if gdB > 0 else -1))
            for nm, sv, g in (("ab", sa, gdA), ("ba", sb, gdB)):
                if abs(sv - g) > tolN and not mech:
                    pre = ""
                    if g < 0 and not polytopes:
                        pre = "ccd-epa-unconverged-face:"
                    viol(pre + "geomDistance-fromto-direction-does-not-realise-distance:%s" % pairname, order=nm, sep_along_fromto=sv, gd=g, tol=tol,
                         fromto=(ftA if nm == "ab" else ftB))
            P.count("fromto_checked")
    # ---- mj_geomDistance against the reference
    for nm, g in (("ab", gdA), ("ba", gdB)):
        if hi >= distmax - tol and g >= distmax - tol:
            continue
        if g > min(hi, distmax) + tol or g < min(lo, distmax) - tol:
            viol(mech + "geomDistance-differs-from-reference:%s:%s" % (regime, pairname), order=nm, gd=g, ref_lower=lo, ref_upper=hi, distmax=distmax, tol=tol)
        P.note_max("geomdist_vs_ref_over_tol:" + regime, max(g - min(hi, distmax), min(lo, distmax) - g, 0) / tol)
    # a reported depth must be realised along the witness direction (penetration; exact or not)
    # ---- contacts (mjc_Convex; box-box contacts come from the analytic collider and are C13's subject)
    if isbox:
        return regime + ":boxbox-geomdist-only", out
    if not con:
        if hi < mg - tol:
            viol(mech + "no-contact-although-distance-below-margin:%s:%s" % (regime, pairname), ref_lower=lo, ref_upper=hi, margin=mg, gd=gdA)
        return regime + ":nocontact", out
    i0 = int(np.argmin([k["dist"] for k in con]))
    k0 = con[i0]
    d0, n0 = k0["dist"], k0["frame"][0]
    if d0 > hi + tol or d0 < lo - tol:
        viol(mech + "contact-dist-differs-from-reference:%s:%s" % (regime, pairname), dist=d0, ref_lower=lo, ref_upper=hi, tol=tol, ncon=len(con), normal=n0)
    P.note_max("contact_vs_ref_over_tol:" + regime, max(d0 - hi, lo - d0, 0) / tol)
    s0 = cx.sep(A, B, n0)
    P.note_max("normal_realises_defect_over_tol", abs(s0 - d0) / tol)
    if abs(s0 - d0) > tolN:
        flipped = abs(cx.sep(A, B, -n0) - d0) <= tolN
        pre = mech
        if not mech and d0 < 0 and not polytopes and lo - tol <= d0 <= hi + tol:
            # EPA's own stopping rule is (overlap along the face normal) - depth < tolerance: a result that violates it by more than
            # tolN while the depth itself is inside the reference bracket left EPA through a non-converged exit
            pre = "ccd-epa-unconverged-face:"
        viol(pre + "contact-normal-%s:%s:%s" % ("reversed" if flipped else "does-not-realise-reported-distance", regime, pairname), dist=d0, sep_along_normal=s0, normal=n0,
             ref_normal=ref["n"], ref_lower=lo, ref_upper=hi, tol=tol)
    e = abs(d0 - gdA)
    if d0 < distmax - tol and e > tol:
        viol(mech + "geomDistance-differs-from-contact-dist:%s:%s" % (regime, pairname), contact=d0, gd=gdA, tol=tol, ref=[lo, hi])
    for i, k in enumerate(con):
        si = cx.sep(A, B, k["frame"][0])
        if k["dist"] < si - tolN:
            viol(mech + "contact-deeper-than-geometry-along-its-normal:%s" % pairname, contact=i, dist=k["dist"], sep_along_normal=si, ncon=len(con))
    if len(con) > 1:
        P.count("poses_multicontact")
    return regime + ":contact", out


def run_case(c, P, poses=None):
    L = drv.Lib("rel")
    try:
        S = base.Scene(L, c)
    except drv.MjError as e:
        P.count("model_rejected")
        P.count("model_rejected:" + str(e)[:50])
        return
    P.count("models")
    P.count("models_variant_" + c["variant"])
    P.count("models_multiccd_" + ("on" if c["multiccd"] else "off"))
    rng = np.random.default_rng(c["seed"])
    S.d.forward()
    for j in range(c["nposes"]):
        pseed = int(rng.integers(0, 2 ** 31))
        if poses is not None and j not in poses:
            continue
        r = np.random.default_rng(pseed)
        pclass = ["far", "margin", "touch", "shallow", "deep", "inside", "coincident"][int(r.choice(7, p=[0.15, 0.15, 0.15, 0.2, 0.2, 0.13, 0.02]))]
        oclass = base.ORI_CLASSES[int(r.integers(0, len(base.ORI_CLASSES)))]
        P0, q0, P1, q1 = base.plan_pose(r, S, pclass, oclass)
        if q0 is not None:
            S.set_geom_pose(0, P0, q0)
        S.set_geom_pose(1, P1, q1)
        distmax = float(r.choice([10.0, 10.0, S.margin + S.gap, c["scale"] * 10 ** r.uniform(-2, 1)]))
        witness = {"case": c, "pose": j, "pclass": pclass, "oclass": oclass, "xml": S.xml, "distmax": distmax}
        S.m.opt["ccd_iterations"] = int(c["ccd_iterations"])
        try:
            obs = base.observe(S, distmax)
            witness["qpos"] = np.array(S.d["qpos"]).tolist()
            regime, viols = check_pose(P, S, obs, distmax, witness)
            if viols and not all(v[0].startswith("ccd-coincident") for v in viols):
                S.m.opt["ccd_iterations"] = 10 * int(c["ccd_iterations"])
                obs2 = base.observe(S, distmax)
                regime2, viols2 = check_pose(core.Part(), S, obs2, distmax, witness)
                if not viols2:
                    P.count("skipped_iteration_limited")
                    P.count("poses")
                    P.case(nontrivial=False)
                    continue
                viols = viols2
        except drv.MjError as e:
            P.violation("engine-error-in-convex-collision:" + str(e).split(":")[0][:40], dict(witness, error=str(e)))
            S.d = S.m.make_data()
            continue
        if any(sig.startswith("ccd-epa-unconverged-face:") for sig, _ in viols):
            P.count("epa_unconverged_direction")
        for sig, det in viols:
            P.violation(sig, det)
        P.count("poses")
        P.count("pair:" + c["pair"])
        P.count("regime:" + regime)
        P.note_max("ncon_max", obs["ncon"])
        nontrivial = obs["ncon"] > 0 or obs["gd01"] < distmax
        P.case(key="%s|%s|%s|%s|%s|%d" % (c["pair"], c["variant"], pclass, oclass, regime, c["multiccd"]), nontrivial=nontrivial,
               sample={"pair": c["pair"], "variant": c["variant"], "pclass": pclass, "oclass": oclass, "ncon": obs["ncon"],
                       "dist": obs["con"][0]["dist"] if obs["ncon"] else None, "geomdist": obs["gd01"], "regime": regime})


def worker(c):
    P = core.Part()
    for cc in c["batch"]:
        run_case(cc, P)
    return P.result()


def cases(ctx):
    rng = ctx.rng
    nposes = 8
    ncase = ctx.pick(160, 3000)
    return [make_case(rng, CCD_PAIRS[i % len(CCD_PAIRS)], i, nposes) for i in range(ncase)]


def run(ctx):
    build.ensure("rel")
    st = cx.self_test(n=36)
    ctx.extra["reference_self_test"] = {k: float(v) for k, v in st.items()}
    if st["dist_gap"] > 1e-9 or st["pen_exact_vs_sampled"] > 1e-9 or st.get("pen_exact_vs_refined", 0) > 1e-6:
        ctx.inconclusive("reference self test failed: %s" % st)
        return
    cs = cases(ctx)
    base.run_batches(ctx, "vf.props.c15", cs, per=5)
    n = max(1, ctx.counters.get("poses", 0))
    sk = ctx.counters.get("skipped_iteration_limited", 0) + ctx.counters.get("skipped_reference_not_certified", 0)
    ctx.extra["skipped_fraction"] = sk / n
    if sk > 0.02 * n and not ctx.violations:
        ctx.inconclusive("%d of %d poses skipped (iteration limit / uncertified reference) > 2%%" % (sk, n))
    npen = sum(v for k, v in ctx.counters.items() if k.startswith("regime:pen"))
    if ctx.counters.get("epa_unconverged_direction", 0) > 0.005 * max(npen, 200):
        ctx.violation("ccd-epa-unconverged-face-rate-above-0.5-percent-of-penetrating-poses",
                      {"count": ctx.counters.get("epa_unconverged_direction", 0), "penetrating_poses": npen})
    if ctx.counters.get("model_rejected", 0) > 0.02 * len(cs):
        ctx.inconclusive("too many generated models rejected (%d)" % ctx.counters.get("model_rejected", 0))
    ctx.min_nontrivial = ctx.pick(250, 1200)


def replay(ctx, path):
    rec = json.load(open(path))
    det = rec["detail"]
    P = core.Part()
    run_case(det["case"], P, poses={det["pose"]})
    ctx.merge(P.result())
    ctx.min_nontrivial = 0
