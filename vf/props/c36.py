"""C36 Equivalent model descriptions compile to equivalent physics."""
import ctypes as C
import json
import xml.etree.ElementTree as ET

import numpy as np

from .. import build, core, drv, par
from ..gen import model, rewrite as rw
from ..mjconst import E
from ..ref import so3

LEVEL = "exploration"
RULE = ("metamorphic pairs: a generated constraint-free articulated model A (vf/gen/model.py: trees of hinge/slide/ball/free joints, "
        "springs, dampers, armature, tendons, actuators, sites, cameras, static and welded bodies, explicit inertials) and a "
        "rewrite B produced on the XML tree by vf/gen/rewrite.py -- orientation spelling (quat/axisangle/euler/xyaxes/zaxis), "
        "eulerseq change, degree<->radian, values moved into a private 3-level default-class chain with overridden decoys, "
        "elements wrapped in (nested) <frame>s with the inverse-compensated pose, <replicate> vs written-out copies, child "
        "model attached with mjs_attach vs written inline with prefixed names, fusestatic / discardvisual on vs off -- are "
        "compiled; the compiled arrays are compared object-by-object matched by NAME and both models are stepped 200 times "
        "from the same named initial velocities and controls, comparing body/site/geom world poses and named sensor data. "
        "mj_setConst clause: masses, inertias, body/geom/joint positions, gears and fixed-tendon coefficients are edited in "
        "the compiled model followed by mj_setConst and compared with recompiling the equally edited saved XML. "
        "distinct = (rewrite kind, model seed); non-trivial = the rewrite applied at least once and the model has dofs")
ASSUMPTIONS = [
    "tolerance 1e-9*(1+|x|) for exact rewrites and 2e-5 for fusestatic (the merged inertia goes through the compiler's Jacobi "
    "eigensolver whose stopping rule leaves a ~1.4e-6 rad error in the principal axes, see C35); quaternions are compared up "
    "to sign",
    "trajectories are compared with tolerance tol + 20 x the deviation of a twin run of A whose initial velocity is scaled by "
    "1+1e-13 (1+1e-6 for fusestatic): the system's own amplification of a perturbation of the size the rewrite injects "
    "(rounding of the re-spelled numbers; the eigen-decomposition of the merged inertia)",
    "fusestatic models carry no refsite: the rotational site/refsite length depends on how the orientation is split between "
    "body and site (known finding C27-refsite-rotation-quaternion-order), which fusing changes",
    "pairs whose joint-space inertia is singular at qpos0 (dof_invweight0 non-finite, negative or >1e10 in either model) are "
    "skipped and counted: the generated model is degenerate and its derived constants are rounding noise",
    "a trajectory is abandoned (counted unstable_skipped) when either model reaches |qacc|>1e7 or |qvel|>1e4: the generated "
    "system is then numerically unstable for the chosen integrator/timestep and rounding differences are amplified without bound",
    "trajectories use <flag constraint='disable'/> (no limits, friction loss, equality or contact forces): the comparison is "
    "about the compiled model, and an iterative solver would amplify rounding differences to its tolerance; limits and ranges "
    "are still compared as compiled arrays (jnt_range etc.)",
    "the integer references of tendon wraps, actuator transmissions and sensors are compared through the NAMES they resolve to; "
    "when they point to different objects the numeric comparison of that pair is skipped (it would only restate the same fault)",
    "static bodies fused into the world lose their mass (the world has none), so body_subtreemass[world] is not compared under "
    "fusestatic",
    "bodies removed by fusestatic and geoms removed by discardvisual are not compared (statement: 'bodies that are kept'); with "
    "fusestatic the per-body mass properties and local geom/site poses of the absorbing parent legitimately change, so only "
    "world poses, subtree masses and joint/dof/tendon/actuator arrays are compared",
    "zaxis is only used as a rewrite target when the rotation is the minimal rotation of +z (otherwise not representable); "
    "euler sequences with two equal neighbouring factors cannot represent every rotation and are not used as targets",
    "geoms given by fromto are not wrapped in frames individually (the twist about the axis is not determined by fromto)",
    "mj_setConst: edits keep the inertial frame (body_ipos/iquat) so that 'simple' bodies stay simple (mj_setConst errors "
    "otherwise by design); the recompiled twin is produced from the saved XML (precision 17) of the same spec",
]

KINDS = ["orient", "eulerseq", "angle", "defaults", "frame", "replicate", "attach", "fusestatic", "discardvisual", "setconst"]
TOL = {"fusestatic": 2e-5}
CHECK_STEPS = (1, 20, 100, 200)

OBJ = {"body": ("mjOBJ_BODY", "nbody"), "jnt": ("mjOBJ_JOINT", "njnt"), "geom": ("mjOBJ_GEOM", "ngeom"),
       "site": ("mjOBJ_SITE", "nsite"), "cam": ("mjOBJ_CAMERA", "ncam"), "tendon": ("mjOBJ_TENDON", "ntendon"),
       "actuator": ("mjOBJ_ACTUATOR", "nu"), "sensor": ("mjOBJ_SENSOR", "nsensor")}
FIELDS = {
    "body": ["body_pos", "body_quat", "body_ipos", "body_mass", "body_subtreemass", "body_gravcomp", "body_invweight0"],
    "jnt": ["jnt_type", "jnt_pos", "jnt_axis", "jnt_range", "jnt_stiffness", "jnt_margin", "jnt_solref", "jnt_solimp",
            "jnt_actfrcrange", "jnt_limited", "jnt_actgravcomp"],
    "geom": ["geom_type", "geom_pos", "geom_quat", "geom_size", "geom_friction", "geom_margin", "geom_gap", "geom_solref",
             "geom_solimp", "geom_solmix", "geom_contype", "geom_conaffinity", "geom_condim", "geom_group", "geom_priority",
             "geom_rbound"],
    "site": ["site_pos", "site_quat", "site_size"],
    "cam": ["cam_pos", "cam_quat"],
    "tendon": ["tendon_length0", "tendon_invweight0", "tendon_stiffness", "tendon_damping", "tendon_frictionloss",
               "tendon_range", "tendon_lengthspring", "tendon_margin", "tendon_limited", "tendon_armature"],
    "actuator": ["actuator_gear", "actuator_gainprm", "actuator_biasprm", "actuator_dynprm", "actuator_ctrlrange",
                 "actuator_forcerange", "actuator_actrange", "actuator_acc0", "actuator_length0", "actuator_lengthrange",
                 "actuator_trntype", "actuator_dyntype", "actuator_gaintype", "actuator_biastype", "actuator_ctrllimited",
                 "actuator_forcelimited", "actuator_actlimited", "actuator_cranklength", "actuator_group"],
}
DOF_FIELDS = ["dof_armature", "dof_damping", "dof_frictionloss", "dof_invweight0", "dof_M0"]
FUSE_SKIP = {"body_pos", "body_quat", "body_ipos", "body_mass", "body_invweight0", "geom_pos", "geom_quat", "site_pos", "site_quat",
             "cam_pos", "cam_quat", "body_gravcomp"}


# ---- base models --------------------------------------------------------------------------------------------------

def base_xml(mseed, kind, small=False, nofree=False):
    rng = np.random.default_rng(mseed)
    over = dict(equalities=0, sensors=4, sensor_kinds=["framepos", "framequat", "jointpos", "jointvel", "subtreecom", "tendonpos"],
                mocap=0.0, cameras=0.4, sites=0.8, explicit_inertial=0.3, fixed_child=0.2, static_geoms=0.4, multi_geom=0.5,
                joint_ref=0.4, limits=0.5, flags={"constraint": "disable"}, tendon_wrap=0.0, gravcomp=0.1,
                option={"timestep": 0.002, "integrator": ["Euler", "implicitfast", "RK4"][int(rng.integers(0, 3))]})
    prof = "smooth"
    if kind == "discardvisual":
        prof = "rich"
        over.update(floor=True, contact_bits=0.5)
    if kind == "fusestatic":
        # refsite=0: the rotational length of a site/refsite transmission depends on how the site orientation is split between
        # body and site (known finding C27-refsite-rotation-quaternion-order), which fusing changes
        over.update(fixed_child=0.45, static_geoms=0.8, sensors=0, refsite=0.0)
    if small:
        over.update(nbody=(1, 4), ntree=(1, 2))
    if nofree:
        over.update(free=0.0)
    xml, tags = model.gen_profile(rng, prof, **over)
    root = ET.fromstring(xml)
    rw.set_compiler(root, fusestatic="false", discardvisual="false", eulerseq=rw.SEQS[int(rng.integers(0, 10))])
    if kind == "discardvisual":
        for g in root.find("worldbody").iter("geom"):
            if g.get("type") != "plane" and rng.random() < 0.45:
                g.set("contype", "0")
                g.set("conaffinity", "0")
    # model.gen writes euler angles for the default sequence: keep the numbers, they are just a different rotation
    return ET.tostring(root, encoding="unicode")


def make_pair(c):
    """-> dict(A=xml, B=xml | attach=(xmlP, xmlC), counts, tol)"""
    kind = c["kind"]
    rng = np.random.default_rng(c["rseed"])
    xml = base_xml(c["mseed"], kind)
    root = rw.parse(xml)
    out = {"A": xml, "tol": TOL.get(kind, 1e-9)}
    if kind in ("orient", "eulerseq", "angle", "defaults", "frame"):
        fn = {"orient": rw.rewrite_orient, "eulerseq": rw.rewrite_eulerseq, "angle": rw.rewrite_angle,
              "defaults": rw.rewrite_defaults, "frame": rw.rewrite_frame}[kind]
        fns = {"orient": rw.rewrite_orient, "angle": rw.rewrite_angle, "frame": rw.rewrite_frame, "defaults": rw.rewrite_defaults}
        k2 = None
        if c.get("combo"):          # a second, different rewrite in the same pair
            k2 = ["orient", "angle", "frame", "defaults"][int(rng.integers(0, 4))]
            if k2 == kind:
                k2 = None
        # the tree rewrites read explicit attributes, so moving values into default classes always comes last
        if kind == "defaults" and k2:
            n2 = fns[k2](root, rng)
            out["counts"] = fn(root, rng)
        else:
            out["counts"] = fn(root, rng)
            n2 = fns[k2](root, rng) if k2 else {}
        if n2:
            out["counts"]["combo:" + k2] = 1
        out["B"] = rw.tostring(root)
    elif kind == "replicate":
        A, B, n, multi = rw.make_replicate_pair(root, rng)
        out.update(A=rw.tostring(A), B=rw.tostring(B), counts=n, label="replicate-multiaxis" if multi else "replicate")
    elif kind == "attach":
        host_world = bool(c["rseed"] % 2)
        child = rw.parse(base_xml(c["mseed"] + 7919, kind, small=True, nofree=not host_world))
        # same global settings in parent and child (attach merges them by the 'conflict' rule otherwise)
        for tag in ("compiler", "option"):
            ch, pa = child.find(tag), root.find(tag)
            child.remove(ch)
            child.insert(0, ET.fromstring(ET.tostring(pa)))
        inline, P, Cc, n = rw.make_attach_pair(root, child, rng, host_world=host_world)
        out.update(A=rw.tostring(inline), attach=(rw.tostring(P), rw.tostring(Cc)), counts=n)
    elif kind in ("fusestatic", "discardvisual"):
        rw.set_compiler(root, **{kind: "true"})
        out.update(B=rw.tostring(root), counts={})
    return out


def compile_attached(L, xmlP, xmlC, prefix="c_"):
    sp = L.parse_xml_string(xmlP)
    sc = L.parse_xml_string(xmlC)
    try:
        fr = L.call("mjs_findFrame", sp, "att", ret="ptr")
        if not fr:
            raise drv.MjError("frame 'att' not found")
        fr_el = C.c_uint64.from_address(fr).value
        ch_el = C.c_uint64.from_address(sc.ptr).value           # mjSpec.element: attaches the whole child world
        r = L.call("mjs_attach", fr_el, ch_el, prefix, "", ret="ptr")
        if not r:
            e = L.lib.mjs_getError
            e.restype = C.c_char_p
            e.argtypes = [C.c_void_p]
            raise drv.MjError("mjs_attach failed: " + (e(sp.ptr) or b"").decode(errors="replace"))
        return L.compile(sp)
    finally:
        sp.free()
        sc.free()


# ---- comparison ---------------------------------------------------------------------------------------------------

def names(m, kind):
    ot, nn = OBJ[kind]
    out = {}
    for i in range(m.n(nn)):
        nm = m.name(getattr(E, ot), i)
        if nm:
            out[nm] = i
    return out


def close(a, b, tol, quat=False):
    a = np.asarray(a, float)
    b = np.asarray(b, float)
    if a.shape != b.shape:
        return False, float("inf")
    if a.size == 0:
        return True, 0.0
    both_nan = np.isnan(a) & np.isnan(b)
    if both_nan.any():
        a = np.where(both_nan, 0.0, a)
        b = np.where(both_nan, 0.0, b)
    e = np.abs(a - b) / (1 + np.abs(a))
    if not np.all(np.isfinite(e)):
        return False, float("inf")
    if quat:
        e2 = np.abs(a + b) / (1 + np.abs(a))
        if e2.max() < e.max():
            e = e2
    return bool(e.max() <= tol), float(e.max())


def tensor(m, i):
    R = so3.quat_to_mat(m["body_iquat"][i])
    return R @ np.diag(m["body_inertia"][i]) @ R.T


def compare_models(P, mA, mB, tol, kind, wit):
    """object-by-object (by name) comparison of compiled arrays; returns number of compared values"""
    ncmp = 0
    fuse = kind.startswith("fusestatic")

    def bad(field, name, a, b, err):
        P.violation("compiled-array-differs:%s:%s" % (kind, field), dict(wit, field=field, object=name, a=a, b=b, err=err))
    for ok_, (ot, nn) in OBJ.items():
        if ok_ == "sensor":
            continue
        nA, nB = names(mA, ok_), names(mB, ok_)
        if set(nA) != set(nB):
            missing = sorted(set(nA) ^ set(nB))
            legit = (fuse and ok_ == "body") or (kind == "discardvisual" and ok_ == "geom")
            if not legit:
                P.violation("name-set-differs:%s:%s" % (kind, ok_), dict(wit, only_in_one=missing[:10]))
        for nm in sorted(set(nA) & set(nB)):
            ia, ib = nA[nm], nB[nm]
            for fld in FIELDS[ok_]:
                if fuse and (fld in FUSE_SKIP or (fld == "body_subtreemass" and ia == 0)):
                    continue
                if fld not in mA:
                    continue
                a, b = mA[fld][ia], mB[fld][ib]
                ok, err = close(a, b, tol, quat=fld.endswith("_quat"))
                ncmp += 1
                P.note_max("arr_err_" + kind, err)
                if not ok:
                    bad(fld, nm, a, b, err)
            if ok_ == "body" and not fuse and ia > 0:
                Ia, Ib = tensor(mA, ia), tensor(mB, ib)
                sc = max(np.abs(Ia).max(), 1e-300)
                err = float(np.abs(Ia - Ib).max() / sc)
                ncmp += 1
                if err > max(tol, 1e-5):     # eigen-decomposition tolerance of the compiler (see C35)
                    bad("body_inertia_tensor", nm, Ia, Ib, err)
            if ok_ == "jnt":
                ta, tb = int(mA["jnt_type"][ia]), int(mB["jnt_type"][ib])
                if ta != tb:
                    continue
                nq = {E.mjJNT_FREE: 7, E.mjJNT_BALL: 4}.get(ta, 1)
                nv = {E.mjJNT_FREE: 6, E.mjJNT_BALL: 3}.get(ta, 1)
                qa, qb = int(mA["jnt_qposadr"][ia]), int(mB["jnt_qposadr"][ib])
                da, db = int(mA["jnt_dofadr"][ia]), int(mB["jnt_dofadr"][ib])
                for fld in ("qpos0", "qpos_spring"):
                    a, b = mA[fld][qa:qa + nq], mB[fld][qb:qb + nq]
                    if fuse and ta == E.mjJNT_FREE:
                        continue
                    ok, err = close(a, b, tol)
                    if not ok and ta in (E.mjJNT_FREE, E.mjJNT_BALL):
                        ok, err = close(a[-4:], b[-4:], tol, quat=True)
                        ok = ok and close(a[:-4], b[:-4], tol)[0]
                    ncmp += 1
                    if not ok:
                        bad(fld, nm, a, b, err)
                for fld in DOF_FIELDS:
                    a, b = mA[fld][da:da + nv], mB[fld][db:db + nv]
                    ok, err = close(a, b, tol)
                    ncmp += 1
                    P.note_max("arr_err_" + kind, err)
                    if not ok:
                        bad(fld, nm, a, b, err)
    sa = np.frombuffer(mA.stat_bytes(), dtype=np.float64)[:7]
    sb = np.frombuffer(mB.stat_bytes(), dtype=np.float64)[:7]
    if not fuse and kind != "discardvisual":
        ok, err = close(sa, sb, max(tol, 1e-9))
        ncmp += 1
        if not ok:
            bad("stat", "-", sa, sb, err)
    return ncmp


def references(m):
    """name-level view of the integer references held by tendons, actuators and sensors"""
    out = {}
    idname = lambda ot, i: m.name(ot, int(i)) if i >= 0 else None
    wt, wo = m["wrap_type"], m["wrap_objid"]
    for nm, t in names(m, "tendon").items():
        a, n = int(m["tendon_adr"][t]), int(m["tendon_num"][t])
        for k in range(n):
            ty = int(wt[a + k])
            ot = {E.mjWRAP_JOINT: E.mjOBJ_JOINT, E.mjWRAP_SITE: E.mjOBJ_SITE, E.mjWRAP_SPHERE: E.mjOBJ_GEOM,
                  E.mjWRAP_CYLINDER: E.mjOBJ_GEOM}.get(ty)
            out["tendon-wrap:%s:%d" % (nm, k)] = (ty, idname(ot, wo[a + k]) if ot is not None else None)
    for nm, a in names(m, "actuator").items():
        ty = int(m["actuator_trntype"][a])
        ot = {E.mjTRN_JOINT: E.mjOBJ_JOINT, E.mjTRN_JOINTINPARENT: E.mjOBJ_JOINT, E.mjTRN_TENDON: E.mjOBJ_TENDON,
              E.mjTRN_SITE: E.mjOBJ_SITE, E.mjTRN_SLIDERCRANK: E.mjOBJ_SITE, E.mjTRN_BODY: E.mjOBJ_BODY}.get(ty)
        ids = m["actuator_trnid"][a]
        out["actuator-transmission:%s" % nm] = (ty, idname(ot, ids[0]) if ot is not None else None,
                                                idname(E.mjOBJ_SITE, ids[1]) if ty in (E.mjTRN_SITE, E.mjTRN_SLIDERCRANK) else None)
    for nm, i in names(m, "sensor").items():
        ot, rt = int(m["sensor_objtype"][i]), int(m["sensor_reftype"][i])
        out["sensor-object:%s" % nm] = (int(m["sensor_type"][i]), ot, idname(ot, m["sensor_objid"][i]) if ot > 0 else None,
                                        rt, idname(rt, m["sensor_refid"][i]) if rt > 0 else None)
    return out


def compare_references(P, mA, mB, kind, wit):
    ra, rb = references(mA), references(mB)
    nbad = 0
    for k in ra:
        if k in rb and ra[k] != rb[k]:
            nbad += 1
            if nbad <= 3:
                P.violation("reference-points-to-other-object:%s:%s" % (kind.split("-")[0], k.split(":")[0]),
                            dict(wit, reference=k, a=list(ra[k]), b=list(rb[k])))
    P.count("references_compared", len(ra))
    return nbad


def init_state(m, d, seed):
    jn = names(m, "jnt")
    for nm, j in jn.items():
        t = int(m["jnt_type"][j])
        nv = {E.mjJNT_FREE: 6, E.mjJNT_BALL: 3}.get(t, 1)
        da = int(m["jnt_dofadr"][j])
        r = np.random.default_rng(core.stable_hash(seed, nm) % (2 ** 32))
        d["qvel"][da:da + nv] = r.normal(size=nv) * 0.7
    an = names(m, "actuator")
    for nm, a in an.items():
        r = np.random.default_rng(core.stable_hash(seed, "act", nm) % (2 ** 32))
        d["ctrl"][a] = float(r.uniform(-0.5, 0.5))


def world_obs(m, d):
    o = {}
    for kind, pf, qf in (("body", "xpos", "xquat"), ("site", "site_xpos", None), ("geom", "geom_xpos", None),
                         ("cam", "cam_xpos", None)):
        for nm, i in names(m, kind).items():
            o[kind + ":" + nm + ":pos"] = d[pf][i].copy()
            if qf:
                o[kind + ":" + nm + ":quat"] = d[qf][i].copy()
    for nm, i in names(m, "sensor").items():
        a, n = int(m["sensor_adr"][i]), int(m["sensor_dim"][i])
        o["sensor:" + nm + (":quat" if n == 4 else ":val")] = d["sensordata"][a:a + n].copy()
    return o


def compare_traj(P, L, mA, mB, tol, kind, wit, seed, sens=1e-13):
    dA, dB = mA.make_data(), mB.make_data()
    init_state(mA, dA, seed)
    init_state(mB, dB, seed)
    dP = None
    if sens:
        # twin of A whose initial velocity is scaled by (1 + sens): measures how much the system itself amplifies a
        # perturbation of the size that the rewrite injects (rounding: 1e-13; merged-inertia eigen-decomposition: 1e-6)
        dP = mA.make_data()
        init_state(mA, dP, seed)
        dP["qvel"][:] = dP["qvel"] * (1 + sens)
    worst = 0.0
    try:
        step = 0
        for target in CHECK_STEPS:
            while step < target:
                L.call("mj_step", mA, dA, ret=None)
                L.call("mj_step", mB, dB, ret=None)
                if dP is not None:
                    L.call("mj_step", mA, dP, ret=None)
                step += 1
                for d_ in (dA, dB):
                    if d_.m.n("nv") and (np.abs(d_["qacc"]).max() > 1e7 or np.abs(d_["qvel"]).max() > 1e4
                                         or not np.all(np.isfinite(d_["qacc"]))):
                        P.count("unstable_skipped")
                        return worst
            oa, ob = world_obs(mA, dA), world_obs(mB, dB)
            amp = 0.0
            if dP is not None:
                op = world_obs(mA, dP)
                amp = max(close(oa[k], op[k], 0, quat=k.endswith(":quat"))[1] for k in oa) if oa else 0.0
                if not np.isfinite(amp):
                    P.count("unstable_skipped")
                    return worst
                P.note_max("perturbation_growth", amp / sens)
            seen = set()
            for k in oa:
                if k not in ob:
                    continue
                ok, err = close(oa[k], ob[k], tol + 20 * amp, quat=k.endswith(":quat"))
                if not ok or not np.all(np.isfinite(oa[k])):
                    if not np.all(np.isfinite(oa[k])) and not np.all(np.isfinite(ob[k])):
                        P.count("both_diverged")
                        return worst
                    ok_kind = k.split(":")[0]
                    if ok_kind not in seen:
                        seen.add(ok_kind)
                        P.violation("trajectory-differs:%s:%s" % (kind, ok_kind),
                                    dict(wit, step=step, object=k, a=oa[k], b=ob[k], err=err))
                else:
                    worst = max(worst, err)
            if seen:
                return worst
    finally:
        dA.free()
        dB.free()
        if dP is not None:
            dP.free()
    P.note_max("traj_err_" + kind, worst)
    return worst


# ---- mj_setConst --------------------------------------------------------------------------------------------------

SETCONST_FIELDS = ["tendon_lengthspring", "body_subtreemass", "body_invweight0", "dof_invweight0", "dof_M0", "tendon_length0", "tendon_invweight0",
                   "actuator_acc0", "actuator_length0", "qpos0", "qpos_spring", "body_mass", "body_inertia", "body_pos", "jnt_pos",
                   "geom_pos", "actuator_gear", "cam_pos0", "cam_poscom0", "light_pos0", "light_poscom0"]


def run_setconst(P, L, c):
    rng = np.random.default_rng(c["rseed"])
    xml0 = base_xml(c["mseed"], "setconst").replace("<compiler ", '<compiler saveinertial="true" ', 1)
    try:
        spec = L.parse_xml_string(xml0)
        m0 = L.compile(spec)
        saved = L.save_xml_string(spec, precision=17)
        spec.free()
        m0.free()
        mA = L.load_xml_string(saved)
    except drv.MjError as e:
        P.count("base_rejected")
        return
    root = ET.fromstring(saved)
    wit = {"case": c, "saved_xml": saved}
    n = {}

    def bump(k):
        n[k] = n.get(k, 0) + 1
    nb = names(mA, "body")
    # edits: XML side and model side
    for b in root.find("worldbody").iter("body"):
        nm = b.get("name")
        if nm not in nb:
            continue
        i = nb[nm]
        ine = b.find("inertial")
        if ine is not None and rng.random() < 0.6:
            k = float(rng.uniform(0.5, 2.0))
            mass = float(ine.get("mass")) * k
            ine.set("mass", repr(mass))
            mA["body_mass"][i] = mass
            bump("setconst:mass")
            if rng.random() < 0.7 and "diaginertia" in ine.attrib:
                di = np.array([float(v) for v in ine.get("diaginertia").split()]) * float(rng.uniform(0.6, 1.5))
                ine.set("diaginertia", " ".join(repr(float(v)) for v in di))
                mA["body_inertia"][i] = di
                bump("setconst:inertia")
        has_free = any(j.get("type") == "free" for j in b.findall("joint")) or b.find("freejoint") is not None
        if has_free:
            P.count("setconst_skipped_free_body_pos")     # the pose of a floating body lives in qpos0, not in body_pos
        if rng.random() < 0.4 and not has_free:
            pos = np.array([float(v) for v in b.get("pos", "0 0 0").split()]) + rng.normal(size=3) * 0.05
            b.set("pos", " ".join(repr(float(v)) for v in pos))
            mA["body_pos"][i] = pos
            bump("setconst:body_pos")
    jn = names(mA, "jnt")
    for j in root.find("worldbody").iter("joint"):
        nm = j.get("name")
        if nm in jn and j.get("type", "hinge") != "free" and rng.random() < 0.4:
            i = jn[nm]
            if "body_simple" in mA and int(mA["body_simple"][int(mA["jnt_bodyid"][i])]) != 0:
                continue
            pos = np.array([float(v) for v in j.get("pos", "0 0 0").split()]) + rng.normal(size=3) * 0.03
            j.set("pos", " ".join(repr(float(v)) for v in pos))
            mA["jnt_pos"][i] = pos
            bump("setconst:jnt_pos")
    gn = names(mA, "geom")
    for g in root.find("worldbody").iter("geom"):
        nm = g.get("name")
        if nm in gn and "fromto" not in g.attrib and rng.random() < 0.3:
            i = gn[nm]
            pos = np.array([float(v) for v in g.get("pos", "0 0 0").split()]) + rng.normal(size=3) * 0.03
            g.set("pos", " ".join(repr(float(v)) for v in pos))
            mA["geom_pos"][i] = pos
            bump("setconst:geom_pos")
    an = names(mA, "actuator")
    act = root.find("actuator")
    for a in (list(act) if act is not None else []):
        nm = a.get("name")
        if nm in an and rng.random() < 0.6:
            i = an[nm]
            gear = mA["actuator_gear"][i].copy()
            gear[0] *= float(rng.uniform(0.5, 2.0))
            a.set("gear", " ".join(repr(float(v)) for v in gear))
            mA["actuator_gear"][i] = gear
            bump("setconst:gear")
    tn = names(mA, "tendon")
    ten = root.find("tendon")
    for t in (list(ten) if ten is not None else []):
        nm = t.get("name")
        if t.tag != "fixed" or nm not in tn:
            continue
        i = tn[nm]
        adr = int(mA["tendon_adr"][i])
        for k, jj in enumerate(t.findall("joint")):
            if rng.random() < 0.7:
                coef = float(jj.get("coef", "1")) * float(rng.uniform(0.5, 2.0))
                jj.set("coef", repr(coef))
                mA["wrap_prm"][adr + k] = coef
                bump("setconst:tendon_coef")
    # a tendon whose spec leaves springlength at the default -1 ("resting length taken from the reference configuration"):
    # the compiled model holds the resolved number, the runtime spelling of the same spec value is -1 again
    for t in (list(ten) if ten is not None else []):
        if t.get("name") in tn and "springlength" not in t.attrib:
            mA["tendon_lengthspring"][tn[t.get("name")]] = -1
            bump("setconst:springlength_default_restored")
    if not n:
        P.case(nontrivial=False)
        return
    editedxml = ET.tostring(root, encoding="unicode")
    wit["edited_xml"] = editedxml
    wit["edits"] = n
    try:
        mB = L.load_xml_string(editedxml)
    except drv.MjError as e:
        P.count("setconst_recompile_rejected")
        return
    dA = mA.make_data()
    try:
        L.call("mj_setConst", mA, dA, ret=None)
    except drv.MjError as e:
        P.count("setconst_error:" + str(e)[:40])
        return
    worst = 0.0
    for fld in SETCONST_FIELDS:
        if fld not in mA:
            continue
        a, b = mA[fld], mB[fld]
        ok, err = close(a, b, 1e-9)
        worst = max(worst, err)
        if not ok:
            P.violation("setConst-differs-from-recompile:" + fld, dict(wit, field=fld, a=a, b=b, err=err))
    # compile itself runs mj_setConst, so a field that BOTH leave stale would agree: the subtree masses are also summed here
    sub = mA["body_mass"].copy()
    par_ = mA["body_parentid"]
    for i in range(mA.n("nbody") - 1, 0, -1):
        sub[par_[i]] += sub[i]
    ok, err = close(mA["body_subtreemass"], sub, 1e-12)
    if not ok:
        P.violation("setConst-subtreemass-not-sum-of-masses", dict(wit, a=mA["body_subtreemass"], want=sub, err=err))
    sa = np.frombuffer(mA.stat_bytes(), dtype=np.float64)[:7]
    sb = np.frombuffer(mB.stat_bytes(), dtype=np.float64)[:7]
    ok, err = close(sa, sb, 1e-9)
    if not ok:
        P.violation("setConst-differs-from-recompile:stat", dict(wit, a=sa, b=sb, err=err))
    P.note_max("arr_err_setconst", worst)
    # and the physics agrees afterwards
    compare_traj(P, L, mA, mB, 1e-9, "setconst", wit, c["rseed"])
    for k, v in n.items():
        P.count(k, v)
    P.count("kind_setconst")
    P.case(key="setconst|%d" % c["mseed"], nontrivial=mA.n("nv") > 0,
           sample={"kind": "setconst", "model_seed": c["mseed"], "edits": n, "nv": mA.n("nv")})
    dA.free()


# ---- worker -------------------------------------------------------------------------------------------------------

def worker(c):
    P = core.Part()
    L = drv.Lib("rel")
    kind = c["kind"]
    if kind == "setconst":
        run_setconst(P, L, c)
        return P.result()
    pair = make_pair(c)
    wit = {"case": c, "xmlA": pair["A"], "xmlB": pair.get("B"), "attach": pair.get("attach"), "applications": pair["counts"]}
    try:
        mA = L.load_xml_string(pair["A"])
    except drv.MjError as e:
        P.count("base_rejected")
        P.count("base_rejected_" + kind)
        wit["error"] = str(e)
        if kind in ("replicate", "attach"):
            # the A side already contains the construct under test: a rejection is a finding about it only if B compiles
            try:
                mB = compile_attached(L, *pair["attach"]) if kind == "attach" else L.load_xml_string(pair["B"])
                P.violation("one-spelling-rejected:%s:A" % kind, wit)
            except drv.MjError:
                pass
        return P.result()
    try:
        if kind == "attach":
            mB = compile_attached(L, *pair["attach"])
        else:
            mB = L.load_xml_string(pair["B"])
    except drv.MjError as e:
        wit["error"] = str(e)
        P.violation("one-spelling-rejected:%s:B" % kind, wit)
        return P.result()
    napp = sum(v for k, v in pair["counts"].items())
    if kind == "fusestatic":
        napp = mA.n("nbody") - mB.n("nbody")
        pair["counts"] = {"fusestatic:bodies-fused": napp} if napp else {}
        # a fused body whose gravcomp differs from the body that absorbs it: own label (finding C36-fusestatic-gravcomp)
        nbA, nbB = names(mA, "body"), names(mB, "body")
        for nm, i in nbA.items():
            if nm not in nbB:
                j = i
                while mA.name(E.mjOBJ_BODY, j) not in nbB:
                    j = int(mA["body_parentid"][j])
                if float(mA["body_gravcomp"][i]) != float(mA["body_gravcomp"][j]) and float(mA["body_mass"][i]) > 0 and j > 0:
                    pair["label"] = "fusestatic-gravcomp"
                    pair["counts"]["fusestatic:gravcomp-differs"] = 1
    if kind == "discardvisual":
        napp = mA.n("ngeom") - mB.n("ngeom")
        pair["counts"] = {"discardvisual:geoms-removed": napp} if napp else {}
    degenerate = False
    for m_ in (mA, mB):
        w = m_["dof_invweight0"]
        if w.size and (not np.all(np.isfinite(w)) or np.abs(w).max() > 1e10 or w.min() < 0):
            degenerate = True
    if degenerate:
        # singular joint-space inertia at qpos0 (e.g. a hinge through a point mass): invweight0 is NaN or +-1e16 depending on
        # rounding, and the dynamics are undefined; not a statement about the rewrite
        P.count("singular_inertia_skipped")
        P.case(nontrivial=False)
        mA.free()
        mB.free()
        return P.result()
    tol = pair["tol"]
    label = pair.get("label", kind)
    ncmp = 0
    if compare_references(P, mA, mB, label, wit):
        # everything downstream (lengths, moments, sensor values, forces) is then a consequence of the wrong reference
        P.count("downstream_skipped_after_wrong_reference")
    else:
        ncmp = compare_models(P, mA, mB, tol, label, wit)
        compare_traj(P, L, mA, mB, tol, label, wit, c["rseed"], sens=(1e-6 if kind == "fusestatic" else 1e-13))
    for k, v in pair["counts"].items():
        P.count(k, v)
    if napp:
        P.count("kind_" + kind)
    P.count("values_compared", ncmp)
    P.case(key="%s|%d" % (kind, c["mseed"]), nontrivial=bool(napp) and mA.n("nv") > 0,
           sample={"kind": kind, "model_seed": c["mseed"], "applications": pair["counts"], "nv": mA.n("nv"), "nbody": mA.n("nbody")})
    mA.free()
    mB.free()
    return P.result()


def cases(ctx):
    rng = ctx.rng
    per = ctx.pick(16, 120)
    cs = []
    for kind in KINDS:
        for i in range(per):
            cs.append({"kind": kind, "mseed": int(rng.integers(0, 2 ** 31)), "rseed": int(rng.integers(0, 2 ** 31)),
                       "combo": bool(i % 3 == 2)})
    return cs


REQUIRED = (["kind_" + k for k in KINDS]
            + ["orient:%s" % k for k in rw.ORIENT] + ["eulerseq", "angle:euler", "angle:axisangle", "angle:joint-range", "angle:joint-ref",
                                                      "defaults:geom-grandparent", "defaults:joint-grandparent", "defaults:decoy-overridden",
                                                      "frame:body", "frame:geom", "frame:site", "frame:joint", "replicate:copies",
                                                      "attach:world", "attach:body", "fusestatic:bodies-fused",
                                                      "discardvisual:geoms-removed", "setconst:mass", "setconst:inertia",
                                                      "setconst:body_pos", "setconst:jnt_pos", "setconst:gear", "setconst:tendon_coef"])


def run(ctx):
    build.ensure("rel")
    cs = cases(ctx)
    res = par.run("vf.props.c36", "worker", cs, nproc=8 if ctx.quick else 12, timeout=ctx.pick(300, 900))
    for c, r in zip(cs, res):
        if r is None:
            ctx.inconclusive("worker returned nothing")
        elif "crash" in r:
            ctx.count("worker_crash")
            ctx.inconclusive("worker crashed: rc=%s %s" % (r.get("rc"), r["crash"][-300:]))
        elif "exception" in r:
            ctx.count("harness_exception")
            ctx.inconclusive("harness exception in worker: " + r["exception"] + r.get("trace", "")[-500:])
        else:
            ctx.merge(r)
    ctx.min_nontrivial = ctx.pick(100, 800)
    missing = []
    for k in REQUIRED:
        if not any((kk == k or kk.startswith(k + ":") or (k.startswith("orient:") and (kk.startswith(k + "->") or kk.endswith("->" + k[7:])) and kk.startswith("orient:")))
                   and v for kk, v in ctx.counters.items()):
            missing.append(k)
    if missing:
        ctx.inconclusive("rewrite kinds with zero applications: %s" % missing)
    if ctx.counters.get("base_rejected", 0) > 0.25 * len(cs):
        ctx.inconclusive("too many base models rejected")


def replay(ctx, path):
    rec = json.load(open(path))
    ctx.merge(worker(rec["detail"]["case"]))
    ctx.min_nontrivial = 0
