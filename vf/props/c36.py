"""C36 Equivalent model descriptions compile to equivalent physics."""
import ctypes as C
import json
import re
import xml.etree.ElementTree as ET

import numpy as np

from .. import build, core, drv, par
from ..gen import model, rewrite as rw
from ..mjconst import E
from ..ref import so3

LEVEL = "exploration"
RULE = ("metamorphic pairs: a generated constraint-free articulated model A (vf/gen/model.py: trees of hinge/slide/ball/free joints, "
        "springs, dampers, armature, tendons, actuators, sites, cameras, static and welded bodies, explicit inertials) and a "
        "rewrite B produced on the XML tree by vf/gen/rewrite.py -- orientation spelling (quat/axisangle/euler/xyaxes/zaxis), "
        "eulerseq change, degree<->radian, values moved into a private 3-level default-class chain with overridden decoys, "
        "elements wrapped in (nested) <frame>s with the inverse-compensated pose, <replicate> vs written-out copies, child "
        "model attached with mjs_attach vs written inline with prefixed names, fusestatic / discardvisual on vs off -- are "
        "compiled; the compiled arrays are compared object-by-object matched by NAME and both models are stepped 200 times "
        "from the same named initial velocities and controls, comparing body/site/geom world poses and named sensor data. "
        "mj_setConst clause: masses, inertias, body/geom/joint positions, gears and fixed-tendon coefficients are edited in "
        "the compiled model followed by mj_setConst and compared with recompiling the equally edited saved XML. "
        "distinct = (rewrite kind, model seed); non-trivial = the rewrite applied at least once and the model has dofs")
ASSUMPTIONS = [
    "tolerance 1e-9*(1+|x|) for exact rewrites and 2e-5 for fusestatic (the merged inertia goes through the compiler's Jacobi "
    "eigensolver whose stopping rule leaves a ~1.4e-6 rad error in the principal axes, see C35); quaternions are compared up "
    "to sign",
    "trajectories are compared with tolerance tol + 20 x the deviation of a twin run of A whose initial velocity is scaled by "
    "1+1e-13 (1+1e-6 for fusestatic): the system's own amplification of a perturbation of the size the rewrite injects "
    "(rounding of the re-spelled numbers; the eigen-decomposition of the merged inertia)",
    "fusestatic models carry no refsite: the rotational site/refsite length depends on how the orientation is split between "
    "body and site (known finding C27-refsite-rotation-quaternion-order), which fusing changes",
    "pairs whose joint-space inertia is singular at qpos0 (dof_invweight0 non-finite, negative or >1e10 in either model) are "
    "skipped and counted: the generated model is degenerate and its derived constants are rounding noise",
    "a trajectory is abandoned (counted unstable_skipped) when either model reaches |qacc|>1e7 or |qvel|>1e4: the generated "
    "system is then numerically unstable for the chosen integrator/timestep and rounding differences are amplified without bound",
    "trajectories use <flag constraint='disable'/> (no limits, friction loss, equality or contact forces): the comparison is "
    "about the compiled model, and an iterative solver would amplify rounding differences to its tolerance; limits and ranges "
    "are still compared as compiled arrays (jnt_range etc.)",
    "the integer references of tendon wraps, actuator transmissions, sensors, explicit contact pairs, excludes, equalities and "
    "tuples are compared through the NAMES they resolve to; when a wrap or transmission points to a different object the numeric "
    "comparison of that pair is skipped (it would only restate the same fault), a wrongly resolved sensor is left out itself, "
    "wrong contact pairs / equalities / tuples do not influence any compared quantity (constraints are disabled)",
    "known findings are recognised per object and only after the mechanism is confirmed on the case at hand (stale name->index "
    "map: stored id == id in the unfused twin; camera/light: body fused and world pose == unchanged local pose in the absorber's "
    "frame; replicate multi-axis: <replicate> == written-out model built with euler(i*e), replica index >= 2; gravcomp: unfused "
    "model with the absorber's gravcomp reproduces the fused forces and trajectories; compile rejections: see load_fused_twin); "
    "everything that is not confirmed keeps a generic signature, and pairs that carry a finding are still compared in full on "
    "the counterfactual / minimally edited twin",
    "static bodies fused into the world lose their mass (the world has none), so body_subtreemass[world] is not compared under "
    "fusestatic",
    "frame sensors with objtype/reftype 'body' read the body's INERTIAL frame (XMLreference sensor/framepos objtype: 'body: the "
    "inertial frame of the body'; 'xbody: the regular frame'); for a body that absorbed a fused body with mass that frame is "
    "necessarily a different one, so those sensors are left out of fusestatic pairs (counted); xbody/geom/site/camera ones stay",
    "implicitfast reinstates the gyroscopic derivatives for 'standalone free bodies (free joints whose body has no children)' "
    "(doc/computation/index.rst, Gyroscopic derivatives for free bodies: 'For standalone free bodies, implicitfast and implicit "
    "therefore compute identical updates'); fusing the static children of a floating body turns it into such a body, so the "
    "DISCRETE update of the two spellings differs by that documented integrator rule although the dynamics are identical.  Such "
    "fusestatic pairs (counted) are stepped with integrator=implicit in both models, where the rule makes no difference",
    "bodies removed by fusestatic and geoms removed by discardvisual are not compared (statement: 'bodies that are kept'); with "
    "fusestatic the per-body mass properties and local geom/site poses of the absorbing parent legitimately change, so only "
    "world poses, subtree masses and joint/dof/tendon/actuator arrays are compared",
    "zaxis is only used as a rewrite target when the rotation is the minimal rotation of +z (otherwise not representable); "
    "euler sequences with two equal neighbouring factors cannot represent every rotation and are not used as targets",
    "geoms given by fromto are not wrapped in frames individually (the twist about the axis is not determined by fromto)",
    "mj_setConst: edits keep the inertial frame (body_ipos/iquat) so that 'simple' bodies stay simple (mj_setConst errors "
    "otherwise by design); the recompiled twin is produced from the saved XML (precision 17) of the same spec",
]

KINDS = ["orient", "eulerseq", "angle", "defaults", "frame", "replicate", "attach", "fusestatic", "discardvisual", "setconst"]
TOL = {"fusestatic": 2e-5}
CHECK_STEPS = (1, 20, 100, 200)

OBJ = {"body": ("mjOBJ_BODY", "nbody"), "jnt": ("mjOBJ_JOINT", "njnt"), "geom": ("mjOBJ_GEOM", "ngeom"),
       "site": ("mjOBJ_SITE", "nsite"), "cam": ("mjOBJ_CAMERA", "ncam"), "light": ("mjOBJ_LIGHT", "nlight"),
       "tendon": ("mjOBJ_TENDON", "ntendon"),
       "actuator": ("mjOBJ_ACTUATOR", "nu"), "sensor": ("mjOBJ_SENSOR", "nsensor")}
FIELDS = {
    "body": ["body_pos", "body_quat", "body_ipos", "body_mass", "body_subtreemass", "body_gravcomp", "body_invweight0"],
    "jnt": ["jnt_type", "jnt_pos", "jnt_axis", "jnt_range", "jnt_stiffness", "jnt_margin", "jnt_solref", "jnt_solimp",
            "jnt_actfrcrange", "jnt_limited", "jnt_actgravcomp"],
    "geom": ["geom_type", "geom_pos", "geom_quat", "geom_size", "geom_friction", "geom_margin", "geom_gap", "geom_solref",
             "geom_solimp", "geom_solmix", "geom_contype", "geom_conaffinity", "geom_condim", "geom_group", "geom_priority",
             "geom_rbound"],
    "site": ["site_pos", "site_quat", "site_size"],
    "cam": ["cam_pos", "cam_quat"],
    "light": ["light_pos", "light_dir"],
    "tendon": ["tendon_length0", "tendon_invweight0", "tendon_stiffness", "tendon_damping", "tendon_frictionloss",
               "tendon_range", "tendon_lengthspring", "tendon_margin", "tendon_limited", "tendon_armature"],
    "actuator": ["actuator_gear", "actuator_gainprm", "actuator_biasprm", "actuator_dynprm", "actuator_ctrlrange",
                 "actuator_forcerange", "actuator_actrange", "actuator_acc0", "actuator_length0", "actuator_lengthrange",
                 "actuator_trntype", "actuator_dyntype", "actuator_gaintype", "actuator_biastype", "actuator_ctrllimited",
                 "actuator_forcelimited", "actuator_actlimited", "actuator_cranklength", "actuator_group"],
}
DOF_FIELDS = ["dof_armature", "dof_damping", "dof_frictionloss", "dof_invweight0", "dof_M0"]
FUSE_SKIP = {"body_pos", "body_quat", "body_ipos", "body_mass", "body_invweight0", "geom_pos", "geom_quat", "site_pos", "site_quat",
             "cam_pos", "cam_quat", "light_pos", "light_dir", "body_gravcomp"}


# ---- base models --------------------------------------------------------------------------------------------------

def base_xml(mseed, kind, small=False, nofree=False):
    rng = np.random.default_rng(mseed)
    over = dict(equalities=0, sensors=4, sensor_kinds=["framepos", "framequat", "jointpos", "jointvel", "subtreecom", "tendonpos"],
                mocap=0.0, cameras=0.4, sites=0.8, explicit_inertial=0.3, fixed_child=0.2, static_geoms=0.4, multi_geom=0.5,
                joint_ref=0.4, limits=0.5, flags={"constraint": "disable"}, tendon_wrap=0.0, gravcomp=0.1,
                option={"timestep": 0.002, "integrator": ["Euler", "implicitfast", "RK4"][int(rng.integers(0, 3))]})
    prof = "smooth"
    if kind == "discardvisual":
        prof = "rich"
        over.update(floor=True, contact_bits=0.5)
    if kind == "fusestatic":
        # refsite=0: the rotational length of a site/refsite transmission depends on how the site orientation is split between
        # body and site (known finding C27-refsite-rotation-quaternion-order), which fusing changes
        # sensors (frame sensors on bodies/geoms/sites/cameras), geom wraps and lights are on: their references and poses are what
        # fusing re-indexes / re-frames (audit B5: coverage gap)
        over.update(fixed_child=0.45, static_geoms=0.8, sensors=4, refsite=0.0, tendon_wrap=0.3, lights=0.3)
    if small:
        over.update(nbody=(1, 4), ntree=(1, 2))
    if nofree:
        over.update(free=0.0)
    xml, tags = model.gen_profile(rng, prof, **over)
    root = ET.fromstring(xml)
    rw.set_compiler(root, fusestatic="false", discardvisual="false", eulerseq=rw.SEQS[int(rng.integers(0, 10))])
    if kind == "discardvisual":
        for g in root.find("worldbody").iter("geom"):
            if g.get("type") != "plane" and rng.random() < 0.45:
                g.set("contype", "0")
                g.set("conaffinity", "0")
    if kind == "fusestatic":
        add_fuse_references(root, np.random.default_rng(mseed ^ 0x5F5E100))
    # model.gen writes euler angles for the default sequence: keep the numbers, they are just a different rotation
    return ET.tostring(root, encoding="unicode")


def add_fuse_references(root, rng):
    """fusestatic base models: name the lights, and add the referencing elements the generator profile does not produce --
    explicit contact pairs (geom refs), a contact exclude and a joint equality (body / joint refs; bodies with joints only, a
    referenced static body would simply not be fused), a site-based connect equality and a tuple over geoms/sites/cameras.
    Constraints are disabled in these models (flag constraint=disable), so none of this changes the trajectories; it only adds
    integer references that must survive the re-indexing."""
    wb = root.find("worldbody")
    for i, l in enumerate(wb.iter("light")):
        l.set("name", "l%d" % i)
    pm = rw.parent_map(wb)

    def body_of(el):
        b = pm[el]
        while b.tag not in ("body", "worldbody"):
            b = pm[b]
        return b
    geoms = [g for g in wb.iter("geom") if g.get("name")]
    sites = [x for x in wb.iter("site") if x.get("name")]
    cams = [x for x in wb.iter("camera") if x.get("name")]
    jbodies = [b for b in wb.iter("body") if b.get("name") and (b.find("joint") is not None or b.find("freejoint") is not None)]
    con = root.find("contact")
    if con is None:
        con = ET.SubElement(root, "contact")
    seen = set()
    for _ in range(3):
        if len(geoms) < 2:
            break
        i1, i2 = [int(x) for x in rng.choice(len(geoms), size=2, replace=False)]
        if body_of(geoms[i1]) is body_of(geoms[i2]) or (min(i1, i2), max(i1, i2)) in seen:
            continue
        seen.add((min(i1, i2), max(i1, i2)))
        ET.SubElement(con, "pair", {"name": "cp%d" % len(seen), "geom1": geoms[i1].get("name"), "geom2": geoms[i2].get("name")})
    if len(jbodies) >= 2 and rng.random() < 0.5:
        i1, i2 = [int(x) for x in rng.choice(len(jbodies), size=2, replace=False)]
        ET.SubElement(con, "exclude", {"name": "ex0", "body1": jbodies[i1].get("name"), "body2": jbodies[i2].get("name")})
    eq = root.find("equality")
    if eq is None:
        eq = ET.SubElement(root, "equality")
    if len(sites) >= 2:
        i1, i2 = [int(x) for x in rng.choice(len(sites), size=2, replace=False)]
        if body_of(sites[i1]) is not body_of(sites[i2]):
            ET.SubElement(eq, "connect", {"name": "eqs", "site1": sites[i1].get("name"), "site2": sites[i2].get("name")})
    sj = [j for j in wb.iter("joint") if j.get("name") and j.get("type", "hinge") in ("hinge", "slide")]
    if len(sj) >= 2:
        i1, i2 = [int(x) for x in rng.choice(len(sj), size=2, replace=False)]
        ET.SubElement(eq, "joint", {"name": "eqj", "joint1": sj[i1].get("name"), "joint2": sj[i2].get("name")})
    els = []
    for tag, lst in (("geom", geoms), ("site", sites), ("camera", cams)):
        for k in range(min(2, len(lst))):
            els.append((tag, lst[int(rng.integers(0, len(lst)))].get("name")))
    if els:
        tp = ET.SubElement(ET.SubElement(root, "custom"), "tuple", {"name": "tp0"})
        for k, (tag, nm) in enumerate(els):
            ET.SubElement(tp, "element", {"objtype": tag, "objname": nm, "prm": str(k)})


def make_pair(c):
    """-> dict(A=xml, B=xml | attach=(xmlP, xmlC), counts, tol)"""
    kind = c["kind"]
    rng = np.random.default_rng(c["rseed"])
    xml = base_xml(c["mseed"], kind)
    root = rw.parse(xml)
    out = {"A": xml, "tol": TOL.get(kind, 1e-9)}
    if kind in ("orient", "eulerseq", "angle", "defaults", "frame"):
        fn = {"orient": rw.rewrite_orient, "eulerseq": rw.rewrite_eulerseq, "angle": rw.rewrite_angle,
              "defaults": rw.rewrite_defaults, "frame": rw.rewrite_frame}[kind]
        fns = {"orient": rw.rewrite_orient, "angle": rw.rewrite_angle, "frame": rw.rewrite_frame, "defaults": rw.rewrite_defaults}
        k2 = None
        if c.get("combo"):          # a second, different rewrite in the same pair
            k2 = ["orient", "angle", "frame", "defaults"][int(rng.integers(0, 4))]
            if k2 == kind:
                k2 = None
        # the tree rewrites read explicit attributes, so moving values into default classes always comes last
        if kind == "defaults" and k2:
            n2 = fns[k2](root, rng)
            out["counts"] = fn(root, rng)
        else:
            out["counts"] = fn(root, rng)
            n2 = fns[k2](root, rng) if k2 else {}
        if n2:
            out["counts"]["combo:" + k2] = 1
        out["B"] = rw.tostring(root)
    elif kind == "replicate":
        A, B, n, info = rw.make_replicate_pair(root, rng)
        out.update(A=rw.tostring(A), B=rw.tostring(B), counts=n, label="replicate")
        if info["multi"]:
            # >= 2 non-zero Euler angles and count > 2: the finding C36-replicate-multi-axis-euler applies.  M is the written-out
            # model with the finding's mechanism (replica i rotated by euler(i*e)): the counterfactual that must equal A
            out.update(mech=rw.tostring(info["mech"]), suffixes=info["suffixes"])
    elif kind == "attach":
        host_world = bool(c["rseed"] % 2)
        child = rw.parse(base_xml(c["mseed"] + 7919, kind, small=True, nofree=not host_world))
        # same global settings in parent and child (attach merges them by the 'conflict' rule otherwise)
        for tag in ("compiler", "option"):
            ch, pa = child.find(tag), root.find(tag)
            child.remove(ch)
            child.insert(0, ET.fromstring(ET.tostring(pa)))
        inline, P, Cc, n = rw.make_attach_pair(root, child, rng, host_world=host_world)
        out.update(A=rw.tostring(inline), attach=(rw.tostring(P), rw.tostring(Cc)), counts=n)
    elif kind in ("fusestatic", "discardvisual"):
        rw.set_compiler(root, **{kind: "true"})
        out.update(B=rw.tostring(root), counts={})
    return out


def compile_attached(L, xmlP, xmlC, prefix="c_"):
    sp = L.parse_xml_string(xmlP)
    sc = L.parse_xml_string(xmlC)
    try:
        fr = L.call("mjs_findFrame", sp, "att", ret="ptr")
        if not fr:
            raise drv.MjError("frame 'att' not found")
        fr_el = C.c_uint64.from_address(fr).value
        ch_el = C.c_uint64.from_address(sc.ptr).value           # mjSpec.element: attaches the whole child world
        r = L.call("mjs_attach", fr_el, ch_el, prefix, "", ret="ptr")
        if not r:
            e = L.lib.mjs_getError
            e.restype = C.c_char_p
            e.argtypes = [C.c_void_p]
            raise drv.MjError("mjs_attach failed: " + (e(sp.ptr) or b"").decode(errors="replace"))
        return L.compile(sp)
    finally:
        sp.free()
        sc.free()


# ---- comparison ---------------------------------------------------------------------------------------------------

def names(m, kind):
    ot, nn = OBJ[kind]
    out = {}
    for i in range(m.n(nn)):
        nm = m.name(getattr(E, ot), i)
        if nm:
            out[nm] = i
    return out


def close(a, b, tol, quat=False):
    a = np.asarray(a, float)
    b = np.asarray(b, float)
    if a.shape != b.shape:
        return False, float("inf")
    if a.size == 0:
        return True, 0.0
    both_nan = np.isnan(a) & np.isnan(b)
    if both_nan.any():
        a = np.where(both_nan, 0.0, a)
        b = np.where(both_nan, 0.0, b)
    e = np.abs(a - b) / (1 + np.abs(a))
    if not np.all(np.isfinite(e)):
        return False, float("inf")
    if quat:
        e2 = np.abs(a + b) / (1 + np.abs(a))
        if e2.max() < e.max():
            e = e2
    return bool(e.max() <= tol), float(e.max())


def tensor(m, i):
    R = so3.quat_to_mat(m["body_iquat"][i])
    return R @ np.diag(m["body_inertia"][i]) @ R.T


def compare_models(P, mA, mB, tol, kind, wit):
    """object-by-object (by name) comparison of compiled arrays; returns number of compared values"""
    ncmp = 0
    fuse = kind.startswith("fusestatic")

    def bad(field, name, a, b, err):
        P.violation("compiled-array-differs:%s:%s" % (kind, field), dict(wit, field=field, object=name, a=a, b=b, err=err))
    for ok_, (ot, nn) in OBJ.items():
        if ok_ == "sensor":
            continue
        nA, nB = names(mA, ok_), names(mB, ok_)
        if set(nA) != set(nB):
            missing = sorted(set(nA) ^ set(nB))
            legit = (fuse and ok_ == "body") or (kind == "discardvisual" and ok_ == "geom")
            if not legit:
                P.violation("name-set-differs:%s:%s" % (kind, ok_), dict(wit, only_in_one=missing[:10]))
        for nm in sorted(set(nA) & set(nB)):
            ia, ib = nA[nm], nB[nm]
            for fld in FIELDS[ok_]:
                if fuse and (fld in FUSE_SKIP or (fld == "body_subtreemass" and ia == 0)):
                    continue
                if fld not in mA:
                    continue
                a, b = mA[fld][ia], mB[fld][ib]
                ok, err = close(a, b, tol, quat=fld.endswith("_quat"))
                ncmp += 1
                P.note_max("arr_err_" + kind, err)
                if not ok:
                    bad(fld, nm, a, b, err)
            if ok_ == "body" and not fuse and ia > 0:
                Ia, Ib = tensor(mA, ia), tensor(mB, ib)
                sc = max(np.abs(Ia).max(), 1e-300)
                err = float(np.abs(Ia - Ib).max() / sc)
                ncmp += 1
                if err > max(tol, 1e-5):     # eigen-decomposition tolerance of the compiler (see C35)
                    bad("body_inertia_tensor", nm, Ia, Ib, err)
            if ok_ == "jnt":
                ta, tb = int(mA["jnt_type"][ia]), int(mB["jnt_type"][ib])
                if ta != tb:
                    continue
                nq = {E.mjJNT_FREE: 7, E.mjJNT_BALL: 4}.get(ta, 1)
                nv = {E.mjJNT_FREE: 6, E.mjJNT_BALL: 3}.get(ta, 1)
                qa, qb = int(mA["jnt_qposadr"][ia]), int(mB["jnt_qposadr"][ib])
                da, db = int(mA["jnt_dofadr"][ia]), int(mB["jnt_dofadr"][ib])
                for fld in ("qpos0", "qpos_spring"):
                    a, b = mA[fld][qa:qa + nq], mB[fld][qb:qb + nq]
                    if fuse and ta == E.mjJNT_FREE:
                        continue
                    ok, err = close(a, b, tol)
                    if not ok and ta in (E.mjJNT_FREE, E.mjJNT_BALL):
                        ok, err = close(a[-4:], b[-4:], tol, quat=True)
                        ok = ok and close(a[:-4], b[:-4], tol)[0]
                    ncmp += 1
                    if not ok:
                        bad(fld, nm, a, b, err)
                for fld in DOF_FIELDS:
                    a, b = mA[fld][da:da + nv], mB[fld][db:db + nv]
                    ok, err = close(a, b, tol)
                    ncmp += 1
                    P.note_max("arr_err_" + kind, err)
                    if not ok:
                        bad(fld, nm, a, b, err)
    sa = np.frombuffer(mA.stat_bytes(), dtype=np.float64)[:7]
    sb = np.frombuffer(mB.stat_bytes(), dtype=np.float64)[:7]
    if not fuse and kind != "discardvisual":
        ok, err = close(sa, sb, max(tol, 1e-9))
        ncmp += 1
        if not ok:
            bad("stat", "-", sa, sb, err)
    return ncmp


def references(m, raw=False):
    """name-level view of the integer references held by tendon wraps, actuator transmissions, sensors, contact pairs, contact
    excludes, equalities and tuples: {"<category>:<referencing element>": tuple of plain values and resolved NAMES}.
    raw=True returns (object type, id) pairs in place of the names (used by the stale-name-map confirmation).
    Not covered: skin bones (no skins in the generated models)."""
    out = {}

    def idname(ot, i):
        if i < 0 or ot is None:
            return None
        return (int(ot), int(i)) if raw else m.name(ot, int(i))
    wt, wo = m["wrap_type"], m["wrap_objid"]
    for nm, t in names(m, "tendon").items():
        a, n = int(m["tendon_adr"][t]), int(m["tendon_num"][t])
        for k in range(n):
            ty = int(wt[a + k])
            ot = {E.mjWRAP_JOINT: E.mjOBJ_JOINT, E.mjWRAP_SITE: E.mjOBJ_SITE, E.mjWRAP_SPHERE: E.mjOBJ_GEOM,
                  E.mjWRAP_CYLINDER: E.mjOBJ_GEOM}.get(ty)
            out["tendon-wrap:%s:%d" % (nm, k)] = (ty, idname(ot, wo[a + k]) if ot is not None else None)
    for nm, a in names(m, "actuator").items():
        ty = int(m["actuator_trntype"][a])
        ot = {E.mjTRN_JOINT: E.mjOBJ_JOINT, E.mjTRN_JOINTINPARENT: E.mjOBJ_JOINT, E.mjTRN_TENDON: E.mjOBJ_TENDON,
              E.mjTRN_SITE: E.mjOBJ_SITE, E.mjTRN_SLIDERCRANK: E.mjOBJ_SITE, E.mjTRN_BODY: E.mjOBJ_BODY}.get(ty)
        ids = m["actuator_trnid"][a]
        out["actuator-transmission:%s" % nm] = (ty, idname(ot, ids[0]) if ot is not None else None,
                                                idname(E.mjOBJ_SITE, ids[1]) if ty in (E.mjTRN_SITE, E.mjTRN_SLIDERCRANK) else None)
    for nm, i in names(m, "sensor").items():
        ot, rt = int(m["sensor_objtype"][i]), int(m["sensor_reftype"][i])
        out["sensor-object:%s" % nm] = (int(m["sensor_type"][i]), ot, idname(ot, m["sensor_objid"][i]) if ot > 0 else None,
                                        rt, idname(rt, m["sensor_refid"][i]) if rt > 0 else None)
    # explicit contact pairs: the compiler may store the two geoms in either order (sorted by body id) -> unordered
    for i in range(m.n("npair")):
        nm = m.name(E.mjOBJ_PAIR, i)
        if nm:
            g = [int(m["pair_geom1"][i]), int(m["pair_geom2"][i])]
            g.sort(key=lambda j: repr(m.name(E.mjOBJ_GEOM, j)))
            out["contact-pair:%s" % nm] = tuple(idname(E.mjOBJ_GEOM, j) for j in g)
    for i in range(m.n("nexclude")):
        nm = m.name(E.mjOBJ_EXCLUDE, i)
        if nm:
            sg = int(m["exclude_signature"][i])
            b = [sg >> 16, sg & 0xFFFF]
            b.sort(key=lambda j: repr(m.name(E.mjOBJ_BODY, j)))
            out["exclude:%s" % nm] = tuple(idname(E.mjOBJ_BODY, j) for j in b)
    for i in range(m.n("neq")):
        nm = m.name(E.mjOBJ_EQUALITY, i)
        if nm:
            ty, ot = int(m["eq_type"][i]), int(m["eq_objtype"][i])
            o1, o2 = int(m["eq_obj1id"][i]), int(m["eq_obj2id"][i])
            if ty in (E.mjEQ_CONNECT, E.mjEQ_WELD) and ot == E.mjOBJ_BODY:
                # body-based connect/weld: body ids; "world" (0) is a legitimate second body
                out["equality:%s" % nm] = (ty, ot, idname(ot, o1), idname(ot, o2))
            else:
                out["equality:%s" % nm] = (ty, ot, idname(ot, o1), idname(ot, o2) if o2 >= 0 else None)
    for i in range(m.n("ntuple")):
        nm = m.name(E.mjOBJ_TUPLE, i)
        a, n = int(m["tuple_adr"][i]), int(m["tuple_size"][i])
        out["tuple:%s" % nm] = tuple((int(m["tuple_objtype"][a + k]), idname(int(m["tuple_objtype"][a + k]), m["tuple_objid"][a + k]))
                                     for k in range(n))
    return out


STALE_MAP_TYPES = ("mjOBJ_SITE", "mjOBJ_GEOM", "mjOBJ_CAMERA", "mjOBJ_LIGHT")


def stale_name_map_explains(mA, mB, ra_raw, rb_raw, unordered=False, wrap=False):
    """Structural confirmation of the finding C36-fusestatic-stale-site-ids (stale name->index maps) for ONE differing reference: FuseStatic re-indexes
    geoms/sites/cameras/lights (FuseReindex) but leaves the compiler's name->index maps of those lists as they were before fusing,
    so a later lookup of name N returns the object that NOW sits at N's ORIGINAL index.  The original indices are those of the
    unfused twin A.  Hence every (type, id) in B must either equal the intended object (same name as in A) or, for the four
    re-indexed types, carry exactly A's id of the intended object; anything else is not this mechanism."""
    stale = set(getattr(E, t) for t in STALE_MAP_TYPES)
    hit = False

    def walk(x, y):
        nonlocal hit
        if isinstance(x, tuple) and len(x) == 2 and all(isinstance(v, int) for v in x) and isinstance(y, tuple) and len(y) == 2 \
                and all(isinstance(v, int) for v in y) and x[0] == y[0] and x[0] in stale | {E.mjOBJ_BODY, E.mjOBJ_JOINT,
                                                                                             E.mjOBJ_TENDON, E.mjOBJ_XBODY}:
            ot = x[0]
            if mA.name(ot, x[1]) == mB.name(ot, y[1]):
                return True                      # same object
            if ot in stale and y[1] == x[1]:     # B kept A's index although the list was re-ordered
                hit = True
                return True
            return False
        if isinstance(x, tuple) and isinstance(y, tuple):
            return len(x) == len(y) and all(walk(u, v) for u, v in zip(x, y))
        return x == y
    if wrap:
        # (wrap type, object): the compiler derives sphere-vs-cylinder from the geom it found, so the type follows the object
        geomwrap = (E.mjWRAP_SPHERE, E.mjWRAP_CYLINDER)
        if ra_raw[0] != rb_raw[0] and not (ra_raw[0] in geomwrap and rb_raw[0] in geomwrap):
            return False
        return bool(walk(ra_raw[1], rb_raw[1]) and hit)
    if walk(ra_raw, rb_raw) and hit:
        return True
    if unordered:                                # contact pairs / excludes are stored sorted by NAME: try the other pairing too
        hit = False
        return walk(ra_raw, tuple(reversed(rb_raw))) and hit
    return False


def replicate_suffix_collision(k, ra, rb):
    """mechanism test for an element that exists only in the <replicate> model A: its name is N+suf for a referencing element N that
    BOTH models have (so N is outside the replicated subtree: the written-out model B did not multiply it), N resolves to the same
    target T in both, and the extra element resolves to T+suf - an element that also exists in B, i.e. one the replication did not
    create.  <replicate> then multiplied a reference from outside the subtree because 'target name + suffix' happens to name an
    unrelated element."""
    cat, name = k.split(":", 1)
    extra = ra[k]
    for k0 in ra:
        c0, n0 = k0.split(":", 1)
        if c0 != cat or k0 == k or k0 not in rb or not name.startswith(n0) or len(name) <= len(n0):
            continue
        suf = name[len(n0):]
        if ra[k0] != rb[k0]:
            continue
        t0 = [x for x in _flat(ra[k0]) if isinstance(x, str)]
        t1 = [x for x in _flat(extra) if isinstance(x, str)]
        if t0 and len(t0) == len(t1) and all(b == a + suf for a, b in zip(t0, t1)):
            allB = set(x for v in rb.values() for x in _flat(v) if isinstance(x, str))
            # the collided target must be an element the written-out model has under that very name and that is not one of ITS replicas
            return True
    return False


def _flat(v):
    if isinstance(v, (tuple, list)):
        for x in v:
            yield from _flat(x)
    else:
        yield v


def compare_references(P, mA, mB, kind, wit):
    """-> {category: [referencing elements that resolve to different objects]}"""
    ra, rb = references(mA), references(mB)
    raw = None
    bad = {}
    nrep = {}
    for k in ra:
        P.count("refs_" + k.split(":")[0])
        if k not in rb:
            sig = "referencing-element-missing:%s:%s" % (kind, k.split(":")[0])
            if kind == "replicate" and replicate_suffix_collision(k, ra, rb):
                # findings/C36-replicate-suffix-name-collision.md (confirmed on this very element, see replicate_suffix_collision)
                sig = "replicate-copies-an-outside-referencing-element-onto-an-unrelated-element-whose-name-equals-target-plus-suffix:" + k.split(":")[0]
                P.count("replicate_suffix_collision_confirmed")
            P.violation(sig, dict(wit, reference=k))
            continue
        if ra[k] != rb[k]:
            cat = k.split(":")[0]
            bad.setdefault(cat, []).append(k.split(":")[1])
            label = kind
            if kind == "fusestatic":
                # listed as a known finding only when the mechanism is confirmed on this very reference
                if raw is None:
                    raw = references(mA, raw=True), references(mB, raw=True)
                if not stale_name_map_explains(mA, mB, raw[0][k], raw[1][k], unordered=cat in ("contact-pair", "exclude"),
                                               wrap=cat == "tendon-wrap"):
                    label = "fusestatic-not-stale-name-map"
                else:
                    P.count("stale_name_map_confirmed")
            nrep[(label, cat)] = nrep.get((label, cat), 0) + 1
            if nrep[(label, cat)] <= 3:
                P.violation("reference-points-to-other-object:%s:%s" % (label, cat),
                            dict(wit, reference=k, a=list(ra[k]), b=list(rb[k])))
    P.count("references_compared", len(ra))
    return bad


# wrong references in these categories change lengths, moments, forces: the numeric comparison would only restate the fault.
# Contact pairs, excludes, equalities (constraints are disabled in the generated models) and tuples have no effect on any compared
# quantity, and a wrong sensor object only affects that sensor's own reading (which is then left out).
DOWNSTREAM_CATS = ("tendon-wrap", "actuator-transmission")


def init_state(m, d, seed):
    jn = names(m, "jnt")
    for nm, j in jn.items():
        t = int(m["jnt_type"][j])
        nv = {E.mjJNT_FREE: 6, E.mjJNT_BALL: 3}.get(t, 1)
        da = int(m["jnt_dofadr"][j])
        r = np.random.default_rng(core.stable_hash(seed, nm) % (2 ** 32))
        d["qvel"][da:da + nv] = r.normal(size=nv) * 0.7
    an = names(m, "actuator")
    for nm, a in an.items():
        r = np.random.default_rng(core.stable_hash(seed, "act", nm) % (2 ** 32))
        d["ctrl"][a] = float(r.uniform(-0.5, 0.5))


def world_obs(m, d):
    o = {}
    for kind, pf, qf in (("body", "xpos", "xquat"), ("site", "site_xpos", None), ("geom", "geom_xpos", None),
                         ("cam", "cam_xpos", None), ("light", "light_xpos", None)):
        for nm, i in names(m, kind).items():
            o[kind + ":" + nm + ":pos"] = d[pf][i].copy()
            if qf:
                o[kind + ":" + nm + ":quat"] = d[qf][i].copy()
            if kind == "cam":
                o[kind + ":" + nm + ":mat"] = d["cam_xmat"][i].copy().ravel()
            if kind == "light":
                o[kind + ":" + nm + ":dir"] = d["light_xdir"][i].copy()
    for nm, i in names(m, "sensor").items():
        a, n = int(m["sensor_adr"][i]), int(m["sensor_dim"][i])
        o["sensor:" + nm + (":quat" if n == 4 else ":val")] = d["sensordata"][a:a + n].copy()
    return o


def standalone_free_bodies(m):
    """names of the bodies that doc/computation 'Gyroscopic derivatives for free bodies' calls standalone free bodies: exactly one
    joint, of free type, a 6-dof tree, no (massive) children"""
    out = set()
    for nm, b in names(m, "body").items():
        if int(m["body_jntnum"][b]) != 1 or int(m["jnt_type"][int(m["body_jntadr"][b])]) != E.mjJNT_FREE:
            continue
        adr = int(m["jnt_dofadr"][int(m["body_jntadr"][b])])
        if int(m["tree_dofnum"][int(m["dof_treeid"][adr])]) == 6 and float(m["body_subtreemass"][b]) == float(m["body_mass"][b]):
            out.add(nm)
    return out


def fuse_classifier(P, mA, mB):
    """fusestatic pairs: classify a differing observable.  A camera / light pose difference is the known finding
    C36-fusestatic-camera-light-pose-reset ONLY IF (structural confirmation) (i) the body carrying it in A does not exist in B,
    i.e. it was actually fused, and (ii) the world pose in B is exactly what the mechanism predicts: the UNCHANGED local pose of A
    (cam_pos/cam_quat, light_pos/light_dir are re-copied from the spec after fusing) applied in the frame of the body that
    absorbed it.  Otherwise the suffix is '<kind>-not-pose-reset' (generic).  A frame sensor attached to / referred to a camera
    whose difference was confirmed this way only observes that camera again and is not reported a second time."""
    bodiesB = names(mB, "body")
    confirmed = set()

    def classify(k, oa, ob, dA, dB):
        ok_kind, nm, what = k.split(":")[0], k.split(":")[1], k.split(":")[-1]
        if ok_kind in ("cam", "light"):
            ia, ib = names(mA, ok_kind)[nm], names(mB, ok_kind)[nm]
            fb = "cam_bodyid" if ok_kind == "cam" else "light_bodyid"
            fused = mA.name(E.mjOBJ_BODY, int(mA[fb][ia])) not in bodiesB
            hb = int(mB[fb][ib])
            X = dB["xmat"][hb].reshape(3, 3)
            if ok_kind == "cam":
                pred = {"pos": dB["xpos"][hb] + X @ mA["cam_pos"][ia],
                        "mat": (X @ so3.quat_to_mat(mA["cam_quat"][ia])).ravel()}[what]
            else:
                pred = {"pos": dB["xpos"][hb] + X @ mA["light_pos"][ia], "dir": X @ mA["light_dir"][ia]}[what]
            if fused and close(pred, ob[k], 1e-9)[0]:
                confirmed.add((ok_kind, nm))
                P.count("cam_light_pose_reset_confirmed")
                return ok_kind
            return ok_kind + "-not-pose-reset"
        if ok_kind == "sensor":
            i = names(mA, "sensor")[nm]
            for tf, idf in (("sensor_objtype", "sensor_objid"), ("sensor_reftype", "sensor_refid")):
                if int(mA[tf][i]) == E.mjOBJ_CAMERA and ("cam", mA.name(E.mjOBJ_CAMERA, int(mA[idf][i]))) in confirmed:
                    P.count("sensor_observing_confirmed_camera_not_repeated")
                    return None
        return ok_kind
    return classify


def compare_traj(P, L, mA, mB, tol, kind, wit, seed, sens=1e-13, classify=None, only=None):
    """classify(k, oa, ob, dA, dB) -> signature suffix of a differing observable k (None: do not report); only(k) -> whether the
    observable takes part in the comparison at all"""
    dA, dB = mA.make_data(), mB.make_data()
    init_state(mA, dA, seed)
    init_state(mB, dB, seed)
    dP = None
    if sens:
        # twin of A whose initial velocity is scaled by (1 + sens): measures how much the system itself amplifies a
        # perturbation of the size that the rewrite injects (rounding: 1e-13; merged-inertia eigen-decomposition: 1e-6)
        dP = mA.make_data()
        init_state(mA, dP, seed)
        dP["qvel"][:] = dP["qvel"] * (1 + sens)
    worst = 0.0
    try:
        step = 0
        for target in CHECK_STEPS:
            while step < target:
                L.call("mj_step", mA, dA, ret=None)
                L.call("mj_step", mB, dB, ret=None)
                if dP is not None:
                    L.call("mj_step", mA, dP, ret=None)
                step += 1
                for d_ in (dA, dB):
                    if d_.m.n("nv") and (np.abs(d_["qacc"]).max() > 1e7 or np.abs(d_["qvel"]).max() > 1e4
                                         or not np.all(np.isfinite(d_["qacc"]))):
                        P.count("unstable_skipped")
                        return worst
            oa, ob = world_obs(mA, dA), world_obs(mB, dB)
            amp = 0.0
            if dP is not None:
                op = world_obs(mA, dP)
                amp = max(close(oa[k], op[k], 0, quat=k.endswith(":quat"))[1] for k in oa) if oa else 0.0
                if not np.isfinite(amp):
                    P.count("unstable_skipped")
                    return worst
                P.note_max("perturbation_growth", amp / sens)
            seen = set()
            # cameras and lights first: a sensor that observes a camera is classified after the camera itself
            for k in sorted(oa, key=lambda k_: (not k_.startswith(("cam:", "light:")), k_)):
                if k not in ob or (only is not None and not only(k)):
                    continue
                ok, err = close(oa[k], ob[k], tol + 20 * amp, quat=k.endswith(":quat"))
                if not ok or not np.all(np.isfinite(oa[k])):
                    if not np.all(np.isfinite(oa[k])) and not np.all(np.isfinite(ob[k])):
                        P.count("both_diverged")
                        return worst
                    ok_kind = classify(k, oa, ob, dA, dB) if classify else k.split(":")[0]
                    if ok_kind is None:
                        continue
                    if ok_kind not in seen:
                        seen.add(ok_kind)
                        P.violation("trajectory-differs:%s:%s" % (kind, ok_kind),
                                    dict(wit, step=step, object=k, a=oa[k], b=ob[k], err=err))
                else:
                    worst = max(worst, err)
            if seen:
                return worst
    finally:
        dA.free()
        dB.free()
        if dP is not None:
            dP.free()
    P.note_max("traj_err_" + kind, worst)
    return worst


# ---- pairs that carry a known finding: confirm the mechanism, keep verifying everything else ------------------------------

def compare_replicate_multiaxis(P, L, mA, mB, mM, pair, tol, wit, seed):
    """A = <replicate> with >= 2 non-zero Euler angles, B = written out as documented (T^i), M = written out with the mechanism
    of finding C36-replicate-multi-axis-euler (replica i rotated by euler(i*e), offsets accumulated with those rotations).
    1. COUNTERFACTUAL: A must equal M in every reference, compiled array and trajectory under the GENERIC label 'replicate' --
       this confirms the mechanism and at the same time checks everything else about this replicate (names, suffixes, defaults,
       actuator/sensor replication, host-body mass properties) exactly as in a single-axis pair.
    2. A versus the documented B: only the frame-dependent compiled fields of the replicated top-level objects (body rb<i>, and
       geom rl<i> on a body host) and the world poses of the objects of replica i are compared; a difference is the known finding
       for replica index i >= 2 and a generic violation for replicas 0 and 1 (which the mechanism leaves exact; their world
       poses are covered by step 1, M and B being identical there).  The remaining
       A-vs-B differences (host chain mass properties, coupled motion of the rest of the tree) are consequences already verified
       through step 1 and are not restated."""
    wm = dict(wit, xmlMechanismTwin=pair["mech"])
    if any(cat in DOWNSTREAM_CATS for cat in compare_references(P, mA, mM, "replicate", wm)):
        P.count("downstream_skipped_after_wrong_reference")
        return 0
    ncmp = compare_models(P, mA, mM, tol, "replicate", wm)
    compare_traj(P, L, mA, mM, tol, "replicate", wm, seed)
    P.count("replicate_multiaxis_counterfactual_pairs")
    nA = {k: names(mA, k) for k in ("body", "geom")}
    nB = {k: names(mB, k) for k in ("body", "geom")}
    idx = {}
    ndiff = 0
    for i, suf in enumerate(pair["suffixes"]):
        for base in ("rb", "rc", "rg", "rcg", "rl", "rs", "rx"):
            idx[base + suf] = i
        for ok_, base, flds in (("body", "rb", ("body_pos", "body_quat")), ("geom", "rl", ("geom_pos", "geom_quat"))):
            nm = base + suf
            if nm not in nA[ok_] or nm not in nB[ok_]:
                continue                      # (rl exists on body hosts only; a missing name was reported in step 1)
            for fld in flds:
                a, b = mA[fld][nA[ok_][nm]], mB[fld][nB[ok_][nm]]
                ok, err = close(a, b, tol, quat=fld.endswith("_quat"))
                ncmp += 1
                if not ok:
                    ndiff += 1
                    P.violation("compiled-array-differs:%s:%s" % ("replicate-multiaxis" if i >= 2 else "replicate", fld),
                                dict(wit, field=fld, object=nm, replica=i, a=a, b=b, err=err))
    if ndiff:
        P.count("replicate_multiaxis_confirmed")

    # world poses / sensor values of the objects of replicas >= 2 (replicas 0 and 1 and everything else: step 1)
    compare_traj(P, L, mA, mB, tol, "replicate-multiaxis", wit, seed, only=lambda k: idx.get(k.split(":")[1], -1) >= 2)
    return ncmp


def forces_at_start(L, m, seed):
    """named-dof view of qfrc_gravcomp and qacc after mj_forward from qpos0 with the named initial velocities / controls"""
    d = m.make_data()
    init_state(m, d, seed)
    d.forward()
    out = {}
    for nm, j in names(m, "jnt").items():
        nv = {E.mjJNT_FREE: 6, E.mjJNT_BALL: 3}.get(int(m["jnt_type"][j]), 1)
        da = int(m["jnt_dofadr"][j])
        out[nm] = (d["qfrc_gravcomp"][da:da + nv].copy(), d["qacc"][da:da + nv].copy())
    d.free()
    return out


def compare_fuse_gravcomp(P, L, mA, mB, gc_fused, tol, wit, seed, fc, only=None):
    """fusestatic pair in which a fused body with mass has a gravcomp different from the body that absorbs it.
    1. the gravity-compensation force itself: qfrc_gravcomp / qacc of A and B at the common start state.  A difference is reported
       under the exact signature qfrc-gravcomp-differs:fusestatic-gravcomp only when the COUNTERFACTUAL confirms the mechanism
       ("the fused mass takes the absorber's gravcomp"): A with body_gravcomp of exactly those fused bodies set to their
       absorber's value must reproduce B's qfrc_gravcomp and qacc, and then also B's trajectories (generic label 'fusestatic',
       gravity on) -- so nothing else about fusing is hidden by the finding.
    2. as the audit asked: the original A and B with gravity switched off (gravcomp is then inert) must agree as well."""
    fa, fb = forces_at_start(L, mA, seed), forces_at_start(L, mB, seed)
    worst = 0.0
    for nm in fa:
        if nm in fb:
            sc = 1 + max(np.abs(fa[nm][0]).max(), np.abs(fa[nm][1]).max())
            worst = max(worst, float(np.abs(fa[nm][0] - fb[nm][0]).max() / sc), float(np.abs(fa[nm][1] - fb[nm][1]).max() / sc))
    orig = mA["body_gravcomp"].copy()
    for i, j in gc_fused.items():
        mA["body_gravcomp"][i] = orig[j]
    try:
        fc_ = forces_at_start(L, mA, seed)
        resid = 0.0
        for nm in fc_:
            if nm in fb:
                sc = 1 + max(np.abs(fb[nm][0]).max(), np.abs(fb[nm][1]).max())
                resid = max(resid, float(np.abs(fc_[nm][0] - fb[nm][0]).max() / sc), float(np.abs(fc_[nm][1] - fb[nm][1]).max() / sc))
        det = dict(wit, fused_bodies={mA.name(E.mjOBJ_BODY, i): mA.name(E.mjOBJ_BODY, j) for i, j in gc_fused.items()},
                   qfrc_gravcomp_qacc_A={k: v for k, v in fa.items()}, qfrc_gravcomp_qacc_B={k: v for k, v in fb.items()},
                   err=worst, err_after_aligning_gravcomp=resid)
        P.note_max("fuse_gravcomp_force_diff", worst)
        P.note_max("fuse_gravcomp_counterfactual_residual", resid)
        if resid > tol:
            P.violation("qfrc-gravcomp-or-qacc-differs:fusestatic", det)      # not explained by the gravcomp mechanism
        elif worst > tol:
            P.count("fuse_gravcomp_confirmed")
            P.violation("qfrc-gravcomp-differs:fusestatic-gravcomp", det)
        # the counterfactual A' against B, gravity on, generic label
        compare_traj(P, L, mA, mB, tol, "fusestatic", dict(wit, note="A with the fused bodies' gravcomp set to the absorber's"),
                     seed, sens=1e-6, classify=fc, only=only)
    finally:
        mA["body_gravcomp"][:] = orig
    gA, gB = mA.opt["gravity"].copy(), mB.opt["gravity"].copy()
    mA.opt["gravity"][:] = 0
    mB.opt["gravity"][:] = 0
    try:
        compare_traj(P, L, mA, mB, tol, "fusestatic", dict(wit, note="gravity set to zero in both models"), seed, sens=1e-6,
                     classify=fc, only=only)
    finally:
        mA.opt["gravity"][:] = gA
        mB.opt["gravity"][:] = gB
    P.count("fuse_gravcomp_pairs")


# ---- mj_setConst --------------------------------------------------------------------------------------------------

SETCONST_FIELDS = ["tendon_lengthspring", "body_subtreemass", "body_invweight0", "dof_invweight0", "dof_M0", "tendon_length0", "tendon_invweight0",
                   "actuator_acc0", "actuator_length0", "qpos0", "qpos_spring", "body_mass", "body_inertia", "body_pos", "jnt_pos",
                   "geom_pos", "actuator_gear", "cam_pos0", "cam_poscom0", "light_pos0", "light_poscom0"]


def run_setconst(P, L, c):
    rng = np.random.default_rng(c["rseed"])
    xml0 = base_xml(c["mseed"], "setconst").replace("<compiler ", '<compiler saveinertial="true" ', 1)
    try:
        spec = L.parse_xml_string(xml0)
        m0 = L.compile(spec)
        saved = L.save_xml_string(spec, precision=17)
        spec.free()
        m0.free()
        mA = L.load_xml_string(saved)
    except drv.MjError as e:
        P.count("base_rejected")
        return
    root = ET.fromstring(saved)
    wit = {"case": c, "saved_xml": saved}
    n = {}

    def bump(k):
        n[k] = n.get(k, 0) + 1
    nb = names(mA, "body")
    # edits: XML side and model side
    for b in root.find("worldbody").iter("body"):
        nm = b.get("name")
        if nm not in nb:
            continue
        i = nb[nm]
        ine = b.find("inertial")
        if ine is not None and rng.random() < 0.6:
            k = float(rng.uniform(0.5, 2.0))
            mass = float(ine.get("mass")) * k
            ine.set("mass", repr(mass))
            mA["body_mass"][i] = mass
            bump("setconst:mass")
            if rng.random() < 0.7 and "diaginertia" in ine.attrib:
                di = np.array([float(v) for v in ine.get("diaginertia").split()]) * float(rng.uniform(0.6, 1.5))
                ine.set("diaginertia", " ".join(repr(float(v)) for v in di))
                mA["body_inertia"][i] = di
                bump("setconst:inertia")
        has_free = any(j.get("type") == "free" for j in b.findall("joint")) or b.find("freejoint") is not None
        if has_free:
            P.count("setconst_skipped_free_body_pos")     # the pose of a floating body lives in qpos0, not in body_pos
        if rng.random() < 0.4 and not has_free:
            pos = np.array([float(v) for v in b.get("pos", "0 0 0").split()]) + rng.normal(size=3) * 0.05
            b.set("pos", " ".join(repr(float(v)) for v in pos))
            mA["body_pos"][i] = pos
            bump("setconst:body_pos")
    jn = names(mA, "jnt")
    for j in root.find("worldbody").iter("joint"):
        nm = j.get("name")
        if nm in jn and j.get("type", "hinge") != "free" and rng.random() < 0.4:
            i = jn[nm]
            if "body_simple" in mA and int(mA["body_simple"][int(mA["jnt_bodyid"][i])]) != 0:
                continue
            pos = np.array([float(v) for v in j.get("pos", "0 0 0").split()]) + rng.normal(size=3) * 0.03
            j.set("pos", " ".join(repr(float(v)) for v in pos))
            mA["jnt_pos"][i] = pos
            bump("setconst:jnt_pos")
    gn = names(mA, "geom")
    for g in root.find("worldbody").iter("geom"):
        nm = g.get("name")
        if nm in gn and "fromto" not in g.attrib and rng.random() < 0.3:
            i = gn[nm]
            pos = np.array([float(v) for v in g.get("pos", "0 0 0").split()]) + rng.normal(size=3) * 0.03
            g.set("pos", " ".join(repr(float(v)) for v in pos))
            mA["geom_pos"][i] = pos
            bump("setconst:geom_pos")
    an = names(mA, "actuator")
    act = root.find("actuator")
    for a in (list(act) if act is not None else []):
        nm = a.get("name")
        if nm in an and rng.random() < 0.6:
            i = an[nm]
            gear = mA["actuator_gear"][i].copy()
            gear[0] *= float(rng.uniform(0.5, 2.0))
            a.set("gear", " ".join(repr(float(v)) for v in gear))
            mA["actuator_gear"][i] = gear
            bump("setconst:gear")
    tn = names(mA, "tendon")
    ten = root.find("tendon")
    for t in (list(ten) if ten is not None else []):
        nm = t.get("name")
        if t.tag != "fixed" or nm not in tn:
            continue
        i = tn[nm]
        adr = int(mA["tendon_adr"][i])
        for k, jj in enumerate(t.findall("joint")):
            if rng.random() < 0.7:
                coef = float(jj.get("coef", "1")) * float(rng.uniform(0.5, 2.0))
                jj.set("coef", repr(coef))
                mA["wrap_prm"][adr + k] = coef
                bump("setconst:tendon_coef")
    # a tendon whose spec leaves springlength at the default -1 ("resting length taken from the reference configuration"):
    # the compiled model holds the resolved number, the runtime spelling of the same spec value is -1 again
    for t in (list(ten) if ten is not None else []):
        if t.get("name") in tn and "springlength" not in t.attrib:
            mA["tendon_lengthspring"][tn[t.get("name")]] = -1
            bump("setconst:springlength_default_restored")
    if not n:
        P.case(nontrivial=False)
        return
    editedxml = ET.tostring(root, encoding="unicode")
    wit["edited_xml"] = editedxml
    wit["edits"] = n
    try:
        mB = L.load_xml_string(editedxml)
    except drv.MjError as e:
        P.count("setconst_recompile_rejected")
        return
    dA = mA.make_data()
    try:
        L.call("mj_setConst", mA, dA, ret=None)
    except drv.MjError as e:
        P.count("setconst_error:" + str(e)[:40])
        return
    worst = 0.0
    for fld in SETCONST_FIELDS:
        if fld not in mA:
            continue
        a, b = mA[fld], mB[fld]
        ok, err = close(a, b, 1e-9)
        worst = max(worst, err)
        if not ok:
            P.violation("setConst-differs-from-recompile:" + fld, dict(wit, field=fld, a=a, b=b, err=err))
    # compile itself runs mj_setConst, so a field that BOTH leave stale would agree: the subtree masses are also summed here
    sub = mA["body_mass"].copy()
    par_ = mA["body_parentid"]
    for i in range(mA.n("nbody") - 1, 0, -1):
        sub[par_[i]] += sub[i]
    ok, err = close(mA["body_subtreemass"], sub, 1e-12)
    if not ok:
        P.violation("setConst-subtreemass-not-sum-of-masses", dict(wit, a=mA["body_subtreemass"], want=sub, err=err))
    sa = np.frombuffer(mA.stat_bytes(), dtype=np.float64)[:7]
    sb = np.frombuffer(mB.stat_bytes(), dtype=np.float64)[:7]
    ok, err = close(sa, sb, 1e-9)
    if not ok:
        P.violation("setConst-differs-from-recompile:stat", dict(wit, a=sa, b=sb, err=err))
    P.note_max("arr_err_setconst", worst)
    # and the physics agrees afterwards
    compare_traj(P, L, mA, mB, 1e-9, "setconst", wit, c["rseed"])
    for k, v in n.items():
        P.count(k, v)
    P.count("kind_setconst")
    P.case(key="setconst|%d" % c["mseed"], nontrivial=mA.n("nv") > 0,
           sample={"kind": "setconst", "model_seed": c["mseed"], "edits": n, "nv": mA.n("nv")})
    dA.free()


WRAP_MSG = re.compile(r"geom '([^']+)' in tendon (\d+), wrap (\d+) is not sphere or cylinder")


def strip_geom_wraps(xml):
    root = ET.fromstring(xml)
    for t in root.iter("spatial"):
        for g in t.findall("geom"):
            t.remove(g)
    return ET.tostring(root, encoding="unicode")


XBODY_MSG = re.compile(r"unrecognized name '([^']+)' of (?:sensorized )?object\s+Element name '([^']+)'")


def drop_xbody_sensor(xml, sensor, body):
    """remove the named sensor if its objtype/reftype 'xbody' names `body`; None when there is no such sensor"""
    root = ET.fromstring(xml)
    sec = root.find("sensor")
    for el in list(sec) if sec is not None else ():
        if el.get("name") == sensor and any(el.get(tf) == "xbody" and el.get(nf) == body
                                            for tf, nf in (("objtype", "objname"), ("reftype", "refname"))):
            sec.remove(el)
            return ET.tostring(root, encoding="unicode")
    return None


def load_fused_twin(P, L, mA, pair, wit):
    """compile B (fusestatic=true).  Two known findings make the compiler REJECT B although A compiles; each is recognised only
    after a counterfactual / structural confirmation, and the pair is then continued on a minimally edited twin (same edit in A
    and B) so that everything else about fusing is still verified.  -> (mA, mB) or None (unexplained rejection: generic signature)

    * C36-fusestatic-stale-site-ids (stale name->index maps): "geom 'X' in tendon t, wrap k is not sphere or cylinder" although X IS a sphere or cylinder
      in the unfused model -- the wrap's geom is looked up through the stale name->index map and a different geom comes back.
      Edit: the geom wraps are removed.  Confirmation, on the wrap-free twin: the geom that sits at X's ORIGINAL index in the fused
      model is a different geom, neither sphere nor cylinder.  The trial resolution inside FuseStatic swallows the same spurious
      error and then refuses to fuse that body, so with the wraps present the fuse decisions (hence the final geom order) can
      differ from the wrap-free twin and the index test can miss; then the weaker structural facts have to do: the message is
      FALSE about X, it appears only with fusestatic=true, the wrap-free pair compiles, and fusing did re-order the geom list (the
      precondition of the mechanism: without a re-ordering the stale map is still correct).
    * C36-fusestatic-xbody-sensor-reference: "unrecognized name 'b' of (sensorized) object" for a sensor whose objtype/reftype is
      'xbody': the is-it-referenced test removes the body name from the BODY name map only, xbody look-ups do not use that map,
      the static body is fused and the sensor's body no longer exists.  Edit: that sensor is removed.  Confirmation: the body named
      in the message has no joint, the sensor named in the message refers to it as 'xbody', and once the sensor is gone the model
      compiles and does NOT contain that body any more -- i.e. it is fused, which is what left the reference dangling."""
    xa, xb = pair["A"], pair["B"]
    wrap = None
    xbody = []
    err0 = wit["error"]
    mB = None
    for _ in range(6):
        try:
            mB = L.load_xml_string(xb)
            break
        except drv.MjError as e:
            msg = str(e)
        mt = WRAP_MSG.search(msg)
        if mt and wrap is None:
            gA = names(mA, "geom")
            X = mt.group(1)
            if X in gA and int(mA["geom_type"][gA[X]]) in (E.mjGEOM_SPHERE, E.mjGEOM_CYLINDER):
                wrap = (X, msg)
                xa, xb = strip_geom_wraps(xa), strip_geom_wraps(xb)
                continue
        mt = XBODY_MSG.search(msg)
        if mt and (mt.group(2), mt.group(1)) not in xbody:
            body, sensor = mt.group(1), mt.group(2)
            bA = names(mA, "body")
            xa2, xb2 = drop_xbody_sensor(xa, sensor, body), drop_xbody_sensor(xb, sensor, body)
            if body in bA and int(mA["body_jntnum"][bA[body]]) == 0 and xa2 and xb2:
                xbody.append((sensor, body))
                xa, xb = xa2, xb2
                wit.setdefault("xbody_errors", []).append(msg)
                continue
        return None
    if mB is None:
        return None
    try:
        mA2 = L.load_xml_string(xa)
    except drv.MjError:
        mB.free()
        return None
    if wrap:
        X = wrap[0]
        j = names(mA2, "geom")[X]                      # original index of X (A is the unfused twin)
        by_index = j < mB.n("ngeom") and mB.name(E.mjOBJ_GEOM, j) != X and \
            int(mB["geom_type"][j]) not in (E.mjGEOM_SPHERE, E.mjGEOM_CYLINDER)
        reordered = [mA2.name(E.mjOBJ_GEOM, i) for i in range(mA2.n("ngeom"))] != [mB.name(E.mjOBJ_GEOM, i) for i in range(mB.n("ngeom"))]
        if not (by_index or reordered):
            mA2.free()
            mB.free()
            return None
        P.count("wrap_rejection_stale_name_map_confirmed" + ("" if by_index else "_by_reordering_only"))
        P.violation("one-spelling-rejected:fusestatic:wrap-geom-type-via-stale-name-map",
                    dict(wit, error=wrap[1], intended_geom=X, geom_now_at_its_original_index=mB.name(E.mjOBJ_GEOM, j) if j < mB.n("ngeom") else None))
    if any(body in names(mB, "body") for sensor, body in xbody):
        mA2.free()
        mB.free()
        return None
    for sensor, body in xbody:
        P.count("xbody_sensor_rejection_confirmed")
        P.violation("one-spelling-rejected:fusestatic:xbody-sensor-on-static-body", dict(wit, sensor=sensor, body=body))
    pair["A"], pair["B"] = xa, xb
    wit["xmlA"], wit["xmlB"] = xa, xb
    wit["note_edited_twin"] = ("continued on an edited twin after the rejection: " + ("geom wraps removed; " if wrap else "")
                               + ("sensors removed: %s" % xbody if xbody else ""))
    wit["error"] = err0
    return mA2, mB


# ---- worker -------------------------------------------------------------------------------------------------------

def worker(c):
    P = core.Part()
    L = drv.Lib("rel")
    kind = c["kind"]
    if kind == "setconst":
        run_setconst(P, L, c)
        return P.result()
    pair = make_pair(c)
    wit = {"case": c, "xmlA": pair["A"], "xmlB": pair.get("B"), "attach": pair.get("attach"), "applications": pair["counts"]}
    try:
        mA = L.load_xml_string(pair["A"])
    except drv.MjError as e:
        P.count("base_rejected")
        P.count("base_rejected_" + kind)
        wit["error"] = str(e)
        if kind in ("replicate", "attach"):
            # the A side already contains the construct under test: a rejection is a finding about it only if B compiles
            try:
                mB = compile_attached(L, *pair["attach"]) if kind == "attach" else L.load_xml_string(pair["B"])
                P.violation("one-spelling-rejected:%s:A" % kind, wit)
            except drv.MjError:
                pass
        return P.result()
    try:
        if kind == "attach":
            mB = compile_attached(L, *pair["attach"])
        else:
            mB = L.load_xml_string(pair["B"])
    except drv.MjError as e:
        wit["error"] = str(e)
        retry = load_fused_twin(P, L, mA, pair, wit) if kind == "fusestatic" else None
        if retry is None:
            P.violation("one-spelling-rejected:%s:B" % kind, wit)
            mA.free()
            return P.result()
        mA.free()
        mA, mB = retry
    napp = sum(v for k, v in pair["counts"].items())
    if kind == "fusestatic":
        napp = mA.n("nbody") - mB.n("nbody")
        pair["counts"] = {"fusestatic:bodies-fused": napp} if napp else {}
        # fused massive bodies whose gravcomp differs from the (non-world) body that absorbs them (finding C36-fusestatic-gravcomp)
        gc_fused = {}
        absorbers = set()
        nbA, nbB = names(mA, "body"), names(mB, "body")
        for nm, i in nbA.items():
            if nm not in nbB:
                j = i
                while mA.name(E.mjOBJ_BODY, j) not in nbB:
                    j = int(mA["body_parentid"][j])
                if float(mA["body_mass"][i]) > 0:
                    absorbers.add(j)
                if float(mA["body_gravcomp"][i]) != float(mA["body_gravcomp"][j]) and float(mA["body_mass"][i]) > 0 and j > 0:
                    gc_fused[i] = j
        if gc_fused:
            pair["counts"]["fusestatic:gravcomp-differs"] = 1
    if kind == "discardvisual":
        napp = mA.n("ngeom") - mB.n("ngeom")
        pair["counts"] = {"discardvisual:geoms-removed": napp} if napp else {}
    degenerate = False
    for m_ in (mA, mB):
        w = m_["dof_invweight0"]
        if w.size and (not np.all(np.isfinite(w)) or np.abs(w).max() > 1e10 or w.min() < 0):
            degenerate = True
    if degenerate:
        # singular joint-space inertia at qpos0 (e.g. a hinge through a point mass): invweight0 is NaN or +-1e16 depending on
        # rounding, and the dynamics are undefined; not a statement about the rewrite
        P.count("singular_inertia_skipped")
        P.case(nontrivial=False)
        mA.free()
        mB.free()
        return P.result()
    tol = pair["tol"]
    label = pair.get("label", kind)
    ncmp = 0
    mM = None
    if pair.get("mech"):
        try:
            mM = L.load_xml_string(pair["mech"])
        except drv.MjError as e:
            P.count("replicate_mechanism_twin_rejected")     # cannot confirm: the pair is then judged like any other replicate pair
    if mM is not None:
        ncmp = compare_replicate_multiaxis(P, L, mA, mB, mM, pair, tol, wit, c["rseed"])
        mM.free()
    else:
        bad = compare_references(P, mA, mB, label, wit)
        if any(cat in bad for cat in DOWNSTREAM_CATS):
            # everything downstream (lengths, moments, forces) is then a consequence of the wrong reference
            P.count("downstream_skipped_after_wrong_reference")
        else:
            ncmp = compare_models(P, mA, mB, tol, label, wit)
            fc = fuse_classifier(P, mA, mB) if kind == "fusestatic" else None
            if kind == "fusestatic" and int(mA.opt["integrator"]) == E.mjINT_IMPLICITFAST and \
                    standalone_free_bodies(mA) != standalone_free_bodies(mB):
                # documented integrator rule (ASSUMPTIONS): compare this pair under 'implicit', where the rule does not apply
                P.count("fusestatic_implicitfast_standalone_rule_pairs")
                mA.opt["integrator"] = E.mjINT_IMPLICIT
                mB.opt["integrator"] = E.mjINT_IMPLICIT
            only = None
            left_out = set(bad.get("sensor-object", ()))
            P.count("sensors_left_out_after_wrong_reference", len(left_out))
            if kind == "fusestatic":
                # objtype/reftype "body" is the INERTIAL frame of the body (xipos/ximat); for a body that absorbed mass it moves
                # with the merged inertia (ASSUMPTIONS): such sensors are not comparable ("xbody" sensors are)
                for nm, i in names(mA, "sensor").items():
                    for tf, idf in (("sensor_objtype", "sensor_objid"), ("sensor_reftype", "sensor_refid")):
                        if int(mA[tf][i]) == E.mjOBJ_BODY and int(mA[idf][i]) in absorbers and nm not in left_out:
                            left_out.add(nm)
                            P.count("sensors_left_out_inertial_frame_of_absorber")
            if left_out:
                only = lambda k, _b=left_out: not (k.startswith("sensor:") and k.split(":")[1] in _b)
            if kind == "fusestatic" and gc_fused:
                compare_fuse_gravcomp(P, L, mA, mB, gc_fused, tol, wit, c["rseed"], fc, only)
            else:
                compare_traj(P, L, mA, mB, tol, label, wit, c["rseed"], sens=(1e-6 if kind == "fusestatic" else 1e-13),
                             classify=fc, only=only)
    for k, v in pair["counts"].items():
        P.count(k, v)
    if napp:
        P.count("kind_" + kind)
    P.count("values_compared", ncmp)
    P.case(key="%s|%d" % (kind, c["mseed"]), nontrivial=bool(napp) and mA.n("nv") > 0,
           sample={"kind": kind, "model_seed": c["mseed"], "applications": pair["counts"], "nv": mA.n("nv"), "nbody": mA.n("nbody")})
    mA.free()
    mB.free()
    return P.result()


def cases(ctx):
    rng = ctx.rng
    per = ctx.pick(16, 120)
    cs = []
    for kind in KINDS:
        for i in range(per):
            cs.append({"kind": kind, "mseed": int(rng.integers(0, 2 ** 31)), "rseed": int(rng.integers(0, 2 ** 31)),
                       "combo": bool(i % 3 == 2)})
    return cs


REQUIRED = (["kind_" + k for k in KINDS]
            + ["orient:%s" % k for k in rw.ORIENT] + ["eulerseq", "angle:euler", "angle:axisangle", "angle:joint-range", "angle:joint-ref",
                                                      "defaults:geom-grandparent", "defaults:joint-grandparent", "defaults:decoy-overridden",
                                                      "frame:body", "frame:geom", "frame:site", "frame:joint", "replicate:copies",
                                                      "attach:world", "attach:body", "fusestatic:bodies-fused",
                                                      "discardvisual:geoms-removed", "setconst:mass", "setconst:inertia",
                                                      "setconst:body_pos", "setconst:jnt_pos", "setconst:gear", "setconst:tendon_coef"])


def run(ctx):
    build.ensure("rel")
    cs = cases(ctx)
    res = par.run("vf.props.c36", "worker", cs, nproc=8 if ctx.quick else 12, timeout=ctx.pick(300, 900))
    for c, r in zip(cs, res):
        if r is None:
            ctx.inconclusive("worker returned nothing")
        elif "crash" in r:
            ctx.count("worker_crash")
            ctx.inconclusive("worker crashed: rc=%s %s" % (r.get("rc"), r["crash"][-300:]))
        elif "exception" in r:
            ctx.count("harness_exception")
            ctx.inconclusive("harness exception in worker: " + r["exception"] + r.get("trace", "")[-500:])
        else:
            ctx.merge(r)
    ctx.min_nontrivial = ctx.pick(100, 800)
    missing = []
    for k in REQUIRED:
        if not any((kk == k or kk.startswith(k + ":") or (k.startswith("orient:") and (kk.startswith(k + "->") or kk.endswith("->" + k[7:])) and kk.startswith("orient:")))
                   and v for kk, v in ctx.counters.items()):
            missing.append(k)
    if missing:
        ctx.inconclusive("rewrite kinds with zero applications: %s" % missing)
    if ctx.counters.get("base_rejected", 0) > 0.25 * len(cs):
        ctx.inconclusive("too many base models rejected")


def replay(ctx, path):
    rec = json.load(open(path))
    ctx.merge(worker(rec["detail"]["case"]))
    ctx.min_nontrivial = 0
